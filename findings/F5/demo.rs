// metrics-exporter-prometheus/tests/f5.rs — sample names must be the TYPE line's family name plus an allowed suffix.
use metrics::{Key, Level, Metadata, Recorder, Unit};
use metrics_exporter_prometheus::PrometheusBuilder;

#[test]
fn unit_suffix_is_part_of_the_family_name() {
    let rec = PrometheusBuilder::new()
        .set_enable_unit_suffix(true)
        .set_buckets_for_metric(metrics_exporter_prometheus::Matcher::Full("lat".into()), &[1.0])
        .unwrap()
        .build_recorder();
    static M: Metadata<'static> = Metadata::new("t", Level::INFO, None);
    rec.describe_counter("foo".into(), Some(Unit::Bytes), "a counter".into());
    rec.describe_histogram("lat".into(), Some(Unit::Seconds), "a histogram".into());
    rec.describe_histogram("sum".into(), Some(Unit::Seconds), "a summary".into());
    rec.register_counter(&Key::from_name("foo"), &M).increment(1);
    rec.register_histogram(&Key::from_name("lat"), &M).record(0.5);
    rec.register_histogram(&Key::from_name("sum"), &M).record(0.5);
    let out = rec.handle().render();
    let mut family: Option<(String, String)> = None;
    for line in out.lines() {
        if let Some(rest) = line.strip_prefix("# TYPE ") {
            let mut it = rest.split(' ');
            family = Some((it.next().unwrap().to_string(), it.next().unwrap().to_string()));
        } else if line.starts_with('#') || line.is_empty() {
            continue;
        } else {
            let name = line.split(|c| c == '{' || c == ' ').next().unwrap();
            let (fam, ty) = family.clone().expect("sample before TYPE");
            let allowed: &[&str] = match ty.as_str() { "histogram" => &["_bucket", "_sum", "_count"], "summary" => &["", "_sum", "_count"], _ => &[""] };
            assert!(allowed.iter().any(|s| name == format!("{fam}{s}")), "sample `{name}` does not belong to family `{fam}` ({ty}):\n{out}");
        }
    }
    assert!(out.contains("# TYPE foo_bytes counter"), "{out}");
    assert!(out.contains("lat_seconds_bucket{le=\"1\"}"), "{out}");
}
