// metrics-util/tests/f3f4.rs — conservation under concurrent push / clear_with.
use std::sync::atomic::{AtomicBool, AtomicU64, Ordering};
use std::sync::Arc;
use metrics_util::storage::AtomicBucket;

fn one_round(pushers: usize, per: u64) -> (u64, u64) {
    let bucket = Arc::new(AtomicBucket::<u64>::new());
    let done = Arc::new(AtomicBool::new(false));
    let seen = Arc::new(AtomicU64::new(0));
    let clearer = {
        let (b, d, s) = (bucket.clone(), done.clone(), seen.clone());
        std::thread::spawn(move || {
            while !d.load(Ordering::Acquire) {
                b.clear_with(|vals| { s.fetch_add(vals.len() as u64, Ordering::Relaxed); });
            }
        })
    };
    let hs: Vec<_> = (0..pushers).map(|_| { let b = bucket.clone(); std::thread::spawn(move || { for i in 0..per { b.push(i); } }) }).collect();
    for h in hs { h.join().unwrap(); }
    done.store(true, Ordering::Release);
    clearer.join().unwrap();
    bucket.clear_with(|vals| { seen.fetch_add(vals.len() as u64, Ordering::Relaxed); });
    (pushers as u64 * per, seen.load(Ordering::Relaxed))
}

#[test]
fn every_pushed_value_is_delivered_to_exactly_one_clear() {
    let mut lost = 0i64;
    for _ in 0..12 {
        let (pushed, seen) = one_round(4, 200_000);
        lost += pushed as i64 - seen as i64;
    }
    assert_eq!(lost, 0, "values pushed but never delivered to any clear (negative: delivered twice)");
}
