use std::sync::atomic::{AtomicBool, AtomicU64, Ordering};
use std::sync::Arc;
use metrics_util::storage::AtomicBucket;
#[test]
fn readers_and_destructors() {
    let live = Arc::new(());
    for _ in 0..6 {
        let bucket = Arc::new(AtomicBucket::<Arc<()>>::new());
        let done = Arc::new(AtomicBool::new(false));
        let seen = Arc::new(AtomicU64::new(0));
        let mut aux = Vec::new();
        { let (b, d, s) = (bucket.clone(), done.clone(), seen.clone());
          aux.push(std::thread::spawn(move || { while !d.load(Ordering::Acquire) { b.clear_with(|v| { s.fetch_add(v.len() as u64, Ordering::Relaxed); }); } })); }
        for _ in 0..2 { let (b, d) = (bucket.clone(), done.clone());
          aux.push(std::thread::spawn(move || { let mut n = 0u64; while !d.load(Ordering::Acquire) { b.data_with(|v| n += v.len() as u64); let _ = b.is_empty(); } std::hint::black_box(n); })); }
        let hs: Vec<_> = (0..4).map(|_| { let b = bucket.clone(); let l = live.clone(); std::thread::spawn(move || { for _ in 0..100_000 { b.push(l.clone()); } }) }).collect();
        for h in hs { h.join().unwrap(); }
        done.store(true, Ordering::Release);
        for a in aux { a.join().unwrap(); }
        bucket.clear_with(|v| { seen.fetch_add(v.len() as u64, Ordering::Relaxed); });
        assert_eq!(seen.load(Ordering::Relaxed), 400_000);
    }
    // give the epoch collector a chance to run deferred frees
    for _ in 0..2000 { let g = crossbeam_epoch::pin(); g.flush(); }
    assert!(Arc::strong_count(&live) >= 1);
    eprintln!("outstanding clones: {}", Arc::strong_count(&live) - 1);
}
