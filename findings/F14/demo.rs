use std::io::Read;
use std::net::TcpStream;
use std::time::Duration;
use metrics::{Key, Label, Recorder, Metadata, Level};
// A slow client must still see a concatenation of whole length-delimited frames.
#[test]
fn slow_client_sees_whole_frames() {
    let addr: std::net::SocketAddr = "127.0.0.1:47614".parse().unwrap();
    let rec = metrics_exporter_tcp::TcpBuilder::new().listen_address(addr).build().unwrap();
    std::thread::sleep(Duration::from_millis(200));
    let mut c = TcpStream::connect(addr).expect("connect");
    std::thread::sleep(Duration::from_millis(300));
    static M: Metadata<'static> = Metadata::new("t", Level::INFO, None);
    let long = "x".repeat(3000);
    let key = Key::from_parts("frame_test_metric", vec![Label::new("pad", long)]);
    let h = rec.register_counter(&key, &M);
    // do not read for a while: socket buffers fill up, writes hit WouldBlock with a parked remainder
    for _ in 0..6000 { h.increment(1); if false { std::thread::yield_now(); } }
    std::thread::sleep(Duration::from_millis(500));
    for _ in 0..3000 { h.increment(1); }
    std::thread::sleep(Duration::from_millis(300));
    // now read everything that arrives
    c.set_read_timeout(Some(Duration::from_millis(800))).unwrap();
    let mut data = Vec::new();
    let mut buf = vec![0u8; 1 << 16];
    loop {
        match c.read(&mut buf) { Ok(0) => break, Ok(n) => { data.extend_from_slice(&buf[..n]); for _ in 0..50 { h.increment(1); } if data.len() > 40_000_000 { break; } } Err(_) => break }
    }
    assert!(data.len() > 100_000, "expected a lot of data, got {}", data.len());
    // parse frames: varint length, payload starting with tag 0x0a (metadata) or 0x12 (metric)
    let mut i = 0usize; let mut frames = 0usize;
    while i < data.len() {
        let mut len = 0usize; let mut shift = 0; let start = i;
        loop { if i >= data.len() { return; } let b = data[i]; i += 1; len |= ((b & 0x7f) as usize) << shift; shift += 7; if b & 0x80 == 0 { break; } assert!(shift < 35, "bad varint at {}", start); }
        if i + len > data.len() { break; }
        assert!(len > 3000 && len < 3200, "frame {} at offset {} has implausible length {} (torn frame)", frames, start, len);
        assert!(data[i] == 0x0a || data[i] == 0x12, "frame {} at offset {} starts with tag {:#x} (torn frame)", frames, start, data[i]);
        i += len; frames += 1;
    }
    assert!(frames > 30);
}
