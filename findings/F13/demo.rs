use std::io::Read;
use std::net::TcpStream;
use std::time::Duration;
use metrics::{Key, Recorder, Metadata, Level};
#[test]
fn unbounded_buffer_starts_and_serves() {
    let addr: std::net::SocketAddr = "127.0.0.1:47613".parse().unwrap();
    let rec = metrics_exporter_tcp::TcpBuilder::new().listen_address(addr).buffer_size(None).build().unwrap();
    std::thread::sleep(Duration::from_millis(200));
    let mut c = TcpStream::connect(addr).expect("connect");
    c.set_read_timeout(Some(Duration::from_secs(3))).unwrap();
    std::thread::sleep(Duration::from_millis(300));
    static M: Metadata<'static> = Metadata::new("t", Level::INFO, None);
    let h = rec.register_counter(&Key::from_name("abc"), &M);
    for _ in 0..5 { h.increment(1); std::thread::sleep(Duration::from_millis(50)); }
    let mut buf = [0u8; 16];
    let n = c.read(&mut buf).expect("the transport thread must be alive and send frames");
    assert!(n > 0);
}
