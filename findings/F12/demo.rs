use std::io::Read;
use std::net::TcpStream;
use std::time::Duration;
use metrics::{Key, Recorder, Metadata, Level};
#[test]
fn survivor_keeps_receiving_after_other_client_disconnects() {
    let addr: std::net::SocketAddr = "127.0.0.1:47612".parse().unwrap();
    let rec = metrics_exporter_tcp::TcpBuilder::new().listen_address(addr).build().unwrap();
    std::thread::sleep(Duration::from_millis(200));
    let a = TcpStream::connect(addr).expect("connect a");
    let mut b = TcpStream::connect(addr).expect("connect b");
    b.set_read_timeout(Some(Duration::from_millis(700))).unwrap();
    std::thread::sleep(Duration::from_millis(300));
    static M: Metadata<'static> = Metadata::new("t", Level::INFO, None);
    let h = rec.register_counter(&Key::from_name("abc"), &M);
    h.increment(1);
    std::thread::sleep(Duration::from_millis(100));
    drop(a); // client A goes away
    // keep emitting so that the exporter notices the dead client while fanning out
    for _ in 0..40 { h.increment(1); std::thread::sleep(Duration::from_millis(25)); }
    // drain what B got so far
    let mut buf = [0u8; 65536];
    loop { match b.read(&mut buf) { Ok(0) => panic!("b closed"), Ok(_) => continue, Err(_) => break } }
    // now emit again: the surviving client must still be served
    for _ in 0..10 { h.increment(1); std::thread::sleep(Duration::from_millis(25)); }
    let n = b.read(&mut buf).unwrap_or(0);
    assert!(n > 0, "surviving client stopped receiving metrics after the other client disconnected");
}
