// metrics-util/tests/f15.rs — same key registered as counter and gauge must not share recency state.
use std::time::Duration;
use metrics::{Key, CounterFn, GaugeFn};
use metrics_util::{MetricKindMask, registry::{GenerationalAtomicStorage, Recency, Registry}};
use quanta::Clock;

#[test]
fn just_updated_gauge_survives_stale_equal_key_counter() {
    let (clock, mock) = Clock::mock();
    let registry = Registry::new(GenerationalAtomicStorage::atomic());
    let recency = Recency::new(clock, MetricKindMask::ALL, Some(Duration::from_secs(10)));
    let key = Key::from_name("shared");
    // counter updated once: generation 1, observed at t=0
    registry.get_or_create_counter(&key, |c| CounterFn::increment(c, 1));
    let cgen = registry.get_counter_handles().into_iter().next().unwrap().1.get_generation();
    assert!(recency.should_store_counter(&key, cgen, &registry));
    mock.increment(Duration::from_secs(11));
    // gauge with the same key is set now for the first time: also generation 1
    registry.get_or_create_gauge(&key, |g| GaugeFn::set(g, 5.0));
    let ggen = registry.get_gauge_handles().into_iter().next().unwrap().1.get_generation();
    // first observation of the gauge: it was updated an instant ago, it must be kept
    assert!(recency.should_store_gauge(&key, ggen, &registry), "a gauge updated just now was dropped because the equal-key counter is stale");
    assert_eq!(registry.get_gauge_handles().len(), 1);
}
