// metrics/tests/f2.rs — equality and ordering must agree for two labels with the same name.
use metrics::{Key, Label};
use std::cmp::Ordering;
#[test]
fn eq_and_cmp_agree_for_two_labels() {
    let a = Key::from_parts("n", vec![Label::new("k", "1"), Label::new("k", "2")]);
    let b = Key::from_parts("n", vec![Label::new("k", "2"), Label::new("k", "1")]);
    assert!(a == b);
    assert_eq!(a.cmp(&b), Ordering::Equal, "a == b but a.cmp(&b) != Equal");
    assert_eq!(a.get_hash(), b.get_hash());
    // and the order is still antisymmetric / consistent for distinct keys
    let c = Key::from_parts("n", vec![Label::new("k", "1"), Label::new("k", "3")]);
    assert_eq!(a.cmp(&c), c.cmp(&a).reverse());
    assert_ne!(a.cmp(&c), Ordering::Equal);
}
