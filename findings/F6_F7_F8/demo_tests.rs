// Appended to metrics-exporter-dogstatsd/src/writer.rs (scratch copy only) to demonstrate F6, F7, F8.
#[cfg(test)]
mod verif_demo {
    use super::PayloadWriter;
    use metrics::Key;

    fn payloads(w: &mut PayloadWriter) -> Vec<Vec<u8>> {
        let mut out = Vec::new();
        let mut p = w.payloads();
        while let Some(x) = p.next_payload() { out.push(x.to_vec()); }
        out
    }

    #[test]
    fn f6_length_prefix_after_rejected_metric() {
        let mut w = PayloadWriter::new(20, true);
        let big = Key::from_name("a_name_that_is_far_too_long_for_the_limit");
        assert!(w.write_counter(&big, 1, None, None, &[]).any_failures());
        let ok = Key::from_name("abcdefgh");
        assert!(!w.write_counter(&ok, 1, None, None, &[]).any_failures());
        let ps = payloads(&mut w);
        assert_eq!(ps.len(), 1);
        assert_eq!(&ps[0][..], b"\x0d\0\0\0abcdefgh:1|c\n", "payload after a rejected metric must carry its own length header");
    }

    #[test]
    fn f7_length_prefix_after_drain() {
        let mut w = PayloadWriter::new(8192, true);
        let ok = Key::from_name("abcdefgh");
        assert!(!w.write_counter(&ok, 1, None, None, &[]).any_failures());
        assert_eq!(payloads(&mut w).len(), 1);
        // second flush cycle on the same writer
        assert!(!w.write_counter(&ok, 1, None, None, &[]).any_failures());
        let ps = payloads(&mut w);
        assert_eq!(ps.len(), 1);
        assert_eq!(&ps[0][..], b"\x0d\0\0\0abcdefgh:1|c\n", "payload written after a drain must carry its own length header");
    }

    #[test]
    fn f8_prefix_counts_towards_the_limit() {
        let mut w = PayloadWriter::new(64, false);
        let key = Key::from_name("latency_histogram_name");
        let values: Vec<f64> = (0..200).map(|i| i as f64 + 0.5).collect();
        let r = w.write_histogram(&key, values.iter().copied(), None, Some("a.rather.long.global.prefix"), &[]);
        let ps = payloads(&mut w);
        for p in &ps { assert!(p.len() <= 64, "payload of {} bytes exceeds the limit", p.len()); }
        assert_eq!(r.payloads_written() as usize, ps.len());
    }
}
