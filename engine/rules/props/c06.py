"""C06 — the registry keeps exactly one storage per metric kind and key."""
from facts import Sym, path_is, strip_generics, strip_sym, sym_arg, sym_calls, sym_is_call, sym_str, sym_through, sym_walk
from props.common import (
    arg_syms,
    bool_switches,
    callee_method_name,
    calls_to,
    crate_stats,
    field_path,
    gates,
    in_cycle,
    kind_consistent,
    need,
    nonforeign_calls,
    one_method,
    siblings_isomorphic,
)

KEEP = []  # every private helper of the registry is spliced into its callers
TITLE = "C06 one storage per (kind, key) in the sharded registry."
CONFIGS = ["test-profile", "util-registry"]
REG = "metrics_util::registry::Registry"
KINDS = ("counter", "gauge", "histogram")
LOCK_FNS = ("RwLock<T>::read", "RwLock<T>::write")
INSERT_LIKE = ("insert", "insert_hashed_nocheck", "insert_with_hasher", "insert_entry", "insert_unique_unchecked", "replace_entry", "replace_key", "try_insert", "entry", "entry_ref", "or_insert", "or_insert_with", "or_default", "or_insert_with_key")


def is_param(s, i):
    a = sym_arg(s)
    return a is not None and a[0] == i


def guard_drop_blocks(body, local):
    # locals the guard is moved into (e.g. the temporary passed to mem::drop)
    alias = {local}
    changed = True
    while changed:
        changed = False
        for i, k, s in body.stmts():
            if s["k"] == "assign" and not s["p"].get("pr") and s["rv"]["k"] == "use":
                p = s["rv"]["a"].get("move")
                if p and p["l"] in alias and not p.get("pr") and s["p"]["l"] not in alias:
                    alias.add(s["p"]["l"])
                    changed = True
    out = set()
    for i in range(body.n):
        t = body.term(i)
        if t["k"] == "drop" and t["p"]["l"] in alias and not t["p"].get("pr"):
            out.add(i)
        elif t["k"] == "call" and path_is(t.get("callee"), "mem::drop"):
            for a in t["args"]:
                p = a.get("move")
                if p and p["l"] in alias and not p.get("pr"):
                    out.add(i)
    return out


def lock_sites(fn):
    """[(callsite, 'read'|'write', guard_local or None, poison_handling)] for every RwLock acquisition in fn (not closures)."""
    out = []
    b = fn.body
    sy = Sym(fn)
    for c in fn.body.calls():
        if not c.is_(*LOCK_FNS):
            continue
        mode = "write" if c.is_("RwLock<T>::write") else "read"
        res = c.t["dest"]["l"]
        # who consumes the LockResult?
        cons = None
        for c2 in fn.body.calls():
            for a in c2.args:
                p = a.get("move") or a.get("copy")
                if p and p["l"] == res and not p.get("pr"):
                    cons = c2
        handling = "unknown"
        guard = None
        if cons is not None and cons.is_("Result<T, E>::unwrap_or_else"):
            a1 = strip_sym(sy.operand(cons.args[1]))
            if a1[0] == "const" and a1[1] == "fn" and path_is(a1[2], "PoisonError<T>::into_inner"):
                handling = "recover"
            guard = cons.t["dest"]["l"]
        elif cons is not None and cons.is_("Result<T, E>::unwrap", "Result<T, E>::expect"):
            handling = "panic"
            guard = cons.t["dest"]["l"]
        elif cons is None:
            handling = "matched"  # inspected with if-let / match: a poisoned shard takes another path
        out.append((c, mode, guard, handling))
    return out


def run(ctx):
    chk = ctx.check
    u = ctx.crate("metrics_util")
    crate_stats(chk, u)
    chk.rule("C06.a", "provenance+RANGE shard arithmetic: all three shard vectors are sized by the same count = (..).next_power_of_two() (>= 1, evaluated once) and shard_mask = count - 1", floor=2)
    chk.rule("C06.b", "provenance one hash, one shard, one key: in every keyed operation (helpers spliced in) the hash given to from_key_hashed_nocheck is key.hashable() of the key parameter, the key argument is that key, and every shard locked is self.<kind>s[key.hashable() & self.shard_mask] of the operation's own kind", floor=9)
    chk.rule("C06.c", "MPT check-and-insert in one critical section: shard maps are only extended through raw_entry_mut().from_key_hashed_nocheck(..).or_insert_with under the shard's write guard; the read guard is dropped before write() is called; the inserted pair is (key.clone(), storage.<kind>(key)); never two shard locks at once; every lock result recovers from poisoning the same way", floor=12)
    chk.rule("C06.d", "KIND+SIB kind triplets: the three variants of each operation family are isomorphic modulo the kind and mention only their own kind; clear() clears all three maps; delete_* returns true exactly on the Occupied edge after removing; retain_* passes the predicate through un-negated; get_*_handles = visit_* + clone", floor=30)
    chk.trust("std::sync::RwLock", "hashbrown raw-entry API (from_key_hashed_nocheck compares with K: Eq)", "usize::next_power_of_two")
    chk.residue.append("fairness/timing of locks; behaviour of hashbrown's raw entry API; equality/hash agreement of the key type is property C03 (imported, not re-decided here)")

    # ---------------- C06.e key contract (imported from C03): lookups use key.get_hash(), so a key whose cached
    # hash does not belong to its (name, labels) lands in a second storage
    m = ctx.crate("metrics")
    if m is not None:
        from props.c03 import check_key_constructions

        chk.rule("C06.e", "key contract (imported from C03.b/e): every construction of a Key stores a hash that belongs to the (name, labels) it is built with, and <Key as Hashable>::hashable is get_hash()", floor=4)
        check_key_constructions(chk, "C06.e", m)
        from props.common import import_rules

        import_rules(ctx, "C03", {"C03.a", "C03.c", "C03.d"}, "C06.f", "imported from C03 (lookups compare keys with == and find them by hash): for every label-count class Key's hasher, == and cmp use the same canonical form, and the lazily memoised hash is published (hash word before the `hashed` flag, flag read before the word) — otherwise two equal keys hash differently and get two storages", floor=7)
        hf = [x for x in u.fns if x.name == "hashable" and x.j.get("impl_self") == "metrics::key::Key"]
        if hf:
            r = strip_sym(Sym(hf[0]).local(0))
            chk.ob("C06.e", hf[0].path, sym_is_call(r, "Key::get_hash"), "hashable() = self.get_hash()", hf[0].loc())

    # ---------------- C06.a  (private helpers such as shard_count()/get_hash_and_shard_for_<kind>() are spliced into
    # their callers before the rules run, so the rules speak about primitives only)
    def is_count(x):
        return sym_is_call(strip_sym(x), "next_power_of_two")

    def _builds_registry(f):
        r_ = strip_sym(Sym(f).local(0))
        return r_[0] == "agg" and "shard_mask" in (r_[4] or ())

    # new/atomic and every further associated function that assembles a Registry itself (an added constructor is held to the same rule)
    ctors = [f for f in u.fns if f.dk == "AssocFn" and strip_generics(f.j.get("impl_self", "")).startswith(REG) and (f.name in ("new", "atomic") or _builds_registry(f))]
    if len(ctors) < 2:
        chk.unrecognised("C06.a", "<anchor> Registry::{new,atomic}", f"found {len(ctors)}")
    for f in ctors:
        ret = strip_sym(Sym(f).local(0))
        if ret[0] == "call" and any(isinstance(n, str) and n in {c.path for c in ctors if c is not f} for n in (ret[1], ret[3])):
            chk.ob("C06.a", f.path, True, f"delegates to {strip_generics(ret[1]).split('::')[-1]}(), which is checked", f.loc())
            continue
        ok = ret[0] == "agg" and "shard_mask" in ret[4]
        detail = ""
        if ok:
            fields = dict(zip(ret[4], ret[3]))
            mask = strip_sym(fields["shard_mask"])
            if mask[0] == "field":
                mask = strip_sym(mask[1])
            okm = mask[0] == "bin" and mask[1].startswith("Sub") and is_count(mask[2]) and strip_sym(mask[3])[:3] == ("const", "int", 1)
            # every shard vector has exactly `count` elements: its symbolic value is a collect()/vec of something
            # bounded by the same count (take(count), 0..count, with_capacity(count)/resize_with(count))
            def sized_by_count(v):
                return any(is_count(x) for x in sym_walk(v))
            okv = all(sized_by_count(fields[k + "s"]) for k in KINDS)
            n_sc = len([c for c in nonforeign_calls(f) if c.is_("next_power_of_two")])
            ok = okm and okv and n_sc == 1
            detail = f"mask={sym_str(mask)[:60]} vectors sized by the count={okv} next_power_of_two() evaluations={n_sc}"
        chk.ob("C06.a", f.path, ok, "three vectors of count shards, shard_mask = count - 1, count = one (..).next_power_of_two() evaluation (a power of two >= 1)" if ok else f"shard vectors / mask not built from one power-of-two shard count ({detail})", f.loc())

    def is_hash(x):
        x = strip_sym(x)
        if x[0] == "cast":
            x = strip_sym(x[1])
        return sym_is_call(x, "Hashable::hashable") and is_param(sym_through(x[2][0]), 1)

    def shard_of(sh, k):
        """sh is `self.<k>s[key.hashable() & self.shard_mask]` -> None, else the reason"""
        sh = strip_sym(sh)
        if not sym_is_call(sh, "get_unchecked", "Index::index", "<impl [T]>::get", "Option<T>::unwrap", "Option<T>::expect"):
            return f"locks {sym_str(sh)[:80]} — not a shard of self.{k}s"
        while sym_is_call(sh, "Option<T>::unwrap", "Option<T>::expect"):
            sh = strip_sym(sh[2][0])
        base = strip_sym(sym_through(sh[2][0], "Deref::deref", "Vec<T, A>::as_slice", "Index::index"))
        if not (base[0] == "field" and base[2] == f"{k}s" and is_param(base[1], 0)):
            return f"shard taken from {sym_str(base)[:60]}, not self.{k}s"
        idx = strip_sym(sh[2][1])
        if not (idx[0] == "bin" and idx[1] == "BitAnd"):
            return f"shard index is {sym_str(idx)[:80]}, not hash & shard_mask"
        l, r = strip_sym(idx[2]), strip_sym(idx[3])

        def is_mask(x):
            return x[0] == "field" and x[2] == "shard_mask" and is_param(x[1], 0)

        if not ((is_hash(l) and is_mask(r)) or (is_hash(r) and is_mask(l))):
            return f"shard index is {sym_str(idx)[:80]}, not key.hashable() & self.shard_mask"
        return None

    # ---------------- C06.b / C06.c on keyed operations
    fam = {"get_or_create": {}, "get": {}, "delete": {}, "visit": {}, "retain": {}, "handles": {}}
    for k in KINDS:
        for famname, fname in (("get_or_create", f"get_or_create_{k}"), ("get", f"get_{k}"), ("delete", f"delete_{k}"), ("visit", f"visit_{k}s"), ("retain", f"retain_{k}s"), ("handles", f"get_{k}_handles")):
            f = one_method(chk, "C06.d", u, REG, fname)
            if f:
                fam[famname][k] = f
    all_poison = []
    for famname in ("get_or_create", "get", "delete"):
        for k, f in fam[famname].items():
            b = f.body
            sy = Sym(f)
            lookups = [c for c in f.body.calls() if c.is_("from_key_hashed_nocheck", "from_hash", "from_key")]
            locks = lock_sites(f)
            ok = bool(lookups) and bool(locks)
            detail = "" if ok else f"lookups={len(lookups)} lock sites={len(locks)}"
            if ok:
                for c in lookups:
                    a = arg_syms(c)
                    if c.is_("from_hash") and len(a) == 3:
                        # hashbrown defines from_key_hashed_nocheck(hash, k) as from_hash(hash, |q| q == k): accepted when the
                        # closure is exactly an equality test between the stored key and the key parameter
                        cl = strip_sym(a[2])
                        cf = u.fn(cl[5]) if cl[0] == "agg" and cl[1] == "closure" else None
                        r_ = strip_sym(Sym(cf).local(0)) if cf is not None else None
                        eq_ok = r_ is not None and r_[0] == "call" and isinstance(r_[1], str) and (r_[1].endswith("::eq") or path_is(r_[1], "PartialEq::eq") or path_is(r_[1], "Equivalent::equivalent")) and len(r_[2]) == 2
                        if eq_ok:
                            sides = [repr(x) for x in r_[2]]
                            eq_ok = any("('arg', 1" in x and "capture" not in x for x in sides) and any("capture" in x and "('arg', 1" in x for x in sides)
                        if not (eq_ok and is_hash(a[1])):
                            ok, detail = False, "lookup through from_hash with a predicate that is not `stored key == key`"
                            break
                        continue
                    if not c.is_("from_key_hashed_nocheck"):
                        ok, detail = False, f"lookup through {callee_method_name(c)}"
                        break
                    if not is_hash(a[1]):
                        ok, detail = False, f"hash argument is {sym_str(strip_sym(a[1]))[:80]}, not key.hashable()"
                        break
                    if not is_param(sym_through(a[2]), 1):
                        ok, detail = False, f"key argument is {sym_str(a[2])[:80]}"
                        break
                for c, mode, guard, handling in locks:
                    why = shard_of(arg_syms(c)[0], k)
                    if why:
                        ok, detail = False, why
            chk.ob("C06.b", f.path, ok, f"{len(lookups)} lookup(s) use hash = key.hashable() and the same key; {len(locks)} lock(s) take self.{k}s[hash & self.shard_mask]" if ok else f"hash/shard/key of a lookup do not belong together ({detail})", f.loc())
            all_poison += [(f, c, handling) for c, mode, guard, handling in lock_sites(f)]
    # C06.c get_or_create
    for k, f in fam["get_or_create"].items():
        b = f.body
        sy = Sym(f)
        locks = lock_sites(f)
        reads = [x for x in locks if x[1] == "read"]
        writes = [x for x in locks if x[1] == "write"]
        ins = [c for c in nonforeign_calls(f) if strip_generics(c.resolved or "").split("::")[-1] in INSERT_LIKE and "hashbrown" in (c.resolved or "")]
        where = f.path
        if len(writes) != 1 or len(reads) > 1 or len(ins) != 1:
            chk.ob("C06.c", f"{where} [entry insertion]", False, f"expected one write lock and one entry-API insertion, found writes={len(writes)} reads={len(reads)} insertions={[callee_method_name(c) for c in ins]}", f.loc())
            continue
        insc = ins[0]
        ok_entry = insc.is_("RawEntryMut<'a, K, V, S, A>::or_insert_with", "RawEntryMut::or_insert_with")
        recv = strip_sym(arg_syms(insc)[0])
        chain_ok = sym_is_call(recv, "RawEntryBuilderMut<'a, K, V, S, A>::from_key_hashed_nocheck") and sym_is_call(recv[2][0], "raw_entry_mut")
        wguard = writes[0][2]
        under_write = chain_ok and any(isinstance(x, tuple) and x and x[0] == "call" and sym_is_call(x, "Result<T, E>::unwrap_or_else") and sym_is_call(x[2][0], "RwLock<T>::write") for x in sym_walk(recv))
        chk.ob("C06.c", f"{where} [entry insertion]", ok_entry and under_write, "insertion = raw_entry_mut().from_key_hashed_nocheck(hash, key).or_insert_with(..) on the write guard (existing entry is kept)" if ok_entry and under_write else f"the map is extended through `{callee_method_name(insc)}` (a replacing insert orphans the storage of a racing creator) or not under the write guard", insc.loc())
        # guard live across insertion: no drop of the write guard between write() and the insertion
        if wguard is not None:
            dblocks = guard_drop_blocks(b, wguard)
            early = [d for d in dblocks if not b.blocks[d].get("cleanup") and insc.bb in b.reachable(d) and d != insc.bb and not b.dominates(insc.bb, d)]
            chk.ob("C06.c", f"{where} [write guard held across check+insert]", not early, "the write guard is live from write() through the insertion" if not early else "the write guard is released between acquiring it and inserting", f.loc())
        # read guard dropped before write()
        if reads:
            rguard = reads[0][2]
            wcall = writes[0][0]
            if rguard is None:
                chk.unrecognised("C06.c", f"{where} [read guard released first]", "cannot identify the read guard", f.loc())
            else:
                dblocks = guard_drop_blocks(b, rguard)
                start = reads[0][0].t.get("target")
                reach = b.reachable(start, cut=dblocks) if start is not None else set()
                ok = wcall.bb not in reach
                chk.ob("C06.c", f"{where} [read guard released first]", ok, "write() is only reached after the read guard was dropped (no self-deadlock, no read-held upgrade)" if ok else "write() can be reached while the read guard is still held (self-deadlock)", wcall.loc())
        # inserted pair
        clos = strip_sym(arg_syms(insc)[1])
        cf = u.fn(clos[5]) if clos[0] == "agg" and clos[1] == "closure" else None
        ok = False
        detail = "or_insert_with is not given a closure literal"
        if cf is not None:
            r = strip_sym(Sym(cf).local(0))
            detail = sym_str(r)[:160]
            if r[0] == "agg" and r[1] == "tuple" and len(r[3]) == 2:
                kk, vv = strip_sym(r[3][0]), strip_sym(r[3][1])
                okk = sym_is_call(kk, "Clone::clone") and is_param(sym_through(kk[2][0]), 1)
                okv = sym_is_call(vv, f"Storage::{k}") and "'storage'" in repr(vv[2][0]) and is_param(sym_through(vv[2][1]), 1)
                ok = okk and okv
        chk.ob("C06.c", f"{where} [inserted pair]", ok, f"(key.clone(), self.storage.{k}(key))" if ok else f"inserted pair is {detail}", f.loc())
    # never two locks at once: any function of Registry with >1 lock sites must release the first before the second
    regfns = [f for f in u.fns if f.dk == "AssocFn" and strip_generics(f.j.get("impl_self", "")).startswith(REG)]
    for f in regfns:
        locks = lock_sites(f)
        all_poison += [(f, c, handling) for c, mode, guard, handling in locks if (f, c, handling) not in all_poison]
        if len(locks) < 2:
            continue
        b = f.body
        bad = None
        for (c1, m1, g1, _) in locks:
            for (c2, m2, g2, _) in locks:
                if c1 is c2 or g1 is None:
                    continue
                d1 = guard_drop_blocks(b, g1)
                start = c1.t.get("target")
                if start is not None and c2.bb in b.reachable(start, cut=d1) and c2.bb != c1.bb:
                    # reachable without dropping g1 -- but a loop iteration re-acquiring the *same* site is fine only after drop
                    bad = (c1, c2)
        chk.ob("C06.c", f"{f.path} [one lock at a time]", bad is None, f"{len(locks)} lock sites, each guard dropped before the next acquisition" if bad is None else f"lock at line {bad[1].line} can be taken while the guard from line {bad[0].line} is held", f.loc())
    # poison handling: every site recovers (the rule every site but a deviant follows)
    n_rec = sum(1 for x in all_poison if x[2] == "recover")
    seen = set()
    for f, c, handling in all_poison:
        key = (f.path, c.bb)
        if key in seen:
            continue
        seen.add(key)
        if handling != "recover":
            chk.ob("C06.c", f"{f.path} [poison recovery @{callee_method_name(c)}#{sorted(k2 for k2 in seen if k2[0]==f.path).index(key)}]", False, f"this lock result is handled as `{handling}` while {n_rec} other sites recover with PoisonError::into_inner: after a panic under the lock this operation skips/abandons the shard", c.loc())
    chk.ob("C06.c", "Registry [poison recovery everywhere]", n_rec >= 1 and all(x[2] == "recover" for x in all_poison), f"all {len(seen)} lock acquisitions recover from poisoning with PoisonError::into_inner" if all(x[2] == "recover" for x in all_poison) else "some lock acquisitions do not recover from poisoning (see above)", "metrics-util/src/registry/mod.rs")

    # ---------------- C06.d
    for famname, byk in fam.items():
        for k, f in byk.items():
            kind_consistent(chk, "C06.d", f, k)
        if len(byk) == 3:
            # every family below has per-function obligations for each sibling (C06.b/c for get_or_create and the lookups,
            # [truthful result] for delete, [predicate ...] for retain, [every shard] for visit, [visit + clone] for handles)
            siblings_isomorphic(chk, "C06.d", byk, f"Registry::{famname}_*", advisory=True)
    # clear
    clr = one_method(chk, "C06.d", u, REG, "clear")
    if clr:
        from props.common import iteration_context

        cleared = set()
        clears = [c for c in nonforeign_calls(clr) if c.is_("HashMap<K, V, S, A>::clear", "clear") and "hashbrown" in (c.resolved or "")]
        skip = False
        for c in clears:
            # which collection of shards is this clear applied to, once per shard (for loop or for_each)?
            src, why = iteration_context(c)
            if src is None:
                skip = True
                continue
            fp = field_path(src) if src is not None else None
            if fp and fp[0] == 0 and len(fp[1]) == 1:
                cleared.add(fp[1][0])
            # the shard that is cleared is reached through a lock whose poisoning is recovered from, not skipped
            for d, lab in gates(c.body, c.bb):
                if lab in ("Ok", "Err", True, False) and not sym_is_call(d, "Iterator::next"):
                    skip = True
        ok = cleared == {"counters", "gauges", "histograms"} and len(clears) == 3
        chk.ob("C06.d", clr.path, ok and not skip, "clear() iterates counters, gauges and histograms and clears every shard unconditionally" if ok and not skip else f"clear() does not unconditionally clear every shard of all three kinds (fields {sorted(cleared)}, {len(clears)} clear calls, conditional={skip})", clr.loc())
    # delete returns true exactly on the Occupied edge after removal
    for k, f in fam["delete"].items():
        b = f.body
        sy = Sym(f)
        rem = [c for c in f.body.calls() if strip_generics(c.resolved or "").split("::")[-1] in ("remove_entry", "remove")]
        from facts import PredFlow

        def csw(subj, variant):
            if sym_is_call(subj, "from_key_hashed_nocheck", "from_hash", "from_key"):
                return {"Occupied": "P", "Vacant": "N"}.get(variant)
            return None

        pf = PredFlow(f, csw)  # P = "an entry for the key was found in the shard"
        agrees, _d = pf.returned_bool_agrees()
        ok = len(rem) == 1 and pf.at(rem[0].bb) == "P" and agrees
        chk.ob("C06.d", f"{f.path} [truthful result]", ok, "returns true exactly on the Occupied edge, after remove_entry" if ok else "delete does not return `true` exactly when an entry was found and removed", f.loc())
    # retain passes the predicate through
    for k, f in fam["retain"].items():
        rc = [c for c in nonforeign_calls(f) if c.is_("HashMap<K, V, S, A>::retain", "retain") and "hashbrown" in (c.resolved or "")]
        ok = len(rc) == 1
        if ok:
            clos = strip_sym(arg_syms(rc[0])[1])
            cf = u.fn(clos[5]) if clos[0] == "agg" and clos[1] == "closure" else None
            ok = False
            if cf is not None:
                r = strip_sym(Sym(cf).local(0))
                # the closure's verdict is the caller's predicate applied to (key, value), nothing else
                ok = sym_is_call(r, "FnMut::call_mut", "Fn::call", "FnOnce::call_once") and "('arg', 1, 'f')" in repr(Sym(cf).local(0)) or (sym_is_call(r, "FnMut::call_mut", "Fn::call", "FnOnce::call_once") and rc[0].fn is f)
            elif is_param(sym_through(clos), 1):
                ok = True  # the caller's predicate itself is handed to retain
        # ... and it is asked once per entry: one call site of the caller's predicate in the whole function (a pre-scan that
        # also calls it shows a stateful predicate every entry twice)
        psites = [c for g_ in f.region() for c in g_.body.calls() if c.is_("FnMut::call_mut", "Fn::call", "FnOnce::call_once") and (("('arg', 1" in repr(Sym(g_).operand(c.args[0]))) if g_ is f else ("capture" in repr(Sym(g_).operand(c.args[0])) and "('arg', 1" in repr(Sym(g_).operand(c.args[0]))))]
        if ok and len(psites) > 1:
            ok = False
            chk.ob("C06.d", f"{f.path} [predicate asked once per entry]", False, f"the caller's predicate is called from {len(psites)} places: entries are shown to a stateful predicate more than once, so what is removed is not what it rejected when asked once", psites[1].loc(), nontrivial=False)
        chk.ob("C06.d", f"{f.path} [predicate un-negated]", ok, "retain keeps exactly the entries the caller's predicate accepts" if ok else "retain does not pass the caller's predicate through unchanged", f.loc())
    # handles = visit + clone
    for k, f in fam["handles"].items():
        vc = [c for c in f.body.calls() if c.is_(f"visit_{k}s")]
        ok = len(vc) == 1 and is_param(arg_syms(vc[0])[0], 0)
        if ok:
            clos = strip_sym(arg_syms(vc[0])[1])
            cf = u.fn(clos[5]) if clos[0] == "agg" and clos[1] == "closure" else None
            ok = False
            if cf is not None:
                insc = [c for c in cf.body.calls() if c.is_("HashMap<K, V, S>::insert", "insert")]
                if len(insc) == 1:
                    a = [strip_sym(x) for x in [Sym(cf).operand(o) for o in insc[0].args]]
                    ok = sym_is_call(a[1], "Clone::clone") and is_param(sym_through(a[1][2][0]), 1) and sym_is_call(a[2], "Clone::clone") and is_param(sym_through(a[2][2][0]), 2)
        if not vc:
            # spelled out: for every subshard of this kind's table, under its read lock, insert (k.clone(), v.clone()) for
            # every entry — two nested "once per element" iterations
            from props.common import iteration_context

            insc = [c for c in nonforeign_calls(f) if c.is_("HashMap<K, V, S>::insert", "insert") and "std::collections" in (c.resolved or "") or (c.is_("insert") and "hashbrown" in (c.resolved or "") and c.fn is not None and False)]
            insc = insc or [c for c in nonforeign_calls(f) if callee_method_name(c) == "insert" and ("hash::map::HashMap" in (c.resolved or "") or "hashbrown::map::HashMap" in (c.resolved or ""))]
            if len(insc) == 1:
                a = [strip_sym(x) for x in arg_syms(insc[0])]
                clones = len(a) == 3 and sym_is_call(a[1], "Clone::clone") and sym_is_call(a[2], "Clone::clone")
                src1, why1 = iteration_context(insc[0])
                locks = [c for c in nonforeign_calls(f) if c.is_("RwLock<T>::read")]
                inner_ok = src1 is not None and any(sym_is_call(x, "RwLock<T>::read") for x in sym_walk(src1) if isinstance(x, tuple))
                outer_ok = False
                if len(locks) == 1:
                    src2, why2 = iteration_context(locks[0])
                    fp = field_path(src2) if src2 is not None else None
                    outer_ok = bool(fp) and fp[0] == 0 and fp[1] == [f"{k}s"]
                ok = clones and inner_ok and outer_ok
        chk.ob("C06.d", f"{f.path} [visit + clone]", ok, f"collects (k.clone(), v.clone()) for every entry visited by visit_{k}s" if ok else "handle listing is not visit + clone of every entry", f.loc())
    # visit iterates every shard under a read lock
    for k, f in fam["visit"].items():
        its = [c for c in f.body.calls() if c.is_("Iterator::next")]
        src = [c for c in f.body.calls() if c.is_("<impl [T]>::iter", "IntoIterator::into_iter")]
        okf = any(f"'{k}s'" in repr(arg_syms(c)[0]) for c in src)
        locks = lock_sites(f)
        ok = okf and len(locks) == 1 and locks[0][1] == "read" and in_cycle(f.body, locks[0][0].bb)
        chk.ob("C06.d", f"{f.path} [every shard]", ok, f"iterates all of self.{k}s, each under its read lock" if ok else f"visit does not iterate every shard of self.{k}s under a read lock", f.loc())


def run_config(ctx):
    run(ctx)
