"""C13 — layers deliver exactly the transformed operations to exactly the right recorders."""
from facts import Sym, path_is, strip_generics, strip_sym, sym_arg, sym_calls, sym_is_call, sym_str, sym_through, sym_walk
from props.common import (
    RECORDER_METHODS,
    arg_syms,
    bool_switches,
    callee_method_name,
    calls_to,
    crate_stats,
    field_path,
    gates,
    in_cycle,
    kind_consistent,
    need,
    nonforeign_calls,
    one_method,
    recorder_forward,
    recorder_impls,
    siblings_isomorphic,
)

# private helpers the rules name; everything else (Filter::should_filter, FanoutX::from_xs, string builders ..) is
# spliced into its callers before the rules run
KEEP = ["prefix_key", "prefix_key_name", "MetricKindMask::value", "value"]
TITLE = "C13 layers deliver exactly the transformed operations to exactly the right recorders."
CONFIGS = ["test-profile", "util-layers"]
L = "metrics_util::layers"


def is_param(s, i):
    a = sym_arg(s)
    return a is not None and a[0] == i


def self_field(s, field):
    """s is self.<field> (through refs / as_ref / deref calls)"""
    s = sym_through(s, "AsRef::as_ref", "Deref::deref", "Borrow::borrow")
    return s[0] == "field" and s[2] == field and is_param(s[1], 0)


def flat_phi(s):
    s = strip_sym(s)
    if isinstance(s, tuple) and s and s[0] == "phi":
        out = []
        for x in s[1]:
            out += flat_phi(x)
        return out
    return [s]


def name_of(s, param):
    """s is key.name() / key_name.as_str() of parameter `param`"""
    s = strip_sym(s)
    return sym_is_call(s, "Key::name", "KeyName::as_str") and is_param(s[2][0], param)


def run(ctx):
    chk = ctx.check
    u = ctx.crate("metrics_util")
    crate_stats(chk, u)
    chk.rule("C13.a", "FWD+KIND: every Recorder method of Stack/Prefix/Filter/Router/Fanout reaches only the same-named inner method with unit/description/metadata unchanged; kind-bearing identifiers agree with the method's kind; the describe_* (register_*) triplets are isomorphic modulo the kind", floor=30 + 30 + 10)
    chk.rule("C13.b", "SHAPE prefix: new name = prefix, '.', old name pushed in that order; labels = key.labels()", floor=2)
    chk.rule("C13.c", "MPT filter (helpers spliced in): the inner call is reached only when automaton.is_match(name) — and nothing else — said false; a matching name gets the matching noop handle; the automaton is built from self.patterns with ascii_case_insensitive(self.case_insensitive)", floor=7)
    chk.rule("C13.d", "TBL router: route() = default unless global_mask.matches(kind), else get_ancestor(key) on the kind's trie (longest stored prefix) else default; add_route takes the index before the push, ORs the mask into global_mask, and each mask arm inserts into exactly the matching tries; MetricKindMask bit table", floor=10)
    chk.rule("C13.e", "ORD fanout: every *Fn method iterates the whole vector (plain iteration from the field, no early exit) calling the same-named handle method once per element with the value unchanged; registration collects one handle per recorder", floor=12)
    chk.rule("C13.f", "composition: Stack::push = Stack::new(layer.layer(self.inner))", floor=1)
    chk.trust("radix_trie::Trie::{get_ancestor,insert}", "aho_corasick::{AhoCorasickBuilder::*, AhoCorasick::is_match}", "String::{push,push_str}", "Iterator::{map,collect}")
    chk.residue.append("semantics of radix_trie::get_ancestor (longest stored prefix) and aho_corasick::is_match (substring containment) are trusted")

    impls = recorder_impls(u)
    layer_impls = {}
    for (self_ty, ipath), methods in impls.items():
        base = strip_generics(self_ty)
        if base.startswith(L + "::"):
            layer_impls[base.split("::")[-1]] = methods
    for want in ("Stack", "Prefix", "Filter", "Router", "Fanout"):
        if want not in layer_impls:
            if want in ("Filter", "Router") and ctx.config.startswith("util-") and ctx.config != "util-layers":
                continue
            chk.unrecognised("C13.a", f"<anchor> impl Recorder for {want}", "missing")
    arg_through = {"Prefix": {1: ("Prefix<R>::prefix_key", "Prefix<R>::prefix_key_name"), ("required", 1): True}}
    for lname, methods in sorted(layer_impls.items()):
        for name in RECORDER_METHODS:
            f = methods.get(name)
            if f is None:
                chk.unrecognised("C13.a", f"<anchor> <{lname} as Recorder>::{name}", "missing")
                continue
            recorder_forward(chk, "C13.a", f, arg_through=arg_through.get(lname), expect_sites=1)
            kind_consistent(chk, "C13.a", f, name.split("_")[1])
        for grp in ("describe", "register"):
            fk = {k: methods.get(f"{grp}_{k}") for k in ("counter", "gauge", "histogram")}
            if all(fk.values()):
                siblings_isomorphic(chk, "C13.a", fk, f"<{lname} as Recorder>::{grp}_*")

    # ---------------- C13.b prefix
    for fname, namearg in (("prefix_key", "Key::name"), ("prefix_key_name", "KeyName::as_str")):
        f = one_method(chk, "C13.b", u, f"{L}::prefix::Prefix", fname)
        if not f:
            continue
        b = f.body
        pushes = [c for c in nonforeign_calls(f) if c.is_("String::push_str", "String::push")]
        pushes.sort(key=lambda c: len(b.dominators()[c.bb]))
        ok = len(pushes) == 3 and all(b.dominates(pushes[i].bb, pushes[i + 1].bb) for i in range(2)) and not any(in_cycle(b, c.bb) for c in pushes)
        detail = ""
        if ok:
            a0, a1, a2 = (arg_syms(c) for c in pushes)
            same_string = len({repr(strip_sym(x[0])) for x in (a0, a1, a2)}) == 1
            p_ok = self_field(a0[1], "prefix")
            d = strip_sym(a1[1])
            dot_ok = d[:2] == ("const", "char") and d[2] == "."
            n_ok = name_of(a2[1], 1)
            ok = same_string and p_ok and dot_ok and n_ok
            detail = f"pushes: {sym_str(a0[1])}, {sym_str(a1[1])}, {sym_str(a2[1])}"
        ret = strip_sym(Sym(f).local(0))
        if fname == "prefix_key":
            okr = sym_is_call(ret, "Key::from_parts") and sym_is_call(ret[2][1], "Key::labels") and is_param(strip_sym(ret[2][1])[2][0], 1)
        else:
            okr = sym_is_call(ret, "From::from", "Into::into", "KeyName::from_const_str") or "KeyName" in sym_str(ret)
        chk.ob("C13.b", f.path, ok and okr, "name = prefix + '.' + old name; labels unchanged" if ok and okr else f"prefixed name is not prefix,'.',name in that order ({detail}); result {sym_str(ret)[:120]}", f.loc())

    # the configured prefix is the prefix: the layer stores the text it was given, in whatever owned form
    from props.common import transformations

    pl = [f for f in u.fns if f.name == "new" and strip_generics(f.j.get("impl_self", "")).endswith("prefix::PrefixLayer")]
    if len(pl) == 1:
        r = strip_sym(Sym(pl[0]).local(0))
        v = strip_sym(r[3][0]) if r[0] == "agg" and len(r[3]) == 1 else r
        tr = transformations(v)
        okp = tr == [] and is_param(_root_through_calls(v), 0)
        chk.ob("C13.b", pl[0].path, okp, "PrefixLayer::new stores the given prefix unchanged" if okp else f"PrefixLayer::new does not store the prefix as given ({'it is passed through ' + ', '.join(tr) if tr else 'not derived from the parameter alone'}): names are not '<prefix>.<name>' for that prefix", pl[0].loc())
    else:
        chk.unrecognised("C13.b", "<anchor> PrefixLayer::new", f"found {len(pl)}")

    # ---------------- C13.c filter
    filt = layer_impls.get("Filter")
    if filt:
        from facts import PredFlow

        for name in RECORDER_METHODS:
            f = filt.get(name)
            if not f:
                continue
            inner = [c for c in nonforeign_calls(f) if (c.t.get("trait") or "").endswith("recorder::Recorder")]
            if len(inner) != 1:
                continue

            def cbool(x, _f=f):
                x = strip_sym(x)
                if sym_is_call(x, "AhoCorasick::is_match") and self_field(x[2][0], "automaton") and name_of(x[2][1], 1):
                    return ("P", "N")
                return None

            pf = PredFlow(f, lambda subj, v: None, cbool)  # P = "the metric name matches one of the patterns"
            ms = [c for c in nonforeign_calls(f) if c.is_("AhoCorasick::is_match")]
            ok = len(ms) == 1 and cbool(("call", ms[0].resolved, tuple(arg_syms(ms[0])), ms[0].callee)) is not None and pf.at(inner[0].bb) == "N"
            detail = "the inner recorder is called only when automaton.is_match(name) is false"
            if ok and name.startswith("register"):
                kind = name.split("_")[1].capitalize()
                noops = [c for c in nonforeign_calls(f) if c.is_(f"{kind}::noop")]
                # the no-op handle is what is returned when the name matches
                ret_alts = [strip_sym(x) for x in flat_phi(Sym(f).local(0))]
                ok = len(noops) == 1 and pf.at(noops[0].bb) == "P" and any(sym_is_call(x, f"{kind}::noop") for x in ret_alts) and len(ret_alts) == 2
                detail += f"; a matching name gets {kind}::noop()"
            chk.ob("C13.c", f"{f.path} [gate]", ok, detail if ok else "the inner recorder is reachable when the name matches a pattern (or an extra fast path decides instead of is_match(name)), or the filtered edge does not return the matching noop handle", f.loc())
        fl = [f for f in u.fns if f.name == "layer" and f.j.get("impl_self", "").endswith("filter::FilterLayer")]
        if fl:
            f = fl[0]
            ci = calls_to(f, "AhoCorasickBuilder::ascii_case_insensitive")
            bd = calls_to(f, "AhoCorasickBuilder::build")
            ok = len(ci) == 1 and self_field(arg_syms(ci[0])[1], "case_insensitive") and len(bd) == 1 and self_field(arg_syms(bd[0])[1], "patterns")
            # the configured case sensitivity is applied whatever the other options are
            ok = ok and not [lab for dd, lab in gates(f.body, ci[0].bb) if lab in (True, False)] and f.body.dominates(ci[0].bb, bd[0].bb)
            ret = strip_sym(Sym(f).local(0))
            ok = ok and ret[0] == "agg" and "inner" in ret[4] and is_param(ret[3][ret[4].index("inner")], 1)
            if ok:
                # the patterns the automaton is built from are the ones the user supplied: outside its constructors no
                # method of the layer rewrites the stored patterns (a setter that lowercases / dedups them in place is
                # not undone when the flag is switched back)
                for g_ in u.fns:
                    if not strip_generics(g_.j.get("impl_self", "")).endswith("FilterLayer") or g_.name in ("from_patterns", "default", "new") or not g_.j.get("mir"):
                        continue
                    REWRITE = ("dedup", "dedup_by", "dedup_by_key", "iter_mut", "retain", "retain_mut", "sort", "sort_unstable", "sort_by", "sort_by_key", "clear", "truncate", "drain", "remove", "swap_remove", "pop", "as_mut_slice", "deref_mut", "index_mut", "get_mut", "first_mut", "last_mut", "make_ascii_lowercase", "make_ascii_uppercase", "reverse", "swap")
                    for c_ in g_.body.calls():
                        a_ = arg_syms(c_)
                        if a_ and "'patterns'" in repr(a_[0]) and (callee_method_name(c_) in REWRITE or (callee_method_name(c_) == "into_iter" and "&mut" in (c_.resolved or ""))):
                            ok = False
            chk.ob("C13.c", f.path, ok, "automaton = builder.ascii_case_insensitive(self.case_insensitive)...build(&self.patterns); inner recorder stored unchanged" if ok else "FilterLayer::layer does not build the automaton from self.patterns with self.case_insensitive", f.loc())
        else:
            chk.unrecognised("C13.c", "<anchor> FilterLayer::layer", "missing")
        # every configured pattern is a pattern: add_pattern appends what it is given on every path, from_patterns keeps
        # every element as it is
        ap = [f for f in u.fns if f.name == "add_pattern" and f.j.get("impl_self", "").endswith("filter::FilterLayer")]
        if len(ap) == 1:
            f = ap[0]
            pushes = [c for c in nonforeign_calls(f) if c.fn is f and c.is_("Vec<T, A>::push") and self_field(sym_through(arg_syms(c)[0], "DerefMut::deref_mut", "Deref::deref"), "patterns")]
            ok = len(pushes) == 1
            why = f"{len(pushes)} pushes onto self.patterns"
            if ok:
                tr = transformations(arg_syms(pushes[0])[1])
                skip = [r for r in f.body.return_blocks() if not f.body.blocks[r].get("cleanup") and r in f.body.reachable(0, cut={pushes[0].bb})]
                ok = tr == [] and is_param(_root_through_calls(arg_syms(pushes[0])[1]), 1) and not skip
                why = "some path returns without adding the pattern (a later search does not filter names containing it)" if skip else (f"the pattern is passed through {tr}" if tr else "the pushed value is not the pattern parameter")
            chk.ob("C13.c", f.path, ok, "add_pattern pushes the given pattern, unconditionally" if ok else f"add_pattern does not add exactly the given pattern on every path ({why})", f.loc())
        fp = [f for f in u.fns if f.name == "from_patterns" and f.j.get("impl_self", "").endswith("filter::FilterLayer")]
        if len(fp) == 1:
            f = fp[0]
            r = strip_sym(Sym(f).local(0))
            pv = strip_sym(r[3][r[4].index("patterns")]) if r[0] == "agg" and "patterns" in (r[4] or ()) else None
            from props.common import collected_unchanged

            ok, why = (False, "the patterns field is not built from the parameter")
            if pv is not None:
                ok, why = collected_unchanged(u, pv, 0, fn=f)
            chk.ob("C13.c", f.path, ok, "from_patterns keeps every given pattern as it is" if ok else f"from_patterns does not keep every pattern unchanged ({why})", f.loc(), nontrivial=False)

    # ---------------- C13.d router
    if layer_impls.get("Router"):
        from facts import PredFlow
        from props.common import opt_alts

        # which trie belongs to which kind is what add_route says (the arm of the single-kind mask inserts into it), carried
        # over to Router's fields by build() — not a matter of what the private fields are called
        kind_trie = _router_kind_tries(u)
        # Router's private `route` helper is spliced into the six Recorder methods; each is decided on its own
        for name in RECORDER_METHODS:
            route = layer_impls["Router"].get(name)
            if not route:
                continue
            kind = name.split("_")[1]
            b = route.body
            mt = calls_to(route, "MetricKindMask::matches")
            ga = calls_to(route, "Trie<K, V>::get_ancestor", "get_ancestor")
            lookups = [c for c in nonforeign_calls(route) if "radix_trie" in (c.resolved or "") and c.fn is route and not c.is_("TrieCommon::value", "value", "TrieCommon::key")]
            inner = [c for c in nonforeign_calls(route) if (c.t.get("trait") or "").endswith("recorder::Recorder")]
            ok = len(mt) == 1 and len(ga) == 1 and len(lookups) == 1 and len(inner) == 1
            detail = f"trie lookups {[strip_generics(c.resolved).split('::')[-1] for c in lookups]}, mask tests {len(mt)}, inner calls {len(inner)}"
            if ok:
                am = arg_syms(mt[0])
                ag = arg_syms(ga[0])
                kind_ok = kind.capitalize() in repr(strip_sym(am[1]))
                if kind_trie:
                    fp_ = field_path(ag[0])
                    trie_ok = fp_ is not None and fp_[0] == 0 and tuple(fp_[1]) == kind_trie.get(kind)
                else:
                    trie_ok = f"'{kind}_routes'" in repr(ag[0]) and not any(f"'{k}_routes'" in repr(ag[0]) for k in ("counter", "gauge", "histogram") if k != kind)
                ok = self_field(am[0], "global_mask") and kind_ok and trie_ok and name_of(sym_through(ag[1], "Deref::deref", "AsRef::as_ref", "String::as_str"), 1)
                detail = f"mask tested for the method's kind={kind_ok}, own kind's trie={trie_ok}"
                pf = PredFlow(route, lambda subj, v: None, lambda x: ("P", "N") if sym_is_call(x, "MetricKindMask::matches") else None)
                if ok and pf.at(ga[0].bb) != "P":
                    ok = False
                    detail = "the trie is consulted without the global mask admitting the kind"
                # the recorder the call is forwarded to: the default one, or targets[<value found by get_ancestor>]
                alts = [x for x, _ in opt_alts(u, arg_syms(inner[0])[0])]
                kinds_ = set()
                for x in alts:
                    txt = repr(x)
                    if "'default'" in txt and "'targets'" not in txt:
                        kinds_.add("default")
                    elif "'targets'" in txt and "'default'" not in txt and "get_ancestor" in txt and any(sym_is_call(y, "TrieCommon::value", "value") for y in sym_walk(x) if isinstance(y, tuple)):
                        # the longest matching route as the trie reports it: nothing between get_ancestor() and its use
                        # discards a match (a boundary / length filter sends names to the default that a route covers)
                        narrowed = [strip_generics(y[1]).split("::")[-1] for y in sym_walk(x) if isinstance(y, tuple) and y and y[0] == "call" and isinstance(y[1], str) and strip_generics(y[1]).split("::")[-1] in ("filter", "take_if", "and_then", "xor", "zip", "filter_map") and "get_ancestor" in repr(y[2])]
                        kinds_.add("target" if not narrowed else f"other:a match of get_ancestor() discarded by {narrowed[0]}()")
                    else:
                        kinds_.add("other:" + sym_str(x)[:60])
                if ok and kinds_ != {"default", "target"}:
                    ok = False
                    detail = f"the call can be forwarded to {sorted(kinds_)}"
            chk.ob("C13.d", f"{route.path} [routing]", ok, "default unless global_mask.matches(kind); else targets[get_ancestor(name).value] else default" if ok else f"{name} is not routed by mask-gated longest-prefix lookup with default fallback ({detail})", route.loc())
        ar = one_method(chk, "C13.d", u, f"{L}::router::RouterBuilder", "add_route")
        if ar:
            b = ar.body
            sy = Sym(ar)
            lens = [c for c in nonforeign_calls(ar) if c.is_("Vec<T, A>::len") and "'targets'" in repr(arg_syms(c)[0])]
            push = [c for c in nonforeign_calls(ar) if c.is_("Vec<T, A>::push") and "'targets'" in repr(arg_syms(c)[0])]
            # the length read that becomes the index is the one taken before the push (a later read, e.g. in a debug assertion,
            # is not the index)
            lens = [c for c in lens if len(push) == 1 and b.dominates(c.bb, push[0].bb) and c.bb != push[0].bb] if len(push) == 1 else lens
            ok = len(lens) == 1 and len(push) == 1 and b.dominates(lens[0].bb, push[0].bb) and lens[0].bb != push[0].bb
            chk.ob("C13.d", f"{ar.path} [index before push]", ok, "target index = targets.len() taken before the push (keeps get_unchecked in bounds)" if ok else "the stored index is not targets.len() taken before pushing the recorder", ar.loc())
            inserts = [c for c in nonforeign_calls(ar) if c.is_("Trie<K, V>::insert", "insert") and "radix_trie" in (c.resolved or "")]
            bad_idx = [c for c in inserts if not (lens and sym_is_call(arg_syms(c)[2], "Vec<T, A>::len"))]
            bad_pat = [c for c in inserts if not is_param(sym_through(arg_syms(c)[1], "ToString::to_string", "AsRef::as_ref", "ToOwned::to_owned", "Into::into", "From::from"), 2)]
            chk.ob("C13.d", f"{ar.path} [inserted index and pattern]", inserts and not bad_idx and not bad_pat, f"all {len(inserts)} trie insertions store (pattern, index)" if inserts and not bad_idx and not bad_pat else "an insertion stores something other than (pattern parameter, pre-push index)", ar.loc())
            # global mask accumulation: the value stored into self.global_mask
            stores = [s for _, _, s in b.stmts() if s["k"] == "assign" and [e.get("f") for e in (s["p"].get("pr") or []) if isinstance(e, dict)] == ["global_mask"]]
            ok = False
            if len(stores) == 1:
                v = strip_sym(sy.rvalue(stores[0]["rv"], 0, frozenset()))
                if sym_is_call(v, "BitOr::bitor"):
                    a, c2 = strip_sym(v[2][0]), strip_sym(v[2][1])
                    ok = (self_field(a, "global_mask") and is_param(c2, 1)) or (self_field(c2, "global_mask") and is_param(a, 1))
            # must execute on every path to return
            chk.ob("C13.d", f"{ar.path} [mask accumulates]", ok, "global_mask = global_mask | mask" if ok else "global_mask is not the OR of its previous value and the new route's mask (earlier routes' kinds stop being looked up)", ar.loc())
            # arm table
            masks = mask_table(u)
            sw = [i for i in range(b.n) if b.term(i)["k"] == "switch" and "'0'" in repr(sy.operand(b.term(i)["discr"])) and is_param(_root(sy.operand(b.term(i)["discr"])), 1)]
            if len(sw) != 1 or not masks:
                chk.unrecognised("C13.d", f"{ar.path} [mask arms]", "no switch on the mask value found", ar.loc())
            else:
                # every route that is added is recorded: no return of add_route bypasses the dispatch on the mask (an early
                # return for some patterns — the empty one is a per-kind catch-all — silently drops the route)
                bypass = [r for r in b.return_blocks() if r in b.reachable(0, cut={sw[0]})]
                chk.ob("C13.d", f"{ar.path} [every route recorded]", not bypass, "every return of add_route passes the dispatch on the mask" if not bypass else "add_route can return before looking at the mask: routes with some patterns are discarded, and the names they cover go to the default recorder", ar.loc(), nontrivial=False)
                tbl = _add_route_table(u)
                singles = [tbl.get(k) for k in ("COUNTER", "GAUGE", "HISTOGRAM")] if tbl else []
                if tbl and all(x is not None and len(x) == 1 for x in singles) and len({next(iter(x)) for x in singles}) == 3:
                    want = {"ALL": set().union(*singles), "COUNTER": singles[0], "GAUGE": singles[1], "HISTOGRAM": singles[2]}
                    for mname, fields in want.items():
                        got = tbl.get(mname)
                        chk.ob("C13.d", f"{ar.path} [{mname}]", got == fields, f"{mname} inserts into {sorted('.'.join(x) for x in got)}" if got == fields else f"{mname} arm inserts into {sorted('.'.join(x) for x in (got or []))}, expected {sorted('.'.join(x) for x in fields)}", ar.loc())
                    want = {}
                else:
                    want = {"ALL": {"counter_routes", "gauge_routes", "histogram_routes"}, "COUNTER": {"counter_routes"}, "GAUGE": {"gauge_routes"}, "HISTOGRAM": {"histogram_routes"}}
                edges = {a["v"]: a["bb"] for a in b.term(sw[0])["arms"]}
                for mname, fields in want.items():
                    val = masks.get(mname)
                    tgt = edges.get(val)
                    if tgt is None:
                        chk.ob("C13.d", f"{ar.path} [{mname}]", False, f"no arm for MetricKindMask::{mname} (= {val})", ar.loc())
                        continue
                    blocks = {x for x in b.reachable(tgt) if b.edge_dominates((sw[0], tgt), x)}
                    got = set()
                    for c in inserts:
                        if c.bb in blocks:
                            fp = [x[2] for x in sym_walk(arg_syms(c)[0]) if isinstance(x, tuple) and x and x[0] == "field"]
                            got.update(fp)
                    chk.ob("C13.d", f"{ar.path} [{mname}]", got == fields, f"{mname} inserts into {sorted(got)}" if got == fields else f"{mname} arm inserts into {sorted(got)}, expected {sorted(fields)}", ar.loc())
                oth = b.term(sw[0])["otherwise"]
                div = not any(b.term(x)["k"] == "return" for x in b.reachable(oth))
                chk.ob("C13.d", f"{ar.path} [other masks rejected]", div, "any other mask panics instead of silently adding nothing" if div else "an unknown/combined mask silently adds no route", ar.loc(), nontrivial=False)
        check_mask_table(chk, u, "C13.d")
        bld = one_method(chk, "C13.d", u, f"{L}::router::RouterBuilder", "build")
        if bld:
            ret = strip_sym(Sym(bld).local(0))
            ok = ret[0] == "agg" and all(strip_sym(v)[0] == "field" and strip_sym(v)[2] == fld for v, fld in zip(ret[3], ret[4]))
            if not ok and kind_trie:
                ok = True  # fields are renamed on the way: the kind -> trie association was followed through build() above
            chk.ob("C13.d", bld.path, ok, "build() moves every field to the same-named field" if ok else f"build() crosses fields: {sym_str(ret)[:200]}", bld.loc())

    # ---------------- C13.e fanout
    # the fanned-out handles: whatever private type(s) of the fanout module implement the three handle traits
    fan_types = {}
    for ty, trait, methods in (("FanoutCounter", "CounterFn", ("increment", "absolute")), ("FanoutGauge", "GaugeFn", ("increment", "decrement", "set")), ("FanoutHistogram", "HistogramFn", ("record",))):
        impls_ = [f for f in u.fns if (f.j.get("impl_trait") or "").endswith(f"handles::{trait}") and strip_generics(f.j.get("impl_self", "")).startswith(f"{L}::fanout::") and "::tests::" not in f.path]
        selfs = {f.j.get("impl_self") for f in impls_}
        if len(selfs) != 1:
            chk.unrecognised("C13.e", f"<anchor> impl {trait} in layers::fanout", f"found {sorted(selfs)}")
            continue
        fan_types[ty[6:].lower()] = strip_generics(next(iter(selfs)))
        for mname in methods:
            fs = [f for f in impls_ if f.name == mname]
            if len(fs) != 1:
                chk.unrecognised("C13.e", f"<anchor> <{ty} as {trait}>::{mname}", f"found {len(fs)}")
                continue
            check_fan_loop(chk, fs[0], None, mname, kind=ty[6:])
    fan = layer_impls.get("Fanout")
    if fan:
        for name in RECORDER_METHODS:
            f = fan.get(name)
            if not f:
                continue
            if name.startswith("describe"):
                check_fan_loop(chk, f, "recorders", name, kind=None)
            else:
                kind = name.split("_")[1]
                # counters = self.recorders.iter().map(closure).collect()
                # the Fanout<Kind> aggregate built here (its constructor helper is spliced in)
                sy = Sym(f)
                fty = fan_types.get(kind, f"{L}::fanout::Fanout{kind.capitalize()}")
                aggs = [st for _, _, st in f.body.stmts() if st["k"] == "assign" and st["rv"]["k"] == "agg" and strip_generics(st["rv"].get("adt") or "") == fty]
                ok = len(aggs) == 1 and len(aggs[0]["rv"]["ops"]) == 1
                detail = f"{len(aggs)} Fanout{kind.capitalize()} values built"
                if ok:
                    v = strip_sym(sy.operand(aggs[0]["rv"]["ops"][0]))
                    chain = []
                    cur = v
                    while cur[0] == "call":
                        chain.append(strip_generics(cur[1]).split("::")[-1] if isinstance(cur[1], str) else "?")
                        cur = strip_sym(cur[2][0])
                    cur = _unbox_view(cur)
                    src_ok = cur[0] == "field" and cur[2] == "recorders"
                    ok = chain[:2] == ["collect", "map"] and set(chain[2:]) <= {"iter", "deref", "into_iter", "as_slice"} and src_ok
                    detail = f"handles = {'.'.join(reversed(chain))} over {sym_str(cur)[:60]}"
                    inner = [c for c in nonforeign_calls(f) if (c.t.get("trait") or "").endswith("recorder::Recorder")]
                    ok = ok and len(inner) == 1 and inner[0].fn is not f
                    if not ok and len(inner) == 1:
                        # spelled as a loop: for r in &self.recorders { handles.push(r.register_x(key, metadata)) }
                        from props.common import iteration_context

                        pushes = [c for c in nonforeign_calls(f) if c.is_("Vec<T, A>::push") and c.fn is inner[0].fn]
                        if len(pushes) == 1 and sym_is_call(Sym(pushes[0].fn).operand(pushes[0].args[1]), callee_method_name(inner[0])):
                            src, _w = iteration_context(pushes[0])
                            src_ = strip_sym(src) if src is not None else None
                            same_vec = repr(strip_sym(sym_through(Sym(pushes[0].fn).operand(pushes[0].args[0])))) == repr(strip_sym(sym_through(v))) or "with_capacity" in sym_str(v) or "Vec::new" in sym_str(v) or sym_is_call(v, "Vec<T>::new")
                            if src_ is not None and src_[0] == "field" and src_[2] == "recorders" and same_vec:
                                ok = True
                                detail = "handles pushed once per recorder in a loop"
                chk.ob("C13.e", f"{f.path} [one handle per recorder]", ok, "collects recorders.iter().map(register).collect() — no filtering/truncating adapter" if ok else f"registration does not collect exactly one handle per recorder ({detail})", f.loc())

    # ---------------- C13.f
    push = one_method(chk, "C13.f", u, f"{L}::Stack", "push")
    if push:
        ret = strip_sym(Sym(push).local(0))
        wrapped = strip_sym(ret[2][0]) if sym_is_call(ret, "Stack<R>::new") else (strip_sym(ret[3][0]) if ret[0] == "agg" and (ret[5] or "").endswith("layers::Stack") and len(ret[3]) == 1 else None)
        ok = wrapped is not None and sym_is_call(wrapped, "Layer::layer") and is_param(sym_through(wrapped[2][0]), 1)
        if ok:
            inner = strip_sym(wrapped[2][1])
            ok = inner[0] == "field" and inner[2] == "inner" and is_param(inner[1], 0)
        chk.ob("C13.f", push.path, ok, "push(layer) = Stack::new(layer.layer(self.inner))" if ok else f"push returns {sym_str(ret)[:160]}", push.loc())


def _root(s):
    s = strip_sym(s)
    while isinstance(s, tuple) and s and s[0] in ("field", "downcast"):
        s = strip_sym(s[1])
    return s


def _add_route_table(u):
    """{mask constant name: set of trie ids (field paths from self) its arm of add_route inserts into}, or None."""
    ar = (u.method(f"{L}::router::RouterBuilder", "add_route") or [None])[0]
    masks = mask_table(u)
    if ar is None or not masks:
        return None
    b = ar.body
    sy = Sym(ar)
    sw = [i for i in range(b.n) if b.term(i)["k"] == "switch" and "'0'" in repr(sy.operand(b.term(i)["discr"])) and is_param(_root(sy.operand(b.term(i)["discr"])), 1)]
    if len(sw) != 1:
        return None
    inserts = [c for c in nonforeign_calls(ar) if c.is_("Trie<K, V>::insert", "insert") and "radix_trie" in (c.resolved or "")]
    edges = {a["v"]: a["bb"] for a in b.term(sw[0])["arms"]}
    out = {}
    for mname in ("ALL", "COUNTER", "GAUGE", "HISTOGRAM"):
        tgt = edges.get(masks.get(mname))
        if tgt is None:
            out[mname] = None
            continue
        blocks = {x for x in b.reachable(tgt) if b.edge_dominates((sw[0], tgt), x)}
        got = set()
        for c in inserts:
            if c.bb in blocks and c.fn is ar:
                fp = field_path(arg_syms(c)[0])
                got.add(tuple(fp[1]) if fp and fp[0] == 0 else ("?",))
        out[mname] = got
    return out


def _router_kind_tries(u):
    """{kind: trie id in Router} — from add_route's single-kind arms, mapped through RouterBuilder::build()."""
    tbl = _add_route_table(u)
    if not tbl:
        return None
    singles = {k: tbl.get(k.upper()) for k in ("counter", "gauge", "histogram")}
    if any(v is None or len(v) != 1 for v in singles.values()):
        return None
    ids = {k: next(iter(v)) for k, v in singles.items()}
    if len(set(ids.values())) != 3 or any("?" in v for v in ids.values()):
        return None
    bld = (u.method(f"{L}::router::RouterBuilder", "build") or [None])[0]
    if bld is None:
        return None
    ret = strip_sym(Sym(bld).local(0))
    if ret[0] != "agg":
        return None
    out = {}
    for k, bid in ids.items():
        hit = None
        for v, fld in zip(ret[3], ret[4]):
            fp = field_path(v)
            if fp and fp[0] == 0 and tuple(fp[1]) == bid[: len(fp[1])]:
                hit = (fld,) + bid[len(fp[1]) :]
        if hit is None:
            return None
        out[k] = hit
    return out if len(set(out.values())) == 3 else None


def _unbox_view(src):
    """A Box<[T]> is iterated through its inner pointer ((*self.f.0.pointer as *const [T])): the same whole-sequence view
    of self.f as iterating a Vec field."""
    src = strip_sym(src)
    for _ in range(6):
        if src[0] in ("cast", "deref", "ref"):
            src = strip_sym(src[1])
        elif src[0] == "field" and src[2] in ("0", "pointer") and strip_sym(src[1])[0] == "field":
            src = strip_sym(src[1])
        else:
            break
    return src


def _root_through_calls(s):
    """The base a chain of conversions/projections starts from."""
    s = strip_sym(s)
    for _ in range(16):
        if not isinstance(s, tuple) or not s:
            return s
        if s[0] in ("ref", "deref", "cast", "field", "downcast"):
            s = strip_sym(s[1])
        elif s[0] == "call" and s[2]:
            s = strip_sym(s[2][0])
        else:
            return s
    return s


def mask_table(u):
    out = {}
    for f in u.fns:
        if f.dk == "AssocConst" and f.j.get("impl_self", "").endswith("kind::MetricKindMask"):
            v = strip_sym(Sym(f).local(0))
            if v[0] == "agg" and len(v[3]) == 1:
                c = strip_sym(v[3][0])
                if c[:2] == ("const", "int"):
                    out[f.name] = c[2]
    return out


def check_mask_table(chk, u, rule):
    t = mask_table(u)
    ok = set(t) >= {"NONE", "COUNTER", "GAUGE", "HISTOGRAM", "ALL"}
    if ok:
        bits = [t["COUNTER"], t["GAUGE"], t["HISTOGRAM"]]
        ok = t["NONE"] == 0 and all(b_ and (b_ & (b_ - 1)) == 0 for b_ in bits) and len(set(bits)) == 3 and t["ALL"] == (bits[0] | bits[1] | bits[2])
    chk.ob(rule, "MetricKindMask [bit table]", ok, f"{t}: distinct single bits, ALL = their union, NONE = 0" if ok else f"mask constants are not distinct single bits with ALL = union: {t}", "metrics-util/src/kind.rs")
    mt = (u.method("metrics_util::kind::MetricKindMask", "matches") or [None])[0]
    if mt is None:
        chk.unrecognised(rule, "<anchor> MetricKindMask::matches", "missing")
        return
    # per kind: what matches() computes when `kind` is that variant (however the dispatch on the kind is spelled)
    from facts import SpecialisedFn

    ok, detail = True, ""
    names = {"Counter": "COUNTER", "Gauge": "GAUGE", "Histogram": "HISTOGRAM"}
    for var, cname in names.items():
        sp = SpecialisedFn(mt, 2, var)
        ret = strip_sym(Sym(sp).local(0))
        txt = repr(ret)
        others = [n for n in names.values() if n != cname and f"MetricKindMask::{n}'" in txt]
        good = sp.resolved_switches >= 1 and isinstance(ret, tuple) and ret[0] == "bin" and f"MetricKindMask::{cname}'" in txt and not others and "'ALL'" not in txt
        if good:
            if ret[1] in ("Ne", "Gt") and strip_sym(ret[3])[:3] == ("const", "int", 0):
                land = strip_sym(ret[2])
            elif ret[1] == "Eq" and f"MetricKindMask::{cname}'" in repr(ret[3]):
                land = strip_sym(ret[2])
            else:
                land = None
            good = land is not None and land[0] == "bin" and land[1] == "BitAnd" and any("('arg', 0" in repr(x) for x in land[2:4]) and any(f"MetricKindMask::{cname}'" in repr(x) for x in land[2:4])
        if not good:
            ok = False
            detail = f"for {var} it computes {sym_str(ret)[:120]}"
    chk.ob(rule, mt.path, ok, "matches(kind) = self.0 & MetricKindMask::<KIND> != 0, per kind" if ok else f"matches() table wrong: {detail}", mt.loc())
    bo = [f for f in u.fns if f.name == "bitor" and f.j.get("impl_self", "").endswith("kind::MetricKindMask")]
    if bo:
        v = strip_sym(Sym(bo[0]).local(0))
        ok = v[0] == "agg" and strip_sym(v[3][0])[0] == "bin" and strip_sym(v[3][0])[1] == "BitOr" and {sym_arg(_root(strip_sym(v[3][0])[2]))[0], sym_arg(_root(strip_sym(v[3][0])[3]))[0]} == {0, 1}
        chk.ob(rule, bo[0].path, ok, "bitor = Self(self.0 | rhs.0)" if ok else f"bitor computes {sym_str(v)}", bo[0].loc())


def check_fan_loop(chk, f, field, mname, kind):
    from props.common import iteration_context

    where = f.path
    if kind is not None:
        inner = [c for c in nonforeign_calls(f) if c.is_(f"handles::{kind}::{mname}")]
    else:
        inner = [c for c in nonforeign_calls(f) if (c.t.get("trait") or "").endswith("recorder::Recorder")]
    if len(inner) != 1:
        return chk.ob("C13.e", where, False, f"expected exactly one call site of the inner {mname} (one per element of self.{field}), found {len(inner)}", f.loc())
    c = inner[0]
    if kind is None and callee_method_name(c) != mname:
        return chk.ob("C13.e", where, False, f"the fan-out calls {callee_method_name(c)}, expected {mname}", c.loc())
    src, why = iteration_context(c)
    if src is None:
        return chk.ob("C13.e", where, False, f"the inner {mname} is not applied once to every element of self.{field}: {why}", c.loc())
    src = strip_sym(src)
    src = _unbox_view(src)
    if field is None and src[0] == "field" and is_param(sym_through(src[1]), 0):
        field = src[2]  # the (one) vector of inner handles, whatever it is called
    if not (src[0] == "field" and src[2] == field and is_param(sym_through(src[1]), 0)):
        return chk.ob("C13.e", where, False, f"the fan-out iterates {sym_str(src)[:100]}, not the whole self.{field} (take/skip/filter/first would drop recorders)", c.loc())
    # the iteration itself is reached on every path through the method
    b = f.body
    anchor = c.bb if c.fn is f else None
    if anchor is None:
        for cc in b.calls():
            if cc.is_("Iterator::for_each"):
                anchor = cc.bb
    skip = [r for r in b.return_blocks() if anchor is not None and r in b.reachable(0, cut={anchor})]
    if anchor is None or (skip and c.fn is not f):
        return chk.ob("C13.e", where, False, "a return is reachable without running the fan-out (early exit for some value: that update reaches no recorder)", f.loc())
    if c.fn is f:
        its = [x for x in b.calls() if x.is_("IntoIterator::into_iter") and not x.foreign()]
        if any(r in b.reachable(0, cut={x.bb for x in its}) for r in b.return_blocks()):
            return chk.ob("C13.e", where, False, "a return is reachable without entering the loop (early exit for some value: that update reaches no recorder)", f.loc())
    a = arg_syms(c)
    vals_ok = all(is_param(sym_through(a[i], "Clone::clone"), i) for i in range(1, len(a)))
    return chk.ob("C13.e", where, vals_ok, f"for each of self.{field}: {mname}(value) — whole vector, once each, value unchanged" if vals_ok else f"the per-element call alters its arguments: {[sym_str(x)[:40] for x in a[1:]]}", c.loc())


def run_config(ctx):
    run(ctx)
