"""C12 — idle metrics are dropped exactly when they were idle longer than the timeout."""
from facts import Sym, path_is, strip_generics, strip_sym, sym_arg, sym_calls, sym_is_call, sym_str, sym_through, sym_walk
from props.common import arg_syms, atomic_ops, bool_switches, callee_method_name, calls_to, crate_stats, gates, in_cycle, kind_consistent, need, nonforeign_calls, one_method, orderings_in, siblings_isomorphic, through_getters

KEEP = [  # private helpers the rules name (kept as functions); every other non-exported, non-trait function is spliced into its callers
    "AtomicBucketInstant::new", "Block::new", "CompositeKeyName::new", "Generational::new",
    "Inner::get_recent_metrics", "Inner::new", "MetricKindMask::value", "Recency::should_store",
]
TITLE = "C12 idle metrics are dropped exactly when idle longer than the timeout."
CONFIGS = ["test-profile", "util-recency"]
REC = "metrics_util::registry::recency::Recency"
GEN = "metrics_util::registry::recency::Generational"
KINDS = ("counter", "gauge", "histogram")


def is_param(s, i):
    a = sym_arg(s)
    return a is not None and a[0] == i


def _is_gen_field(u, s):
    """s denotes self.<the generation counter>: the one atomic field of Generational."""
    s = strip_sym(s)
    for _ in range(6):
        if isinstance(s, tuple) and s and s[0] in ("ref", "deref"):
            s = strip_sym(s[1])
        elif isinstance(s, tuple) and s and s[0] == "call" and sym_is_call(s, "Deref::deref", "AsRef::as_ref") and s[2]:
            s = strip_sym(s[2][0])
        else:
            break
    if not (isinstance(s, tuple) and s and s[0] == "field" and is_param(s[1], 0)):
        return False
    adt = u.adts.get(GEN) or {}
    atom = [f["name"] for v in adt.get("variants", []) for f in v.get("fields", []) if "Atomic" in f.get("ty", "")]
    return s[2] in (atom or ["gen"])


def const_int(s):
    s = strip_sym(s)
    return s[2] if isinstance(s, tuple) and s[:2] == ("const", "int") else None


def run(ctx):
    chk = ctx.check
    u = ctx.crate("metrics_util")
    p = ctx.crate("metrics_exporter_prometheus")
    crate_stats(chk, u, p)
    chk.rule("C12.a", "decision table of Recency::should_store: delete only when a timeout is set, the mask matches the kind, an entry exists with the SAME generation, (now - last_update) > timeout strictly, and delete_op succeeded; a changed generation updates both remembered fields and keeps; a first sighting inserts (gen, now) and keeps; the entry is removed exactly when the metric is deleted; false is returned only then", floor=7)
    chk.rule("C12.b", "ORD+FWD generation after update: with_increment runs the update before gen.fetch_add; every CounterFn/GaugeFn/HistogramFn method of Generational goes through with_increment and the same-named inner method; should_store_<kind> passes MetricKind::<kind> and delete_<kind>", floor=11)
    chk.rule("C12.c", "provenance per-(kind,key) state: the remembered (generation, time) slot is selected by everything that identifies the metric — the kind maps injectively onto the per-kind maps (or the map is keyed by kind)", floor=1)
    chk.rule("C12.d", "FWD exporter side: Prometheus skips a counter/gauge exactly on should_store == false; removes the aggregated distribution on the false edge of should_store_histogram under the same (name, labels) it was stored under (global labels included); idle_timeout(mask, None) forces MetricKindMask::NONE", floor=5)
    chk.trust("quanta::Clock::now", "Instant - Instant", "HashMap::{get_mut,insert,remove}")
    chk.residue.append("clock behaviour (monotonicity, resolution) is not decided")

    ss = one_method(chk, "C12.a", u, REC, "should_store")
    if ss:
        b = ss.body
        sy = Sym(ss)
        def is_delete_call(c):
            if c.is_("Fn::call", "FnOnce::call_once", "FnMut::call_mut") and sym_arg(sym_through(arg_syms(c)[0])) is not None:
                return True  # the deletion callback handed in by should_store_<kind>
            return c.is_("Registry<K, S>::delete_counter", "Registry<K, S>::delete_gauge", "Registry<K, S>::delete_histogram")

        def is_delete_sym(x):
            x = strip_sym(x)
            if not (isinstance(x, tuple) and x and x[0] == "call"):
                return False
            if isinstance(x[3], str) and x[3].endswith(("Fn::call", "FnOnce::call_once", "FnMut::call_mut")) and sym_arg(sym_through(x[2][0])) is not None:
                return True
            return any(isinstance(n, str) and path_is(n, f"Registry<K, S>::delete_{k}") for n in (x[1], x[3]) for k in KINDS)

        dels = [c for c in nonforeign_calls(ss) if c.fn is ss and is_delete_call(c)]
        if len(dels) not in (1, 3):
            chk.unrecognised("C12.a", f"{ss.path} [delete_op call]", f"expected one call of the deletion callback (or one delete_<kind> call per kind), found {len(dels)}", ss.loc())
        else:
          conds = {"timeout set": True, "mask matches kind": True, "entry exists": True, "same generation": True, "strictly older than timeout": True}
          for dc in dels:
            g = gates(b, dc.bb)
            got = {k: False for k in conds}
            for d, lab in g:
                d = strip_sym(through_getters(u, d))
                if lab == "Some" and d[0] == "field" and d[2] == "idle_timeout":
                    got["timeout set"] = True
                if lab is True and sym_is_call(d, "MetricKindMask::matches") and strip_sym(d[2][0])[0] == "field" and strip_sym(d[2][0])[2] == "mask" and is_param(d[2][1], 4):
                    got["mask matches kind"] = True
                if lab == "Some" and sym_is_call(d, "get_mut", "HashMap<K, V, S, A>::get", "get") and is_param(d[2][1], 1):
                    got["entry exists"] = True
                if sym_is_call(d, "PartialEq::eq", "PartialEq::ne"):
                    a0, a1 = strip_sym(d[2][0]), strip_sym(d[2][1])
                    pair = {repr(is_param(a0, 2)), repr(is_param(a1, 2))}
                    one_is_gen = is_param(a0, 2) or is_param(a1, 2)
                    other = a1 if is_param(a0, 2) else a0
                    remembered = "get_mut" in repr(other) or "get(" in sym_str(other)
                    want = True if sym_is_call(d, "PartialEq::eq") else False
                    if one_is_gen and remembered and lab is want:
                        got["same generation"] = True
                cmp_ = None
                if sym_is_call(d, "PartialOrd::gt", "PartialOrd::lt"):
                    cmp_ = ("Gt" if sym_is_call(d, "PartialOrd::gt") else "Lt", strip_sym(d[2][0]), strip_sym(d[2][1]))
                elif d[0] == "bin" and d[1] in ("Gt", "Lt"):
                    cmp_ = (d[1], strip_sym(d[2]), strip_sym(d[3]))
                if cmp_:
                    elapsed, tmo = (cmp_[1], cmp_[2]) if cmp_[0] == "Gt" else (cmp_[2], cmp_[1])
                    ok_el = sym_is_call(elapsed, "Sub::sub", "Instant::duration_since", "Instant::saturating_duration_since") and sym_is_call(strip_sym(elapsed[2][0]), "Clock::now") and ("get_mut" in repr(elapsed[2][1]) or "get(" in sym_str(elapsed[2][1]))
                    ok_t = "'idle_timeout'" in repr(tmo)
                    if ok_el and ok_t and lab is True:
                        got["strictly older than timeout"] = True
            for k_ in conds:
                conds[k_] = conds[k_] and got[k_]
          if True:
            dc = dels[0]
            for name, v in conds.items():
                chk.ob("C12.a", f"{ss.path} [delete requires: {name}]", v, f"delete_op is only reached when {name}" if v else f"the deletion is reachable without `{name}` holding (or the comparison is not the strict (now - last_update) > timeout)", dc.loc())
            # removal of the remembered entry exactly when deleted; false only then
            rem = [c for c in nonforeign_calls(ss) if c.fn is ss and c.is_("HashMap<K, V, S, A>::remove", "remove", "remove_entry") and is_param(arg_syms(c)[1], 1)]
            falses = [i for i, k, s in b.stmts() if s["k"] == "assign" and s["p"]["l"] == 0 and s["rv"]["k"] == "use" and (s["rv"]["a"].get("const") or {}).get("bool") is False]
            from facts import PredFlow

            pf = PredFlow(ss, lambda subj, v: None, lambda x: ("P", "N") if is_delete_sym(x) else None)  # P = "the deletion succeeded"
            # literal `false` only under P; any other result must not be false under not-P: reuse the agreement test on the negation
            res_ok = True
            n_res = 0
            for i, k, st in b.stmts():
                if st["k"] != "assign" or st["p"]["l"] != 0 or st["p"].get("pr") or pf.at(i) == "B":
                    continue
                n_res += 1
                v = pf._bool_rv(st["rv"], dict(pf._env_at(i, k)), pf.at(i))
                # (when_true, when_false): the result may be false only when P holds, true only when it does not
                if v[1] not in ("P", "B") or v[0] not in ("N", "T", "B"):
                    res_ok = False
            ok = len(rem) == 1 and pf.at(rem[0].bb) == "P" and n_res > 0 and res_ok
            if ok:
                # ... from the very map the entry was looked up in (the kind's own slot), once — not from other kinds' maps
                from props.common import in_cycle as _in_cycle

                look = [c for c in nonforeign_calls(ss) if c.fn is ss and c.is_("get_mut", "HashMap<K, V, S, A>::get", "HashMap<K, V, S, A>::get_mut")]
                same = bool(look) and repr(strip_sym(sym_through(arg_syms(rem[0])[0], "Deref::deref", "DerefMut::deref_mut"))) == repr(strip_sym(sym_through(arg_syms(look[0])[0], "Deref::deref", "DerefMut::deref_mut")))
                ok = same and not _in_cycle(b, rem[0].bb)
            chk.ob("C12.a", f"{ss.path} [entry removed when deleted; false only then]", ok, "the remembered entry is removed on the deleted path and only that path returns false" if ok else "the remembered (generation, time) is not removed exactly once from the deleted metric's own per-kind slot (left behind, or other kinds' state purged too), or `false` is returned without a deletion: a re-registered metric with the same update count is dropped at once / an equal-key metric of another kind restarts its idle clock", ss.loc())
        # changed generation updates both fields; first sighting inserts (gen, now)
        ins = [c for c in nonforeign_calls(ss) if c.fn is ss and c.is_("HashMap<K, V, S, A>::insert", "insert")]
        ok = len(ins) == 1
        if ok:
            a = arg_syms(ins[0])
            v = strip_sym(a[2])
            ok = sym_is_call(a[1], "Clone::clone") and v[0] == "agg" and len(v[3]) == 2 and is_param(v[3][0], 2) and sym_is_call(v[3][1], "Clock::now")
            ok = ok and any(lab == "None" and sym_is_call(d, "get_mut", "get") for d, lab in gates(b, ins[0].bb))
        chk.ob("C12.a", f"{ss.path} [first sighting]", ok, "an unseen key is remembered as (gen, now) and kept" if ok else "first sighting does not insert (gen, now)", ss.loc())
        upd = []
        for i, k, s in b.stmts():
            if s["k"] == "assign" and s["p"].get("pr") and not s.get("exp"):
                base = strip_sym(sy.local(s["p"]["l"]))
                if "get_mut" in repr(base):
                    upd.append((i, s, strip_sym(sy.rvalue(s["rv"], 0, frozenset()))))
        has_time = any(sym_is_call(v, "Clock::now") for _, _, v in upd)
        has_gen = any(is_param(v, 2) for _, _, v in upd)
        same_bb = len({i for i, _, _ in upd}) == 1
        gated = upd and any((lab is False and sym_is_call(d, "PartialEq::eq")) or (lab is True and sym_is_call(d, "PartialEq::ne")) for d, lab in gates(b, upd[0][0]))
        ok = has_time and has_gen and same_bb and gated
        chk.ob("C12.a", f"{ss.path} [changed generation]", ok, "on a changed generation both last_gen and last_update are refreshed and the metric is kept" if ok else "a changed generation does not refresh both remembered fields (stale time or stale generation survives)", ss.loc())

        # ---------------- C12.c
        sw = [i for i in range(b.n) if b.term(i)["k"] == "switch" and (b.term(i).get("enum") or "").endswith("kind::MetricKind")]
        gm = [c for c in nonforeign_calls(ss) if c.fn is ss and c.is_("get_mut", "HashMap<K, V, S, A>::get")]
        ok = False
        detail = "no selection of the state by kind found"
        if sw and gm:
          for sw_i in sw:
            sel = {}
            arms_ = list(b.term(sw_i)["arms"])
            covered = {a.get("variant") for a in arms_}
            rest = [v for v in (b.term(sw_i).get("all_variants") or []) if v not in covered]
            if len(rest) == 1:
                arms_.append({"variant": rest[0], "bb": b.term(sw_i)["otherwise"]})
            for a in arms_:
                blocks = {x for x in b.reachable(a["bb"]) if b.edge_dominates((sw_i, a["bb"]), x)}
                idx = set()
                for x in blocks:
                    for s in b.blocks[x]["s"]:
                        if s["k"] == "assign":
                            for e in (s["rv"].get("p", {}).get("pr") or []):
                                if isinstance(e, dict) and "idx" in e:
                                    c = strip_sym(sy.local(e["idx"]))
                                    if c[:2] == ("const", "int"):
                                        idx.add(c[2])
                                if isinstance(e, dict) and "cidx" in e:
                                    idx.add(e["cidx"])
                                if isinstance(e, dict) and "f" in e and e.get("f") not in ("0", "1"):
                                    idx.add(e["f"])
                            # a slot number chosen in this arm (e.g. a helper returning the index of the kind's map)
                            if s["rv"]["k"] == "use" and "int" in (s["rv"]["a"].get("const") or {}) and b.locals[s["p"]["l"]]["ty"] == "usize":
                                idx.add(s["rv"]["a"]["const"]["int"])
                sel[a["variant"]] = idx
            vals = [tuple(sorted(map(str, v))) for v in sel.values()]
            ok_i = len(sel) == 3 and all(len(v) == 1 for v in sel.values()) and len(set(vals)) == 3
            if ok_i or not ok:
                detail = f"kind -> slot: {sel}"
            if ok_i:
                # the chosen slot really selects the remembered state: some index projection uses exactly these values
                used = False
                for _, _, s in b.stmts():
                    if s["k"] == "assign":
                        for e in (s["rv"].get("p", {}).get("pr") or []):
                            if isinstance(e, dict) and ("idx" in e or "cidx" in e or "f" in e):
                                used = True
                ok = used
                break
            if not all(len(v) == 0 for v in sel.values()):
                # this switch does map kinds to slots, but not injectively
                ok = False
                break
        elif gm:
            # keyed by (kind, key)?
            k = strip_sym(arg_syms(gm[0])[1])
            ok = k[0] == "agg" and any(is_param(x, 4) for x in k[3])
            detail = f"lookup key {sym_str(k)[:80]}"
        chk.ob("C12.c", f"{ss.path} [state keyed by kind]", ok, f"each kind has its own remembered state ({detail})" if ok else f"two kinds share one remembered (generation, time) slot for equal keys ({detail}): a just-updated metric of one kind can be deleted because the other kind is stale", ss.loc())

    # ---------------- C12.b
    # every metric of a covered kind is tracked: the bookkeeping lookup is reached whenever a timeout is set and the mask matches
    # the kind — no further condition (on the generation, the key, ...) lets a covered metric escape the idle test
    ss_ = (u.method(REC, "should_store") or [None])[0]
    if ss_ is not None:
        look = [c for c in nonforeign_calls(ss_) if c.fn is ss_ and callee_method_name(c) in ("get_mut", "entry", "get", "raw_entry_mut") and "HashMap" in (c.resolved or "")]
        if look:
            extra = []
            for dd, lab in gates(ss_.body, look[0].bb):
                d_ = strip_sym(dd)
                txt = sym_str(d_)
                if "idle_timeout" in txt or sym_is_call(d_, "MetricKindMask::matches", "matches") or "lock" in txt or "poison" in txt.lower() or (d_[0] == "call" and "unwrap_or_else" in str(d_[1])):
                    continue
                extra.append(txt[:60])
            chk.ob("C12.a", f"{ss_.path} [tracking gated by timeout and mask only]", not extra, "the bookkeeping lookup runs whenever a timeout is set and the mask matches the kind" if not extra else f"the bookkeeping is also gated by `{extra[0]}`: a metric of a covered kind that fails this test is never tracked, so it is never dropped however long it stays idle", look[0].loc(), nontrivial=False)
    # the timeout and the mask the decision table reads are the configured ones: Recency::new stores its parameters as given
    # (Some(0) is a timeout of zero — `idle at the first unchanged observation` — not `no timeout`)
    rn = (u.method("metrics_util::registry::recency::Recency", "new") or [None])[0]
    if rn is not None:
        r0 = strip_sym(Sym(rn).local(0))
        if r0[0] == "agg" and len(r0) > 4 and r0[4]:
            for fname_, v_ in zip(r0[4], r0[3]):
                ty_ = ""
                if sym_arg(strip_sym(v_)) is None and any(isinstance(x, tuple) and x and x[0] == "arg" for x in sym_walk(v_)) and not (sym_is_call(strip_sym(v_), "new") or "tuple(" in sym_str(v_)[:12]):
                    chk.ob("C12.a", f"{rn.path} [{fname_} as configured]", False, f"Recency::new stores {sym_str(v_)[:70]} in `{fname_}` instead of the value it is given: some configurations (a zero timeout) silently become another one", rn.loc(), nontrivial=False)
                elif sym_arg(strip_sym(v_)) is not None:
                    chk.ob("C12.a", f"{rn.path} [{fname_} as configured]", True, f"`{fname_}` is the parameter unchanged", rn.loc(), nontrivial=False)
    wi = one_method(chk, "C12.b", u, GEN, "with_increment")
    if wi:
        b = wi.body
        fcall = [c for c in nonforeign_calls(wi) if c.is_("Fn::call", "FnOnce::call_once", "FnMut::call_mut") and is_param(arg_syms(c)[0], 1)]
        bump = [o for o in atomic_ops(wi) if strip_sym(o[2])[0] in ("field", "call") and "'gen'" in repr(o[2])]
        ok = len(fcall) == 1 and len(bump) == 1 and bump[0][1] == "fetch_add" and b.dominates(fcall[0].bb, bump[0][0].bb) and fcall[0].bb != bump[0][0].bb
        ok = ok and not [r for r in b.return_blocks() if r in b.reachable(0, cut={bump[0][0].bb})] if ok else ok
        o = orderings_in(bump[0][3]) if bump else []
        ok = ok and o and o[0] in ("Release", "AcqRel", "SeqCst")
        chk.ob("C12.b", wi.path, ok, "f(&inner) runs, then gen.fetch_add(1, >= Release) on every path" if ok else "the generation is bumped before the update is applied (or not on every path / too weakly ordered): an observer can see the new generation with the old value and later miss the update", wi.loc())
    gg = one_method(chk, "C12.b", u, GEN, "get_generation")
    if gg:
        ops = atomic_ops(gg)
        ok = len(ops) == 1 and ops[0][1] == "load" and orderings_in(ops[0][3])[0] in ("Acquire", "SeqCst")
        chk.ob("C12.b", gg.path, ok, "get_generation loads gen with >= Acquire" if ok else "get_generation does not load gen with >= Acquire", gg.loc())
    for trait, methods in (("CounterFn", ("increment", "absolute")), ("GaugeFn", ("increment", "decrement", "set")), ("HistogramFn", ("record",))):
        # every method the impl defines, the required ones and any provided one it overrides (record_many): an override
        # that forwards straight to the inner storage updates the metric without marking it as updated
        extra = sorted({f.name for f in u.fns if strip_generics(f.j.get("impl_self", "")).startswith(GEN) and (f.j.get("impl_trait") or "").endswith(trait) and f.name not in methods and f.dk == "AssocFn"})
        for mn in tuple(methods) + tuple(extra):
            fs = [f for f in u.method(GEN, mn, trait)]
            if len(fs) != 1:
                chk.unrecognised("C12.b", f"<anchor> <Generational<T> as {trait}>::{mn}", f"found {len(fs)}")
                continue
            f = fs[0]
            b_ = f.body
            wis = [c for c in nonforeign_calls(f) if c.fn is f and c.is_("Generational<T>::with_increment")]
            inner = [c for c in nonforeign_calls(f) if (c.t.get("trait") or "").endswith(trait)]
            bumps = [o for o in atomic_ops(f) if o[0].fn is f and o[1] == "fetch_add" and _is_gen_field(u, o[2])]
            why = ""
            if len(wis) == 1 and not bumps:
                # (A) through with_increment (decided above: update, then bump): the closure applies the same-named inner
                # method to the value, and no path through the method avoids the call
                ok = len(inner) == 1 and inner[0].fn is not f and callee_method_name(inner[0]) == mn
                if ok:
                    a = [Sym(inner[0].fn).operand(x) for x in inner[0].args]
                    ok = is_param(strip_sym(a[0]), 1) and "capture" in repr(a[1]) and is_param(strip_sym(a[1]), 1)
                skip = [r for r in b_.return_blocks() if not b_.blocks[r].get("cleanup") and r in b_.reachable(0, cut={wis[0].bb})]
                if ok and skip:
                    ok, why = False, "a path through the method returns without the update/bump (e.g. an early return for some values)"
                shape = f"{mn}(value) = with_increment(|x| x.{mn}(value))"
            elif not wis and len(bumps) == 1:
                # (B) spelled out: self.inner.<mn>(value), then the bump, on every path
                ok = len(inner) == 1 and inner[0].fn is f and callee_method_name(inner[0]) == mn
                if ok:
                    a = arg_syms(inner[0])
                    recv = strip_sym(sym_through(a[0], "Deref::deref", "AsRef::as_ref"))
                    ok = recv[0] == "field" and is_param(recv[1], 0) and not _is_gen_field(u, recv) and is_param(strip_sym(a[1]), 1)
                bb = bumps[0][0].bb
                o_ = orderings_in(bumps[0][3])
                if ok:
                    ok = b_.dominates(inner[0].bb, bb) and inner[0].bb != bb and bool(o_) and o_[0] in ("Release", "AcqRel", "SeqCst") and const_int(bumps[0][3][1]) == 1
                    if not ok:
                        why = "the generation is not advanced by one, with at least Release ordering, after the update"
                skip = [r for r in b_.return_blocks() if not b_.blocks[r].get("cleanup") and r in b_.reachable(0, cut={bb})]
                if ok and skip:
                    ok, why = False, "a path through the method returns without bumping the generation"
                shape = f"{mn}(value) = self.inner.{mn}(value); gen += 1"
            else:
                ok, shape = False, ""
                why = f"{len(wis)} with_increment calls and {len(bumps)} direct generation bumps"
            chk.ob("C12.b", f.path, ok, shape if ok else f"{trait}::{mn} of Generational does not apply the same-named inner method to the value and then advance the generation on every path ({why or 'inner call / argument mismatch'}): the generation would not change on this update", f.loc())
    fam = {}
    for k in KINDS:
        f = one_method(chk, "C12.b", u, REC, f"should_store_{k}")
        if f:
            fam[k] = f
            kind_consistent(chk, "C12.b", f, k)
            cs = [c for c in nonforeign_calls(f) if c.fn is f and c.is_("Recency<K>::should_store")]
            ok = len(cs) == 1 and all(is_param(arg_syms(cs[0])[i], i) for i in range(4))
            chk.ob("C12.b", f"{f.path} [arguments]", ok, "passes (key, gen, registry) through unchanged" if ok else "should_store is not given this call's (key, gen, registry)", f.loc())
    if len(fam) == 3:
        siblings_isomorphic(chk, "C12.b", fam, "Recency::should_store_*")

    # ---------------- C12.d
    if p is not None:
        grm = (p.method("metrics_exporter_prometheus::recorder::Inner", "get_recent_metrics") or [None])[0]
        if need(chk, "C12.d", "Inner::get_recent_metrics", grm):
            b = grm.body
            for k in ("counter", "gauge"):
                sc = [c for c in nonforeign_calls(grm) if c.fn is grm and c.is_(f"Recency<K>::should_store_{k}")]
                loads = [c for c in nonforeign_calls(grm) if c.fn is grm and c.is_("load") and c.bb in b.reachable(sc[0].bb)] if sc else []
                ok = len(sc) == 1
                if ok:
                    # the value load following it in the same loop iteration is gated by == true
                    nxt = [c for c in loads if any(sym_is_call(d, f"should_store_{k}") for d, lab in gates(b, c.bb))]
                    ok = bool(nxt) and all(any(lab is True and sym_is_call(d, f"should_store_{k}") for d, lab in gates(b, c.bb)) for c in nxt)
                    a = arg_syms(sc[0])
                    ok = ok and sym_is_call(a[2], "get_generation")
                chk.ob("C12.d", f"{grm.path} [{k} gate]", ok, f"a {k} is snapshotted exactly when should_store_{k}(key, its generation) is true" if ok else f"{k} values are snapshotted regardless of (or against) should_store_{k}", grm.loc())
            sh = [c for c in nonforeign_calls(grm) if c.fn is grm and c.is_("Recency<K>::should_store_histogram")]
            rm = [c for c in nonforeign_calls(grm) if c.fn is grm and c.is_("swap_remove", "shift_remove", "IndexMap<K, V, S>::remove", "remove")]
            ok = len(sh) == 1 and len(rm) >= 1 and all(any(lab is False and sym_is_call(d, "should_store_histogram") for d, lab in gates(b, c.bb)) for c in rm)
            chk.ob("C12.d", f"{grm.path} [histogram cleanup]", ok, "the aggregated distribution is removed exactly on should_store_histogram == false" if ok else "the aggregated distribution of an expired histogram is not removed on the false edge (or removed otherwise)", grm.loc())
        # all key_to_parts calls in Inner use the same global-label argument
        inner_fns = [f for f in p.fns if f.dk == "AssocFn" and strip_generics(f.j.get("impl_self", "")).endswith("recorder::Inner")]
        forms = {}
        for f in inner_fns:
            for c in nonforeign_calls(f):
                if c.is_("formatting::key_to_parts"):
                    a = strip_sym(Sym(c.fn).operand(c.args[1]))
                    form = "Some(self.global_labels)" if (a[0] == "agg" and a[2] == "Some" and "'global_labels'" in repr(a)) else sym_str(a)[:60]
                    forms.setdefault(form, []).append(c)
        ok = len(forms) == 1 and "Some(self.global_labels)" in forms
        chk.ob("C12.d", "prometheus Inner [series identity]", ok, f"all {sum(len(v) for v in forms.values())} key_to_parts calls derive (name, labels) with the global labels: stored and removed series coincide" if ok else f"series identity is computed differently at different sites {sorted(forms)}: an expired histogram's distribution is looked up under another (name, labels) than it was stored under", "metrics-exporter-prometheus/src/recorder.rs")
        it = (p.method("metrics_exporter_prometheus::exporter::builder::PrometheusBuilder", "idle_timeout") or [None])[0]
        if need(chk, "C12.d", "PrometheusBuilder::idle_timeout", it):
            b = it.body
            sy = Sym(it)
            stores = {}
            for i, k, s in b.stmts():
                if s["k"] == "assign" and s["p"].get("pr"):
                    fl = [e.get("f") for e in s["p"]["pr"] if isinstance(e, dict) and "f" in e]
                    if fl and fl[-1] in ("recency_mask", "idle_timeout"):
                        stores.setdefault(fl[-1], []).append((i, strip_sym(sy.rvalue(s["rv"], 0, frozenset()))))
            okt = len(stores.get("idle_timeout", [])) == 1 and is_param(stores["idle_timeout"][0][1], 2)
            ms = stores.get("recency_mask", [])
            vals = ms[0][1] if len(ms) == 1 else None
            okm = False
            if vals is not None and vals[0] == "phi":
                alts = [strip_sym(x) for x in vals[1]]
                has_none = any(x[0] == "const" and ("NONE" in repr(x) or (len(x) > 3 and "NONE" in str(x[3]))) or (x[0] == "agg" and x[3] and strip_sym(x[3][0])[:3] == ("const", "int", 0)) for x in alts)
                has_mask = any(is_param(x, 1) for x in alts)
                okm = has_none and has_mask
            # ... and what was stored reaches the recency tracker as it is: Recency::new(clock, self.recency_mask,
            # self.idle_timeout) — a timeout raised to the upkeep interval (or otherwise adjusted) on the way keeps idle
            # metrics in the output beyond the timeout the user gave
            for g_ in p.fns:
                for c_ in nonforeign_calls(g_):
                    if c_.fn is g_ and c_.is_("Recency<K>::new") and len(c_.args) == 3:
                        a_ = [strip_sym(x) for x in arg_syms(c_)]
                        direct = a_[2][0] == "field" and a_[2][2] == "idle_timeout" and a_[1][0] == "field" and a_[1][2] == "recency_mask"
                        chk.ob("C12.d", f"{g_.path} [configured timeout and mask reach Recency::new unchanged]", direct, "Recency::new(clock, self.recency_mask, self.idle_timeout)" if direct else f"the recency tracker is built with {sym_str(a_[1])[:40]} / {sym_str(a_[2])[:60]}, not with the configured mask and timeout themselves", c_.loc(), nontrivial=False)
            chk.ob("C12.d", it.path, okt and okm, "idle_timeout(mask, t): timeout stored; mask := NONE when t is None else the given mask" if okt and okm else "idle_timeout does not force MetricKindMask::NONE when no timeout is given", it.loc())


def run_config(ctx):
    run(ctx)
