"""C08 — Prometheus output is well-formed exposition text for any input strings."""
from facts import Sym, path_is, strip_generics, strip_sym, sym_arg, sym_calls, sym_is_call, sym_str, sym_through, sym_walk
from facts import sym_arg
from props.common import arg_syms, bool_switches, callee_method_name, calls_to, crate_stats, gates, in_cycle, need, nonforeign_calls, one_method
from props.c07 import flat_phi, metric_lines

KEEP = [  # private helpers the rules name (kept as functions); every other non-exported, non-trait function is spliced into its callers
    "Inner::render", "Inner::write_family_header", "formatting::sanitize_label_value_or_description", "formatting::valid_label_key_character",
    "formatting::valid_label_key_start_character", "formatting::valid_metric_name_character", "formatting::valid_metric_name_start_character",
]
TITLE = "C08 Prometheus output is well-formed exposition text for any input strings."
CONFIGS = ["test-profile", "prom-nodefault"]
FMT = "metrics_exporter_prometheus::formatting"
INNER = "metrics_exporter_prometheus::recorder::Inner"
ESCAPES = {"\\n", '\\"', "\\\\"}


def is_param(s, i):
    a = sym_arg(s)
    return a is not None and a[0] == i


def const_str(s):
    s = strip_sym(s)
    return s[2] if s[:2] == ("const", "str") else None


def const_char(s):
    s = strip_sym(s)
    return s[2] if s[:2] == ("const", "char") else None


def _mode_const(x):
    """('bool', v) / ('variant', name) for a constant mode argument."""
    x = strip_sym(x)
    while isinstance(x, tuple) and x and x[0] in ("ref", "deref"):
        x = strip_sym(x[1])
    if not isinstance(x, tuple) or not x:
        return None
    if x[:2] == ("const", "bool"):
        return ("bool", bool(x[2]))
    if x[0] == "agg" and x[2] and not x[3]:
        return ("variant", x[2])
    if x[0] == "const" and len(x) > 3 and isinstance(x[3], str):
        return ("variant", x[3].split("::")[-1])
    return None


def pred_signature(f):
    """(set of ascii-class predicates called, set of characters compared with ==) of a char predicate."""
    classes = {callee_method_name(c) for c in f.body.calls() if callee_method_name(c).startswith("is_ascii")}
    chars = set()
    sy = Sym(f)
    for i, k, s in f.body.stmts():
        if s["k"] == "assign" and s["rv"]["k"] == "bin" and s["rv"]["op"] == "Eq":
            for o in (s["rv"]["a"], s["rv"]["b"]):
                c = const_char(sy.operand(o))
                if c is not None:
                    chars.add(c)
    neg = any(s["k"] == "assign" and s["rv"]["k"] == "un" and s["rv"]["op"] == "Not" for _, _, s in f.body.stmts())
    return classes, chars, neg


def run(ctx):
    chk = ctx.check
    p = ctx.crate("metrics_exporter_prometheus")
    crate_stats(chk, p)
    chk.rule("C08.a", "SHAPE sanitiser output alphabet: every push into the result of sanitize_label_value_or_description is a complete two-character escape (\\\\n, \\\\\", \\\\\\\\) or push(c) of the loop character on an edge set that excludes newline and backslash, and excludes the double quote unless is_desc", floor=3)
    chk.rule("C08.b", "TBL name grammars: sanitize_metric_name / sanitize_label_key return the character only where the position-appropriate predicate holds, else '_'; the four predicates are exactly {alpha,_,:} / {alnum,_,:} / {alpha,_} / {alnum,_}", floor=6)
    chk.rule("C08.c", "SHAPE family-name agreement: at every write_metric_line call in render the name is the very name given to the family's TYPE (and HELP) line and no unit is appended separately; inside write_metric_line a unit (if any) precedes the type suffix", floor=2)
    chk.rule("C08.d", "ORD line order: every sample line is dominated by the TYPE line of its family in the same loop iteration; one TYPE line per family; HELP only before TYPE; a blank line closes each family", floor=3)
    chk.rule("C08.e", "TBL suffix/label table: histogram arm bucket+le (bounds then +Inf), sum, count; summary arm no suffix + quantile, sum, count; counters/gauges no suffix, no extra label", floor=4)
    chk.rule("C08.f", "SIB TYPE matches variant: get_distribution_type says \"histogram\" under exactly the disjunction under which get_distribution builds a histogram (global buckets or a matching override)", floor=1)
    chk.rule("C08.g", "SHAPE label list syntax in write_metric_line: literal set {'{', ',', '}', '=\"', '\"', ' ', newline, '_'}; a comma only when a label was already written; HELP/TYPE lines end with newline and HELP text goes through sanitize_description; key_to_parts sanitises every label pair where it is emitted", floor=4)
    chk.trust("char::is_ascii_alphabetic/alphanumeric", "String::{push,push_str}", "f64/u64/&str Display")
    chk.residue.append("none for well-formedness under the stated name-distinctness precondition; value text of f64 (NaN, +Inf spelling) is std's Display")

    # ---------------- C08.a
    san = p.fn(f"{FMT}::sanitize_label_value_or_description")
    if need(chk, "C08.a", "sanitize_label_value_or_description", san):
        b = san.body
        sy = Sym(san)
        # the result string local: what is moved into _0
        res = None
        for i, k, s in b.stmts():
            if s["k"] == "assign" and s["p"]["l"] == 0 and not s["p"].get("pr") and s["rv"]["k"] == "use":
                pl = s["rv"]["a"].get("move") or s["rv"]["a"].get("copy")
                if pl:
                    res = pl["l"]
        sws = [i for i in range(b.n) if b.term(i)["k"] == "switch" and b.term(i).get("dty") == "char"]
        heads = [c.bb for c in san.body.calls() if c.is_("Iterator::next")]
        if res is None or len(sws) != 1 or len(heads) != 1:
            chk.unrecognised("C08.a", f"{san.path} [shape]", f"expected one result string, one switch on the character and one loop (found {res}, {len(sws)}, {len(heads)})", san.loc())
        else:
            sw, head = sws[0], heads[0]
            edges = {a.get("char"): a["bb"] for a in b.term(sw)["arms"]}
            writes = []
            for c in san.body.calls():
                a = arg_syms(c)
                if a and strip_sym(a[0]) == strip_sym(sy.local(res)) or (a and repr(strip_sym(a[0])) == repr(("undef", res, b.local_name(res)))):
                    writes.append(c)
            # fallback: receiver is &mut result
            writes = [c for c in san.body.calls() if c.args and ((c.args[0].get("move") or c.args[0].get("copy") or {}).get("l") is not None) and _points_to(b, c.args[0], res)]
            pushes = [c for c in writes if c.is_("String::push")]
            pstrs = [c for c in writes if c.is_("String::push_str")]
            other = [c for c in writes if c not in pushes and c not in pstrs and not c.is_("String::with_capacity", "String::reserve", "Deref::deref", "String::as_str", "String::len", "String::is_empty", "String::capacity", "String::as_bytes", "AsRef::as_ref", "Borrow::borrow")]  # read-only views of the result (an assertion about it) emit nothing
            ok_lit = all(const_str(arg_syms(c)[1]) in ESCAPES for c in pstrs) and not other
            bad_lit = [const_str(arg_syms(c)[1]) for c in pstrs if const_str(arg_syms(c)[1]) not in ESCAPES]
            chk.ob("C08.a", f"{san.path} [literal pushes]", ok_lit and pstrs, f"{len(pstrs)} push_str sites, each a complete escape from {sorted(ESCAPES)}" if ok_lit else f"a literal other than a complete escape is emitted: {bad_lit or [callee_method_name(c) for c in other]}", san.loc())
            # the mode parameter: the two public wrappers call the escaper with two different constants (a bool, or a
            # variant of a private enum); P = "the mode is the one sanitize_label_value passes"
            modes = {}
            for name in ("sanitize_label_value", "sanitize_description"):
                f = p.fn(f"{FMT}::{name}")
                r = strip_sym(Sym(f).local(0)) if f else None
                okw = bool(f) and sym_is_call(r, "sanitize_label_value_or_description") and is_param(r[2][0], 0) and len(r[2]) == 2 and _mode_const(r[2][1]) is not None
                if okw:
                    modes[name] = _mode_const(r[2][1])
                if f:
                    chk.ob("C08.a", f.path, okw, f"{name}(v) = escaper(v, {modes.get(name)})" if okw else f"{name} does not hand its argument to the escaper with a constant mode", f.loc())
            lv, ds = modes.get("sanitize_label_value"), modes.get("sanitize_description")
            chk.ob("C08.a", f"{san.path} [modes]", lv is not None and ds is not None and lv != ds, f"label values are escaped in mode {lv}, descriptions in mode {ds}" if lv is not None and ds is not None and lv != ds else f"label values and descriptions are not escaped in two distinct constant modes ({lv}, {ds})", san.loc(), nontrivial=False)

            def is_mode(x):
                x = strip_sym(x)
                while isinstance(x, tuple) and x and x[0] in ("ref", "deref"):
                    x = strip_sym(x[1])
                return is_param(x, 1)

            def csw(subj, variant):
                if not is_mode(subj) or lv is None:
                    return None
                if lv[0] == "bool":
                    if variant in (0, 1):
                        return "P" if bool(variant) == lv[1] else "N"
                    if isinstance(variant, tuple) and variant[0] == "not" and len(variant[1]) == 1 and variant[1][0] in (0, 1):
                        return "P" if (not bool(variant[1][0])) == lv[1] else "N"
                    return None
                if isinstance(variant, str):
                    return "P" if variant == lv[1] else "N"
                if isinstance(variant, tuple) and variant[0] == "not":
                    return "N" if lv[1] in variant[1] else None
                return None

            def cbool(x):
                x = strip_sym(x)
                if not isinstance(x, tuple) or not x:
                    return None
                if x[0] == "un" and x[1] == "Not":
                    w = cbool(x[2])
                    return (w[1], w[0]) if w else None
                if is_mode(x) and lv is not None and lv[0] == "bool":
                    return ("P", "N") if lv[1] else ("N", "P")
                if x[0] == "call" and isinstance(x[1], str) and len(x[2]) == 2 and (x[1].endswith("::eq") or x[1].endswith("::ne")):
                    a_, b_ = x[2]
                    other = b_ if is_mode(a_) else a_ if is_mode(b_) else None
                    k_ = _mode_const(other) if other is not None else None
                    if k_ is not None and lv is not None:
                        w = ("P", "N") if k_ == lv else ("N", "P")
                        return w if x[1].endswith("::eq") else (w[1], w[0])
                if x[0] == "bin" and x[1] in ("Eq", "Ne"):
                    a_, b_ = x[2], x[3]
                    other = b_ if is_mode(a_) else a_ if is_mode(b_) else None
                    k_ = _mode_const(other) if other is not None else None
                    if k_ is not None and lv is not None:
                        w = ("P", "N") if k_ == lv else ("N", "P")
                        return w if x[1] == "Eq" else (w[1], w[0])
                return None

            from facts import PredFlow

            okp = bool(pushes)
            why = ""
            for c in pushes:
                ch = strip_sym(arg_syms(c)[1])
                if not (ch[0] in ("field", "downcast") and "next" in sym_str(ch)):
                    okp, why = False, f"push() of {sym_str(ch)[:60]}, not the loop character"
                    continue
                for lit, must in (("\n", "never"), ("\\", "never"), ('"', "desc")):
                    tgt = edges.get(lit)
                    if tgt is None:
                        okp, why = False, f"the character switch has no arm for {lit!r}: it would be copied verbatim"
                        continue
                    if c.bb in b.reachable(tgt, cut={head}):
                        # the raw push is reachable from this character's edge: allowed only for the quote, and only on
                        # paths on which the mode is known not to be the label-value mode
                        if must == "never" or PredFlow(san, csw, cbool, start=tgt, cut={head}).at(c.bb) != "N":
                            okp, why = False, f"the raw character can be pushed on the {lit!r} edge" + ("" if must == "never" else " even when escaping a label value")
            chk.ob("C08.a", f"{san.path} [raw character edges]", okp, "push(c) is unreachable from the newline and backslash edges, and from the quote edge unless the mode is the description mode" if okp else why, san.loc())

    # ---------------- C08.b
    want_preds = {
        "valid_metric_name_start_character": ({"is_ascii_alphabetic"}, {"_", ":"}),
        "valid_metric_name_character": ({"is_ascii_alphanumeric"}, {"_", ":"}),
        "valid_label_key_start_character": ({"is_ascii_alphabetic"}, {"_"}),
        "valid_label_key_character": ({"is_ascii_alphanumeric"}, {"_"}),
    }
    for pn, (cls, chars) in want_preds.items():
        f = p.fn(f"{FMT}::{pn}")
        if f is None:
            chk.unrecognised("C08.b", f"<anchor> {pn}", "missing")
            continue
        gc, gch, neg = pred_signature(f)
        ok = gc == cls and gch == chars and not neg
        chk.ob("C08.b", f.path, ok, f"accepts exactly {sorted(cls)} + {sorted(chars)}" if ok else f"accepts {sorted(gc)} + {sorted(gch)}{' (negated)' if neg else ''}, grammar requires {sorted(cls)} + {sorted(chars)}", f.loc())
    for fn_name, start_p, rest_p in (("sanitize_metric_name", "valid_metric_name_start_character", "valid_metric_name_character"), ("sanitize_label_key", "valid_label_key_start_character", "valid_label_key_character")):
        f = p.fn(f"{FMT}::{fn_name}")
        if f is None:
            chk.unrecognised("C08.b", f"<anchor> {fn_name}", "missing")
            continue
        # every character of the input is mapped: the characters iterated are those of the parameter itself, not of a
        # trimmed / filtered / truncated copy (a name made of whitespace only would come out empty)
        its_ = [c for g_ in f.region() for c in g_.body.calls() if callee_method_name(c) in ("chars", "char_indices") and "str" in (c.resolved or "")]
        # (iterations over something that is not derived from the parameter at all — the result, in an assertion — are not the mapping's input)
        cut_ = [sym_str(arg_syms(c)[0])[:60] for c in its_ if sym_arg(sym_through(arg_syms(c)[0], "Deref::deref", "String::as_str", "AsRef::as_ref", "Borrow::borrow")) is None and any(isinstance(x, tuple) and x and x[0] == "arg" for x in sym_walk(arg_syms(c)[0])) and not any(isinstance(x, tuple) and x and x[0] == "call" and isinstance(x[1], str) and strip_generics(x[1]).split("::")[-1] in ("with_capacity", "new") for x in sym_walk(arg_syms(c)[0]))]
        if its_:
            chk.ob("C08.b", f"{f.path} [every input character]", not cut_, "the characters mapped are those of the parameter" if not cut_ else f"the sanitiser iterates {cut_[0]} instead of its whole input: characters are dropped before the mapping (an all-whitespace name becomes the empty string)", f.loc(), nontrivial=False)
        clos = [c for c in f.region() if c is not f]
        ok = len(clos) == 1
        why = "expected one per-character closure"
        if not clos:
            # the same decision written as `first character, then a loop over the rest`: the start predicate is applied once,
            # to the first next() taken before the loop, the other one inside the loop; a character is pushed only where its
            # predicate accepted it, '_' otherwise, and every character leads to exactly one push
            from facts import PredFlow

            b = f.body
            sy = Sym(f)
            pcs = {callee_method_name(c): c for c in b.calls() if callee_method_name(c).startswith("valid_")}
            pushes_ = [c for c in nonforeign_calls(f) if c.fn is f and c.is_("String::push")]
            ok = set(pcs) == {start_p, rest_p} and bool(pushes_)
            why = f"{fn_name} consults {sorted(pcs)}"
            if ok:
                ok = not in_cycle(b, pcs[start_p].bb) and in_cycle(b, pcs[rest_p].bb) and "next" in sym_str(arg_syms(pcs[start_p])[0]) and "next" in sym_str(arg_syms(pcs[rest_p])[0])
                why = "the start predicate is not applied to the first character only / the other one not to the rest"
            if ok:
                fl = PredFlow(f, lambda subj, v: None, lambda x: ("P", "N") if sym_is_call(x, start_p, rest_p) else None)
                from facts import alternatives

                for c in pushes_:
                    # `push(if ok { c } else { '_' })`: each value the argument can take, where it is chosen
                    al_ = (c.args[1].get("copy") or c.args[1].get("move") or {}).get("l")
                    ds_ = [d for d in b.defs().get(al_, []) if d[0] == "assign"] if al_ is not None and not (c.args[1].get("copy") or c.args[1].get("move") or {}).get("pr") else []
                    sites = [(d[1], sy.rvalue(d[3]["rv"], 0, frozenset())) for d in ds_] if len(ds_) > 1 else [(x[0], x[1]) for x in alternatives(f, c.args[1], c.bb, sy)]
                    for bb_a, alt in sites:
                        v = strip_sym(alt)
                        if const_char(v) == "_":
                            continue
                        if "next" not in sym_str(v) or fl.at(bb_a) != "P":
                            ok, why = False, "a character is pushed on a path where its predicate did not accept it"
                pb = {c.bb for c in pushes_}
                heads_ = [c.bb for c in nonforeign_calls(f) if c.fn is f and c.is_("Iterator::next") and in_cycle(b, c.bb)]
                for pc_ in (pcs[start_p], pcs[rest_p]):
                    tgt_ = pc_.t.get("target")
                    if tgt_ is None or any(h in b.reachable(tgt_, cut=pb) for h in heads_) or any(r in b.reachable(tgt_, cut=pb) for r in b.return_blocks()):
                        ok, why = False, "a character can be consumed without anything being pushed for it"
            chk.ob("C08.b", f.path, ok, f"first character: c if {start_p}(c) else '_'; every later one: c if {rest_p}(c) else '_'" if ok else why, f.loc())
            continue
        if ok:
            cf = clos[0]
            b = cf.body
            sy = Sym(cf)
            pcs = {callee_method_name(c): c for c in cf.body.calls() if callee_method_name(c).startswith("valid_")}
            ok = set(pcs) == {start_p, rest_p}
            why = f"closure consults {sorted(pcs)}"
            if ok:
                # blocks where _0 := the character / '_'
                ch_blocks, us_blocks = [], []
                for i, k, s in b.stmts():
                    if s["k"] == "assign" and s["p"]["l"] == 0 and not s["p"].get("pr"):
                        v = strip_sym(sy.rvalue(s["rv"], 0, frozenset()))
                        if const_char(v) == "_":
                            us_blocks.append(i)
                        elif v[0] in ("field", "arg") or "arg" in repr(v):
                            ch_blocks.append(i)
                        else:
                            ok, why = False, f"closure returns {sym_str(v)[:60]}"
                # each predicate is consulted for its own position only
                for pn_, want_first in ((start_p, True), (rest_p, False)):
                    idx_ok = False
                    for gd, lab in gates(b, pcs[pn_].bb, up=False):
                        gd = strip_sym(gd)
                        if gd[0] == "bin" and gd[1] in ("Eq", "Ne") and strip_sym(gd[3])[:3] == ("const", "int", 0):
                            is_first = (gd[1] == "Eq") == (lab is True)
                            idx_ok = is_first == want_first
                        elif gd[0] == "bin" and gd[1] in ("Gt", "Lt") and (strip_sym(gd[3])[:3] == ("const", "int", 0) or strip_sym(gd[2])[:3] == ("const", "int", 0)):
                            # i > 0 / 0 < i
                            nonfirst = lab is True
                            idx_ok = (not nonfirst) == want_first
                        elif gd[0] == "field" and gd[2] == "0" and lab in (0, "otherwise") and not isinstance(lab, bool):
                            # `match i { 0 => start(c), _ => rest(c) }` on the enumerate index
                            idx_ok = (lab == 0) == want_first
                    if not idx_ok:
                        ok, why = False, f"{pn_} is not applied to {'the first' if want_first else 'non-first'} position only"
                if ok:
                    from facts import PredFlow

                    def cbool(x):
                        return ("P", "N") if sym_is_call(x, start_p, rest_p) else None

                    fl = PredFlow(cf, lambda subj, v: None, cbool)
                    ok = len(ch_blocks) >= 1 and len(us_blocks) >= 1 and all(fl.at(cb) == "P" for cb in ch_blocks)
                    why = "the character is returned on a path where neither predicate accepted it"
        chk.ob("C08.b", f.path, ok, f"per character: c if (first && {start_p}(c)) || (!first && {rest_p}(c)) else '_'" if ok else why, f.loc())

    # ---------------- render-based rules
    render = (p.method(INNER, "render") or [None])[0]
    wml = p.fn(f"{FMT}::write_metric_line")
    if need(chk, "C08.c", "Inner::render", render):
        b = render.body
        sy = Sym(render)
        lines = metric_lines(render)
        heads = [c for c in nonforeign_calls(render) if c.fn is render and c.is_("formatting::write_type_line", "Inner::write_family_header")]
        bad_c, bad_d = [], []
        fam_of = {}
        for l in lines:
            doms = [h for h in heads if b.dominates(h.bb, l["c"].bb)]
            if not doms:
                bad_d.append(l)
                continue
            h = max(doms, key=lambda h: len(b.dominators()[h.bb]))
            fam_of[id(l)] = h
            # name agreement
            nm = strip_sym(l["name"])
            if h.is_("Inner::write_family_header"):
                agree = sym_is_call(sym_through(nm, "Deref::deref", "String::as_str", "AsRef::as_ref"), "Inner::write_family_header") and repr(sym_through(nm, "Deref::deref", "String::as_str", "AsRef::as_ref")) == repr(strip_sym(sy.place(h.t["dest"])))
            else:
                hn = sym_through(arg_syms(h)[1], "Deref::deref", "String::as_str", "AsRef::as_ref")
                agree = repr(sym_through(nm, "Deref::deref", "String::as_str", "AsRef::as_ref")) == repr(hn)
            unit_none = l["unit"] is None or (l["unit"][0] == "agg" and l["unit"][2] == "None")
            if not (agree and unit_none):
                bad_c.append((l, agree, unit_none))
        ok = lines and not bad_c and not bad_d
        if bad_c:
            l, agree, un = bad_c[0]
            detail = ("sample name differs from the name on the TYPE line" if not agree else "") + ("; a unit is appended to the sample name only (TYPE/HELP use the bare name)" if not un else "")
        elif bad_d:
            detail = "a sample line is not preceded by a TYPE line"
        else:
            detail = ""
        chk.ob("C08.c", f"{render.path} [family name agreement]", ok, f"all {len(lines)} sample lines use the family name of their TYPE line, with no separately appended unit" if ok else f"{detail} (line {((bad_c[0][0] if bad_c else bad_d[0])['c']).line})", render.loc())
        chk.ob("C08.d", f"{render.path} [TYPE before samples]", not bad_d and len(heads) == 3, f"{len(heads)} families; every sample line is dominated by its family's TYPE line" if not bad_d and len(heads) == 3 else "a sample line can be written before (or without) the TYPE line of its family", render.loc())
        # one TYPE per family iteration: the header call is in exactly one loop (the family loop), samples in a deeper one or same
        ok1 = all(in_cycle(b, h.bb) for h in heads)
        nl = [c for c in nonforeign_calls(render) if c.fn is render and c.is_("String::push") and strip_sym(arg_syms(c)[1])[:3] == ("const", "char", "\n")]
        ok_nl = len(nl) == len(heads) and all(any(b.dominates(h.bb, n.bb) for h in heads) for n in nl)
        chk.ob("C08.d", f"{render.path} [blank line closes family]", ok1 and ok_nl, "each family loop ends with an empty line" if ok1 and ok_nl else "families are not separated by an empty line / TYPE line outside the family loop", render.loc())
        # ---------------- C08.e
        by_type = {}
        for l in lines:
            h = fam_of.get(id(l))
            if h is None:
                continue
            if h.is_("Inner::write_family_header"):
                t = strip_sym(arg_syms(h)[4])
            else:
                t = strip_sym(arg_syms(h)[2])
            tname = const_str(t) or ("distribution" if sym_is_call(t, "get_distribution_type") else sym_str(t)[:30])
            by_type.setdefault(tname, []).append((l["suffix"], l["label"]))
        want = {"counter": [(None, None)], "gauge": [(None, None)], "distribution": sorted([(None, "quantile"), ("bucket", "le"), ("bucket", "le"), ("sum", None), ("count", None)], key=str)}
        for tname, w in want.items():
            got = sorted(by_type.get(tname, []), key=str)
            chk.ob("C08.e", f"{render.path} [{tname} lines]", got == sorted(w, key=str), f"{tname}: (suffix, extra label) = {got}" if got == sorted(w, key=str) else f"{tname} family writes {got}, expected {sorted(w, key=str)}", render.loc())
        # variant gating of bucket / quantile lines
        okv = True
        for l in lines:
            g = gates(b, l["c"].bb)
            var = {lab for d, lab in g if lab in ("Histogram", "Summary")}
            if l["label"] == "le" and var != {"Histogram"}:
                okv = False
            if l["label"] == "quantile" and var != {"Summary"}:
                okv = False
        chk.ob("C08.e", f"{render.path} [variant arms]", okv, "bucket/le lines only in the Histogram arm, quantile lines only in the Summary arm" if okv else "bucket or quantile lines are written for the wrong distribution variant", render.loc())
    wfh = (p.method(INNER, "write_family_header") or [None])[0]
    if wfh:
        b = wfh.body
        t = [c for c in nonforeign_calls(wfh) if c.is_("formatting::write_type_line")]
        h = [c for c in nonforeign_calls(wfh) if c.is_("formatting::write_help_line")]
        def _alts(x):
            x = strip_sym(sym_through(x, "Deref::deref", "String::as_str"))
            if x[0] == "phi":
                return [y for z in x[1] for y in _alts(z)]
            return [repr(x)]

        rets = set(_alts(Sym(wfh).local(0)))
        # exactly one TYPE line on every path, HELP (where written) before it, both under the name that path returns
        ok = len(t) >= 1 and len(h) >= 1 and not any(in_cycle(b, c.bb) for c in t + h)
        if ok:
            tbs = {c.bb for c in t}
            ok = not [r for r in b.return_blocks() if r in b.reachable(0, cut=tbs)]
            ok = ok and not any(c2.bb in b.reachable_after(c.bb) for c in t for c2 in t)
            for c in t:
                tn = _alts(arg_syms(c)[1])
                ok = ok and set(tn) <= rets and (len(t) > 1 or set(tn) == rets) and is_param(arg_syms(c)[2], 4)
            for c in h:
                after = [c2 for c2 in t if c2.bb in b.reachable(c.bb)]
                hn = _alts(arg_syms(c)[1])
                ok = ok and bool(after) and all(set(_alts(arg_syms(c2)[1])) == set(hn) for c2 in after)
                ok = ok and not any(c.bb in b.reachable_after(c2.bb) for c2 in t)
        if ok:
            # ... and nothing else: the header consists of these lines only (an added `# UNIT` / `# EOF` / comment line is
            # none of HELP, TYPE, sample or blank)
            bp = sym_arg(arg_syms(t[0])[0])
            if bp is not None:
                extra = [c for c in nonforeign_calls(wfh) if c.args and not c.is_("formatting::write_type_line", "formatting::write_help_line") and callee_method_name(c) in ("push_str", "push", "write_fmt", "write_str", "extend", "insert_str", "insert", "extend_from_slice", "write_char") and (sym_arg(arg_syms(c)[0]) or (None,))[0] == bp[0]]
                ok = not extra
        chk.ob("C08.d", wfh.path, ok, "HELP (if described) then exactly one TYPE line, both with the returned family name" if ok else "the family header does not write HELP-then-TYPE with the name it returns on every path", wfh.loc())
    if wml:
        b = wml.body
        sy = Sym(wml)
        ps = [c for c in nonforeign_calls(wml) if c.fn is wml and c.is_("String::push_str", "String::push")]
        name_p = [c for c in ps if c.is_("String::push_str") and is_param(arg_syms(c)[1], 1)]
        suf_p = [c for c in ps if c.is_("String::push_str") and "Some" in repr(arg_syms(c)[1]) and any(isinstance(x, tuple) and x and x[0] == "arg" and x[1] == 2 for x in sym_walk(arg_syms(c)[1]))]
        unit_p = [c for c in ps if c.is_("String::push_str") and (sym_is_call(sym_through(arg_syms(c)[1]), "unit_suffix", "Unit::as_str") or "unit_suffix" in sym_str(arg_syms(c)[1]) or const_str(arg_syms(c)[1]) == "ratio")]
        ok = len(name_p) == 1 and len(suf_p) == 1 and all(b.dominates(name_p[0].bb, c.bb) for c in suf_p + unit_p)
        ok = ok and all(u.bb not in b.reachable(suf_p[0].bb) for u in unit_p)
        if not ok and len(name_p) == 1:
            # idiom: one push_str inside `for part in <unit>.into_iter().chain(<suffix>)` — chain() yields the unit first
            from props.common import iteration_context

            for c in ps:
                if not c.is_("String::push_str") or c in name_p or not b.dominates(name_p[0].bb, c.bb):
                    continue
                src, _why = iteration_context(c)
                src = strip_sym(src) if src is not None else None
                if src is not None and sym_is_call(src, "Iterator::chain"):
                    first, second = sym_str(src[2][0]), repr(src[2][1])
                    if "unit_suffix" in first and "('arg', 2" in second and "('arg', 2" not in repr(src[2][0]):
                        ok = True
        chk.ob("C08.c", f"{wml.path} [unit before suffix]", ok, "sample name = name [_unit] [_suffix]" if ok else "write_metric_line appends the unit after the type suffix (e.g. foo_bucket_seconds): the sample does not belong to the family named by TYPE", wml.loc())
        # ---------------- C08.g literals
        lits = set()
        for c in ps:
            a = arg_syms(c)[1]
            v = const_str(a) if c.is_("String::push_str") else const_char(a)
            if v is not None:
                lits.add(v)
        allowed = {"{", ",", "}", '="', '"', " ", "\n", "_", "ratio"}
        ok = lits <= allowed and {"{", "}", ",", " ", "\n", '="', '"'} <= lits
        chk.ob("C08.g", f"{wml.path} [literals]", ok, f"literal set {sorted(lits)}" if ok else f"write_metric_line emits literals {sorted(lits - allowed)} outside the exposition syntax, or lacks required ones {sorted({'{', '}', ',', ' ', chr(10)} - lits)}", wml.loc())
        commas = [c for c in ps if (const_char(arg_syms(c)[1]) == ",")]
        okc = len(commas) == 2
        for c in commas:
            g = gates(b, c.bb)
            okc = okc and any(isinstance(lab, bool) for d, lab in g)
        chk.ob("C08.g", f"{wml.path} [comma placement]", okc, "commas are written only under a `not first` test" if okc else "a comma can be written before the first label / unconditionally", wml.loc())
    for fname, tail_req in (("write_help_line", True), ("write_type_line", False)):
        f = p.fn(f"{FMT}::{fname}")
        if f:
            ps = [c for c in nonforeign_calls(f) if c.is_("String::push_str", "String::push")]
            seq = []
            for c in sorted(ps, key=lambda c: len(f.body.dominators()[c.bb])):
                a = arg_syms(c)[1]
                v = const_str(a) or const_char(a)
                seq.append(v if v is not None else ("name" if is_param(a, 1) else ("desc" if sym_is_call(sym_through(a, "Deref::deref", "String::as_str"), "sanitize_description") else ("type" if is_param(a, 2) else "?"))))
            want = ["# HELP ", "name", " ", "desc", "\n"] if tail_req else ["# TYPE ", "name", " ", "type", "\n"]
            # adjacent literals are one literal however they are pushed ("# " "HELP" " " == "# HELP ")
            merged = []
            for v in seq:
                if merged and v not in ("name", "desc", "type", "?") and merged[-1] not in ("name", "desc", "type", "?"):
                    merged[-1] += v
                else:
                    merged.append(v)
            seq = merged
            # what is written is the sanitiser's output as it stands: the escaped text is not edited afterwards (cutting it can
            # split a two-character escape)
            edited = False
            if tail_req:
                from props.common import _mut_borrowed

                for c in nonforeign_calls(f):
                    if c.fn is f and c.is_("formatting::sanitize_description") and not c.t["dest"].get("pr"):
                        dl = c.t["dest"]["l"]
                        # follow plain moves of the String into a named variable
                        for _ in range(4):
                            mv = [st["p"]["l"] for i_, k_, st in f.body.stmts() if st["k"] == "assign" and st["rv"]["k"] == "use" and (st["rv"]["a"].get("move") or {}).get("l") == dl and not (st["rv"]["a"].get("move") or {}).get("pr") and not st["p"].get("pr")]
                            if _mut_borrowed(f.body, dl):
                                edited = True
                            if len(mv) != 1:
                                break
                            dl = mv[0]
            if edited and seq == want:
                seq = [("desc (edited after escaping)" if v == "desc" else v) for v in seq]
            chk.ob("C08.g", f.path, seq == want, f"writes {want}" if seq == want else f"writes {seq}, expected {want} (HELP text must go through sanitize_description and be written as escaped; the line must end with a newline)", f.loc())

    # label pairs are escaped where they are emitted
    ktp = p.fn(f"{FMT}::key_to_parts")
    if need(chk, "C08.g", "formatting::key_to_parts", ktp):
        # every place key_to_parts formats a label pair — a closure of a map(), a loop body, a second `fast` path —
        # writes sanitize_label_key(k) and sanitize_label_value(v), k and v being the two halves of one label / map entry
        fmts = []
        for g_ in ktp.region():
            gs = Sym(g_)
            for c in g_.body.calls():
                if "fmt::format" in (c.resolved or c.callee or "") and strip_generics(c.resolved or c.callee or "").split("::")[-1] == "format":
                    shown = [x for x in sym_walk(gs.operand(c.args[0])) if isinstance(x, tuple) and x and x[0] == "call" and isinstance(x[1], str) and strip_generics(x[1]).split("::")[-1] in ("new_display", "new_debug")]
                    fmts.append((g_, c, shown))
        ok = bool(fmts)
        detail = "no place where a label pair is formatted was found"
        for g_, c, shown in fmts:
            def half(x, san, fld, acc):
                inner = [y for y in sym_walk(x) if isinstance(y, tuple) and y and y[0] == "call" and isinstance(y[1], str) and y[1].endswith(san)]
                if len(inner) != 1:
                    return False
                src = strip_sym(sym_through(inner[0][2][0], "Deref::deref", "String::as_str", "AsRef::as_ref"))
                if sym_is_call(src, acc):
                    return True
                return src[0] == "field" and src[2] == fld
            ok1 = len(shown) == 2 and half(shown[0], "formatting::sanitize_label_key", "0", "Label::key") and half(shown[1], "formatting::sanitize_label_value", "1", "Label::value")
            if not ok1:
                detail = f"label key sanitised at emission: {len(shown) == 2 and half(shown[0], 'formatting::sanitize_label_key', '0', 'Label::key')}, label value escaped at emission: {len(shown) == 2 and half(shown[1], 'formatting::sanitize_label_value', '1', 'Label::value')}"
            ok = ok and ok1
        # ... and the name it returns is the sanitiser's output on every path (a `nothing to replace` shortcut that tests
        # only the general character class lets a leading digit through)
        r0 = strip_sym(Sym(ktp).local(0))
        nm0 = strip_sym(r0[3][0]) if r0[0] == "agg" and r0[3] else None
        okn = nm0 is not None and sym_is_call(nm0, "formatting::sanitize_metric_name") and sym_is_call(strip_sym(nm0[2][0]), "Key::name")
        chk.ob("C08.g", f"{ktp.path} [name through the sanitiser]", okn, "name = sanitize_metric_name(key.name()) on every path" if okn else f"the series name is {sym_str(nm0)[:70] if nm0 is not None else '?'}: on some path the key's name reaches the output without passing through sanitize_metric_name (first-character rule included)", ktp.loc(), nontrivial=False)
        chk.ob("C08.g", f"{ktp.path} [every emitted label pair is sanitised]", ok, "each (k, v) of the merged map is written as sanitize_label_key(k)=\"sanitize_label_value(v)\"" if ok else f"label pairs are not sanitised where they are written ({detail}): a value that enters the merged map by another route (e.g. a global label) is emitted verbatim and can end the value early or forge a line", ktp.loc())

    # ---------------- C08.f
    DB = "metrics_exporter_prometheus::distribution::DistributionBuilder"
    gd = (p.method(DB, "get_distribution") or [None])[0]
    gt = (p.method(DB, "get_distribution_type") or [None])[0]
    if gd and gt:
        def hist_conditions(f, is_hist_block):
            """set of condition descriptors under which f reaches a histogram result"""
            b = f.body
            conds = set()
            for blk in is_hist_block:
                cs = set()
                for d, lab in gates(b, blk):
                    d = strip_sym(d)
                    if lab == "Some" and d[0] == "field" and d[2] in ("buckets", "bucket_overrides"):
                        cs.add(d[2])
                    if lab is True and sym_is_call(d, "Option<T>::is_some") and "'buckets'" in repr(d):
                        cs.add("buckets")
                    if lab is True and sym_is_call(d, "Option<T>::is_some") and "'bucket_overrides'" in repr(d):
                        cs.add("bucket_overrides")
                    if lab is True and sym_is_call(d, "Matcher::matches") and is_param(strip_sym(d)[2][1], 1):
                        cs.add("matches(name)")
                    if lab is False and sym_is_call(d, "Matcher::matches"):
                        cs.add("NOT matches(name)")
                    if lab == "None" and d[0] == "field" and d[2] in ("buckets", "bucket_overrides"):
                        cs.add("NOT " + d[2])
                conds.add(tuple(sorted(cs)))
            return conds

        def atoms(f):
            """what the decision consults at all (used when the control-flow shape is a combinator chain)"""
            out = set()
            for g in f.region():
                for c in nonforeign_calls(g):
                    if c.is_("Matcher::matches"):
                        a1 = strip_sym(arg_syms(c)[1])
                        if is_param(a1, 1) or (g is not f and "('arg', 1" in repr(a1)):
                            out.add("matches(name)")
                txt = repr([s for _, _, s in g.body.stmts()]) + repr([g.body.term(i).get("args") for i in range(g.body.n)])
                if "'f': 'bucket_overrides'" in txt:
                    out.add("bucket_overrides")
                if "'f': 'buckets'" in txt:
                    out.add("buckets")
            return out
        hb_d = [c.bb for c in gd.body.calls() if c.is_("Distribution::new_histogram")]
        sy = Sym(gt)
        hb_t = [i for i, k, s in gt.body.stmts() if s["k"] == "assign" and s["p"]["l"] == 0 and const_str(sy.rvalue(s["rv"], 0, frozenset())) == "histogram"]
        cd, ct = hist_conditions(gd, hb_d), hist_conditions(gt, hb_t)
        want = {("buckets",), ("bucket_overrides", "matches(name)")}
        ok = cd == want and ct == want
        weaker = False
        if not ok and all(x in want or x == () for x in cd | ct) and (() in cd or () in ct):
            # the conditions are not spelled as if-let / loop (e.g. find()/any()/or()): decide the part that is visible
            # in any spelling — both functions consult exactly the same three facts
            full = {"matches(name)", "bucket_overrides", "buckets"}
            ok = weaker = atoms(gd) == full and atoms(gt) == full and bool(hb_d) and bool(hb_t)
        others = {const_str(sy.rvalue(s["rv"], 0, frozenset())) for i, k, s in gt.body.stmts() if s["k"] == "assign" and s["p"]["l"] == 0} - {"histogram", None}
        ok = ok and others == {"summary"}
        chk.ob("C08.f", f"{DB} [type agrees with variant]", ok, ("histogram <=> global buckets set or an override matches the name, in both functions; otherwise summary" if not weaker else "both functions decide from the same facts (override matchers on the name, override table, global buckets); combinator spelling: the disjunction itself is not re-derived") if ok else f"get_distribution builds a histogram under {sorted(cd)} but get_distribution_type says histogram under {sorted(ct)} (other strings: {sorted(others)})", gt.loc())
    else:
        chk.unrecognised("C08.f", "<anchor> DistributionBuilder::{get_distribution,get_distribution_type}", "missing")

    # ---------------- C08.h unit text: the unit suffix is appended to a sanitised name without being sanitised itself,
    # so every string it can be must already belong to the name grammar
    import re as _re

    chk.rule("C08.h", "TBL unit text: every string unit_suffix() can return (its own literals and the literals of the metrics-crate accessor it calls) matches [a-zA-Z0-9_:]+ — it is appended to family and sample names after sanitisation", floor=2)
    us = p.fn(f"{FMT}::unit_suffix")
    mcrate = ctx.crate("metrics")
    if need(chk, "C08.h", "formatting::unit_suffix", us):
        NAMEPART = _re.compile(r"^[a-zA-Z0-9_:]+$")

        def str_outcomes(f, crate, depth=0):
            """(literals, unknown sources) a str-valued (or Option<str>-valued) function can return: the value positions of
            its result — alternatives of a phi, payloads of Some(..) — not the conditions it was chosen under."""
            lits, unknown = set(), []

            def val(x, d):
                x = strip_sym(x)
                if not isinstance(x, tuple) or not x:
                    return
                if x[0] == "phi":
                    for y in x[1]:
                        val(y, d)
                elif x[0] == "agg":
                    for y in x[3]:
                        val(y, d)
                elif x[:2] == ("const", "str"):
                    lits.add(x[2])
                elif x[0] == "const":
                    pass
                elif x[0] == "call" and "FromResidual" in x[1] and "option::Option" in x[1]:
                    pass  # `opt?` leaving early: None, no text
                elif x[0] == "call":
                    name = x[1]
                    tgt = None
                    for cr in (crate, mcrate, p):
                        if cr is not None and tgt is None:
                            tgt = next((g for g in cr.fns if g.path == strip_generics(name) or g.path == name), None)
                    if tgt is not None and d < 3:
                        l2, u2 = str_outcomes(tgt, crate, d + 1)
                        lits.update(l2)
                        unknown.extend(u2)
                    elif mcrate is None and strip_generics(name).startswith("metrics::common::Unit::as_str"):
                        # a configuration that builds this crate only: the accessor's table is decided where the
                        # `metrics` crate is part of the build (default configuration)
                        lits.add("unit_as_str")
                    else:
                        unknown.append(name)
                else:
                    unknown.append(sym_str(x)[:60])

            val(Sym(f).local(0), depth)
            return lits, unknown

        lits, unknown = str_outcomes(us, p)
        bad = sorted(x for x in lits if not NAMEPART.match(x))
        okh = bool(lits) and not bad and not unknown
        chk.ob("C08.h", us.path, okh, f"{len(lits)} possible unit texts, all within the name grammar" if okh else (f"unit_suffix can return {bad}: appended to a name these break the metric-name grammar" if bad else f"unit text comes from {unknown[:3]}, whose output is not known to be name-safe"), us.loc())
        # nothing else turns a Unit into name text: Unit's str accessors are called from unit_suffix only
        acc = sorted({(c.fn.parent or c.fn).path if c.fn.dk == "Closure" else c.fn.path for f in p.fns if "::tests::" not in f.path for c in f.body.calls() if (c.resolved or "").startswith("metrics::common::Unit::") and c.resolved.split("::")[-1] in ("as_str", "as_canonical_label")})
        oka = set(acc) <= {us.path}
        chk.ob("C08.h", "Unit -> text [who-may-call]", oka, "only unit_suffix turns a Unit into text" if oka else f"{[a for a in acc if a != us.path]} turn a Unit into text besides unit_suffix", us.loc())


def _points_to(body, op, local, depth=0):
    """operand is (a reborrow of) &mut <local>"""
    pl = op.get("move") or op.get("copy")
    if pl is None or depth > 6:
        return False
    if pl["l"] == local:
        return True
    for d in body.defs().get(pl["l"], []):
        if d[0] == "assign":
            rv = d[3]["rv"]
            if rv["k"] in ("ref", "rawptr") and rv["p"]["l"] == local:
                return True
            if rv["k"] in ("ref",) and rv["p"].get("pr") == ["*"]:
                return _points_to(body, {"copy": {"l": rv["p"]["l"]}}, local, depth + 1)
            if rv["k"] == "use":
                return _points_to(body, rv["a"], local, depth + 1)
    return False


def run_config(ctx):
    run(ctx)
