"""Helpers shared by the per-property rule modules."""
from facts import (
    Sym,
    path_is,
    strip_generics,
    strip_sym,
    sym_arg,
    sym_calls,
    sym_is_call,
    sym_str,
    sym_through,
    sym_walk,
    is_foreign_exp,
)

ORDER_RANK = {"Relaxed": 0, "Release": 1, "Acquire": 1, "AcqRel": 2, "SeqCst": 3}


def crate_stats(chk, *crates):
    for c in crates:
        if c is not None:
            chk.analysed[c.name] = c.stats()
            for line in getattr(c, "canon_log", []) or []:
                note = f"canonical names ({c.name}): {line}"
                if note not in chk.notes:
                    chk.notes.append(note)
            removed = sorted(getattr(c, "removed", []) or [])
            if removed:
                chk.analysed[c.name]["helpers_spliced_into_callers"] = len(removed)


def need(chk, rule, what, found):
    """Fail closed when an anchor cannot be found."""
    if not found:
        chk.unrecognised(rule, f"<anchor> {what}", "anchor not found in the current tree")
        return None
    return found


def one_method(chk, rule, crate, self_ty, name, trait=None):
    ms = crate.method(self_ty, name, trait)
    if len(ms) != 1:
        chk.unrecognised(rule, f"<anchor> <{self_ty} as {trait}>::{name}" if trait else f"<anchor> {self_ty}::{name}", f"expected exactly one such method, found {len(ms)}")
        return None
    return ms[0]


def nonforeign_calls(fn):
    return [c for c in fn.region_calls() if not c.foreign()]


def calls_to(fn, *suffixes):
    return [c for c in nonforeign_calls(fn) if c.is_(*suffixes)]


def trait_calls(fn, trait_suffix):
    """Call sites in the region whose *declared* callee is a method of the given trait."""
    out = []
    for c in nonforeign_calls(fn):
        tr = c.t.get("trait")
        if tr and (tr == trait_suffix or tr.endswith("::" + trait_suffix)):
            out.append(c)
    return out


def callee_method_name(c):
    n = c.t.get("callee") or ""
    return strip_generics(n).split("::")[-1]


def in_cycle(body, bb):
    """Is block bb on a CFG cycle (i.e. can it execute more than once per activation)?"""
    return bb in body.reachable_after(bb)


def ordering_of(sym):
    """Name of a std::sync::atomic::Ordering constant expression (or None)."""
    s = strip_sym(sym)
    if isinstance(s, tuple) and s:
        if s[0] == "agg" and s[5] and s[5].endswith("atomic::Ordering"):
            return s[2]
        if s[0] == "const" and s[1] == "variant":
            return s[2]
    return None


def arg_syms(cs):
    sy = Sym(cs.fn)
    return [sy.operand(a) for a in cs.args]


def atomic_ops(fn):
    """All calls to std atomic methods in the region: (callsite, method, receiver-sym, arg-syms)."""
    out = []
    for c in nonforeign_calls(fn):
        r = strip_generics(c.resolved or "")
        if "sync::atomic::Atomic" in r or r.startswith("crossbeam_epoch::atomic::Atomic") or "portable_atomic::Atomic" in r:
            m = r.split("::")[-1]
            a = arg_syms(c)
            if not a or m in ("new", "default", "from", "into_inner", "from_mut", "from_ptr"):
                continue  # constructors / by-value accessors: not operations on a shared atomic
            out.append((c, m, a[0], a))
    return out


def orderings_in(args):
    return [o for o in (ordering_of(a) for a in args) if o]


def self_field_of(sym):
    """If sym denotes `self.<field>` (through refs) returns the field name."""
    s = strip_sym(sym)
    while isinstance(s, tuple) and s and s[0] == "field":
        inner = strip_sym(s[1])
        if isinstance(inner, tuple) and inner and inner[0] == "arg" and inner[1] == 0:
            return s[2]
        s = inner
    return None


def field_path(sym):
    """('arg', i, [fields...]) for arg.f1.f2 chains (through refs/derefs/downcasts); else None."""
    s = strip_sym(sym)
    fields = []
    while isinstance(s, tuple) and s:
        if s[0] == "field":
            fields.append(s[2])
            s = strip_sym(s[1])
        elif s[0] == "downcast":
            s = strip_sym(s[1])
        elif s[0] == "arg":
            return s[1], list(reversed(fields))
        elif s[0] == "call" and s[2] and sym_is_call(s, "Deref::deref", "DerefMut::deref_mut", "Arc<T>::deref", "as_ref", "borrow"):
            s = strip_sym(s[2][0])
        else:
            return None
    return None


def loc_of(fn, line=None):
    return f"{fn.file}:{line if line else fn.line}"


def _discharged_decrement(b, bb, t):
    """The overflow check of `x - 1` cannot fail where every path to it took the true edge of `x > 0` / `x != 0` / `x >= 1`
    (or the false edge of `x == 0`) on the same variable x, unassigned in between."""
    sy = Sym(b.fn)
    sub = None
    for st in reversed(b.blocks[bb]["s"]):
        if st["k"] == "assign" and st["rv"]["k"] in ("bin", "checked_bin") and str(st["rv"].get("op", "")).startswith("Sub"):
            sub = st
            break
    if sub is None:
        return False
    rv = sub["rv"]
    one = rv["b"].get("const") or {}
    x = rv["a"].get("copy") or rv["a"].get("move") or {}
    if one.get("int") != 1 or x.get("pr") or x.get("l") is None:
        return False
    root = value_def(b, rv["a"])
    if root[0] != "var":
        return False
    X = root[1]
    for s_ in range(b.n):
        tt = b.term(s_)
        if tt["k"] != "switch" or tt.get("dty") != "bool":
            continue
        d = strip_sym(sy.operand(tt["discr"]))
        if not (d[0] == "bin" and d[1] in ("Gt", "Ne", "Ge", "Eq", "Lt")):
            continue
        dl = None
        for ii, kk, st in b.stmts():
            pass
        # the compared operand must be the variable itself at the time of the test
        ds = b.defs().get((tt["discr"].get("copy") or tt["discr"].get("move") or {}).get("l"), [])
        if len(ds) != 1 or ds[0][0] != "assign" or ds[0][3]["rv"]["k"] != "bin":
            continue
        cmp_rv = ds[0][3]["rv"]
        lhs = value_def(b, cmp_rv["a"])
        k0 = (cmp_rv["b"].get("const") or {}).get("int")
        if lhs[0] != "var" or lhs[1] != X or k0 is None:
            continue
        vals = [a["v"] for a in tt["arms"]]
        for lab, tg in b.switch_edges(s_):
            truth = (not bool(vals[0]) if len(vals) == 1 else None) if lab == "otherwise" else bool(lab)
            positive = (cmp_rv["op"] == "Gt" and k0 == 0 and truth is True) or (cmp_rv["op"] == "Ne" and k0 == 0 and truth is True) or (cmp_rv["op"] == "Ge" and k0 == 1 and truth is True) or (cmp_rv["op"] == "Eq" and k0 == 0 and truth is False) or (cmp_rv["op"] == "Lt" and k0 == 1 and truth is False)
            if positive and b.edge_dominates((s_, tg), bb):
                # no write of X between the test and the decrement
                between = b.reachable(tg, cut={bb})
                writes = [i_ for i_, k_, st in b.stmts() if i_ in between and i_ != bb and st["k"] == "assign" and st["p"]["l"] == X and not st["p"].get("pr")]
                if not writes:
                    return True
    return False


def has_panic_path(fn, allow=()):
    """Assert terminators or calls into panicking machinery in the region (foreign expansions excluded)."""
    bad = []
    for f in fn.region():
        b = f.body
        for i, blk in enumerate(b.blocks):
            t = blk.get("t") or {}
            if is_foreign_exp(t.get("exp")):
                continue
            if "debug_assert" in str(t.get("expc") or "") + str(t.get("exp") or ""):
                # the failing branch of a debug_assert!: a stated invariant, compiled out of release builds — not a way the
                # operation itself panics
                continue
            if t.get("k") == "assert":
                if "Overflow" in str(t.get("msg")) and _discharged_decrement(b, i, t):
                    continue
                bad.append((f, i, "assert:" + str(t.get("msg"))))
            elif t.get("k") == "call":
                r = strip_generics(t.get("resolved") or t.get("callee") or "")
                if any(x in r for x in ("panicking::", "::unwrap", "::expect", "unwrap_failed", "slice_index", "index::Index")) and not any(path_is(r, a) for a in allow):
                    bad.append((f, i, "call:" + r))
    return bad


def bool_switches(body):
    """Yields (bb, discr-sym, true_target, false_target) for every two-way switch on a bool."""
    sy = Sym(body.fn)
    for i in range(body.n):
        t = body.term(i)
        if t["k"] != "switch" or t.get("dty") != "bool":
            continue
        arms = {a["v"]: a["bb"] for a in t["arms"]}
        if 0 in arms:
            f_t = arms[0]
            t_t = arms.get(1, t["otherwise"])
        elif 1 in arms:
            t_t = arms[1]
            f_t = t["otherwise"]
        else:
            continue
        yield i, sy.operand(t["discr"]), t_t, f_t


def variant_edges(body, bb):
    """{variant-or-value: target} (+ 'otherwise') for a switch terminator."""
    return dict(body.switch_edges(bb))


def field_accesses(crate, adt_path, field):
    """All MIR places in the crate that project field `field` out of type `adt_path`:
    yields (fn, bb, stmt-or-term, is_write)."""
    out = []

    def scan_place(fn, bb, node, p, write):
        for e in p.get("pr") or []:
            if isinstance(e, dict) and e.get("f") == field and strip_generics(e.get("of", "")) == adt_path:
                out.append((fn, bb, node, write))

    def scan_op(fn, bb, node, op):
        p = op.get("copy") or op.get("move")
        if p:
            scan_place(fn, bb, node, p, False)

    for fn in crate.fns:
        b = fn.body
        for i, blk in enumerate(b.blocks):
            for s in blk["s"]:
                if s["k"] != "assign":
                    continue
                scan_place(fn, i, s, s["p"], True)
                rv = s["rv"]
                for key in ("a", "b"):
                    if key in rv and isinstance(rv[key], dict):
                        scan_op(fn, i, s, rv[key])
                if "p" in rv:
                    scan_place(fn, i, s, rv["p"], rv["k"] in ("ref", "rawptr") and rv.get("mut", False))
                for o in rv.get("ops", []):
                    scan_op(fn, i, s, o)
            t = blk.get("t") or {}
            for o in t.get("args", []):
                scan_op(fn, i, t, o)
            if "dest" in t:
                scan_place(fn, i, t, t["dest"], True)
            if t.get("k") == "drop":
                scan_place(fn, i, t, t["p"], False)
            if "discr" in t:
                scan_op(fn, i, t, t["discr"])
    return out


def aggregates(fn, adt_suffix, variant=None):
    """Aggregate constructions of the ADT in the region: (fn, bb, stmt-index, stmt)."""
    out = []
    for f in fn.region():
        for i, k, s in f.body.stmts():
            if s["k"] == "assign" and s["rv"]["k"] == "agg" and path_is(s["rv"].get("adt"), adt_suffix) and (variant is None or s["rv"].get("variant") == variant):
                out.append((f, i, k, s))
    return out


# ---------------------------------------------------------------------------------------------
# gates: which switch edges dominate a block
# ---------------------------------------------------------------------------------------------
def gates(body, bb, up=True):
    """[(discr-sym, label)] for every switch edge that every path from entry to bb must take.
    For enum switches `otherwise` is renamed to the single uncovered variant when there is one;
    for bool switches labels are True/False."""
    sy = Sym(body.fn)
    out = []
    for s in range(body.n):
        t = body.term(s)
        if t["k"] != "switch":
            continue
        labels = body.switch_edges(s)
        for label, target in labels:
            if not body.edge_dominates((s, target), bb):
                continue
            lab = label
            if t.get("dty") == "bool":
                vals = [a["v"] for a in t["arms"]]
                if label == "otherwise":
                    lab = not bool(vals[0]) if len(vals) == 1 else "otherwise"
                else:
                    lab = bool(label)
            elif label == "otherwise" and t.get("all_variants"):
                covered = {a.get("variant") for a in t["arms"]}
                rest = [v for v in t["all_variants"] if v not in covered]
                if len(rest) == 1:
                    lab = rest[0]
                else:
                    lab = ("not", tuple(sorted(x for x in covered if x)))
            d = sy.operand(t["discr"])
            d = strip_sym(d)
            if d and d[0] == "discr":
                d = strip_sym(d[1])
            out.append((d, lab))
    # a closure body runs under the conditions under which the closure was created in its parent
    fn = body.fn
    par = getattr(fn, "parent", None)
    if up and par is not None and fn.dk == "Closure":
        for i, k, st in par.body.stmts():
            if st["k"] == "assign" and st["rv"]["k"] == "agg" and st["rv"].get("closure") == fn.path:
                out.extend(gates(par.body, i))
                break
    return out


def gate_has(gs, pred, label):
    return any(lab == label and pred(d) for d, lab in gs)


# ---------------------------------------------------------------------------------------------
# kind consistency
# ---------------------------------------------------------------------------------------------
import re
import facts

KIND_RE = re.compile(r"(counter|gauge|histogram)", re.I)


def kinds_in(s):
    return {m.lower() for m in KIND_RE.findall(s or "")}


def kind_of_name(name):
    ks = kinds_in(name)
    return next(iter(ks)) if len(ks) == 1 else None


def region_tokens(fn):
    """Kind-bearing identifiers used in a function region: callee paths (last two segments), field
    names, aggregate/const variant names, statics.  Yields (token, line)."""
    for f in fn.region():
        b = f.body
        live = b.live_blocks()
        for i, blk in enumerate(b.blocks):
            if i not in live:
                continue
            for s in blk["s"]:
                if s["k"] != "assign" or is_foreign_exp(s.get("exp")):
                    continue
                yield from _place_tokens(s["p"], s.get("ln"))
                rv = s["rv"]
                if rv["k"] == "agg":
                    if rv.get("adt"):
                        yield (rv["adt"].split("::")[-1] + "::" + (rv.get("variant") or ""), s.get("ln"))
                    for o in rv.get("ops", []):
                        yield from _op_tokens(o, s.get("ln"))
                for key in ("a", "b"):
                    if isinstance(rv.get(key), dict):
                        yield from _op_tokens(rv[key], s.get("ln"))
                if "p" in rv:
                    yield from _place_tokens(rv["p"], s.get("ln"))
            t = blk.get("t") or {}
            if is_foreign_exp(t.get("exp")):
                continue
            if t.get("k") == "call":
                n = strip_generics(t.get("resolved") or t.get("callee") or "")
                segs = n.split("::")
                yield ("::".join(segs[-2:]), t.get("ln"))
                dn = strip_generics(t.get("callee") or "")
                if dn and dn != n:
                    yield ("::".join(dn.split("::")[-2:]), t.get("ln"))
                for o in t.get("args", []):
                    yield from _op_tokens(o, t.get("ln"))
                yield from _place_tokens(t["dest"], t.get("ln"))
            elif t.get("k") == "switch":
                for a in t["arms"]:
                    if a.get("variant") and t.get("enum"):
                        yield (t["enum"].split("::")[-1] + "::" + a["variant"], t.get("ln"))


def _place_tokens(p, ln):
    for e in p.get("pr") or []:
        if isinstance(e, dict) and "f" in e:
            yield ("." + e["f"], ln)
        if isinstance(e, dict) and "as" in e:
            yield ("@" + e["as"], ln)


def _op_tokens(o, ln):
    p = o.get("copy") or o.get("move")
    if p:
        yield from _place_tokens(p, ln)
    c = o.get("const")
    if c:
        for k in ("fn", "static", "named", "variant", "closure"):
            if c.get(k):
                v = str(c[k])
                if k == "variant":
                    v = c.get("ty", "").split("::")[-1] + "::" + v
                else:
                    v = "::".join(strip_generics(v).split("::")[-2:])
                yield (v, ln)
        if "str" in c:
            yield ('"' + c["str"] + '"', ln)


def kind_consistent(chk, rule, fn, kind, allow=()):
    """Every kind-bearing identifier in fn's region names `kind` (tokens in `allow` are exempt)."""
    bad = []
    n = 0
    for tok, ln in region_tokens(fn):
        ks = kinds_in(tok)
        if not ks:
            continue
        n += 1
        if any(a in tok for a in allow):
            continue
        if ks != {kind}:
            bad.append((tok, ln))
    ok = not bad
    chk.ob(rule, f"{fn.path} [kind={kind}]", ok, f"all {n} kind-bearing identifiers name {kind}" if ok else f"identifier {bad[0][0]!r} names another kind inside a {kind} function", f"{fn.file}:{bad[0][1] if bad else fn.line}")
    return ok


def region_signature(fn):
    """Multiset of kind-normalised tokens + CFG shape; siblings of a kind triplet must agree."""
    from collections import Counter

    c = Counter()
    for tok, _ in region_tokens(fn):
        c[KIND_RE.sub(lambda m: "K" if m.group(0)[0].islower() else "K", tok)] += 1
    nsw = 0
    ncalls = 0
    for f in fn.region():
        for i in range(f.body.n):
            t = f.body.term(i)
            if is_foreign_exp(t.get("exp")):
                continue
            if t["k"] == "switch":
                nsw += 1
            if t["k"] == "call":
                ncalls += 1
    c["<switches>"] = nsw
    c["<calls>"] = ncalls
    return c


def _call_signature(fn):
    """Multiset of kind-normalised callee names and named fields used in the region (no literals, no switch counts)."""
    from collections import Counter

    c = Counter()
    for f in fn.region():
        b = f.body
        live = b.live_blocks()
        for i, blk in enumerate(b.blocks):
            if i not in live:
                continue
            t = blk.get("t") or {}
            if t.get("k") == "call" and not is_foreign_exp(t.get("exp")):
                n = strip_generics(t.get("resolved") or t.get("callee") or "")
                c[KIND_RE.sub("K", "::".join(n.split("::")[-2:]))] += 1
            for st in blk["s"]:
                if st["k"] == "assign" and not is_foreign_exp(st.get("exp")):
                    for pl in (st["p"], st["rv"].get("p") or {}):
                        for e in pl.get("pr") or []:
                            if isinstance(e, dict) and "f" in e and not str(e["f"]).isdigit():
                                c["." + KIND_RE.sub("K", str(e["f"]))] += 0  # presence only
                                c["." + KIND_RE.sub("K", str(e["f"]))] = 1
    return c


def siblings_isomorphic(chk, rule, fns_by_kind, what, advisory=False):
    """fns_by_kind: {kind: fn}; all region signatures must be equal modulo the kind substitution.  With advisory=True a
    structural difference is recorded but does not fail: every sibling of the family is then decided on its own by the
    per-function rules of the caller (one sibling restructured by hand is not a defect)."""
    kinds = sorted(fns_by_kind)
    if len(kinds) < 2:
        return
    sigs = {k: region_signature(f) for k, f in fns_by_kind.items()}
    ref_k = kinds[0]
    for k in kinds[1:]:
        a, b = sigs[ref_k], sigs[k]
        if a == b:
            chk.ob(rule, f"{what} [{ref_k}~{k}]", True, f"{fns_by_kind[ref_k].name} and {fns_by_kind[k].name} are isomorphic modulo the kind substitution ({sum(a.values())} tokens)", fns_by_kind[k].loc())
        else:
            # one sibling may spell its control flow differently (an early return, `match` for `if let`): what must agree
            # is what the siblings do — the same operations the same number of times, on their own kind's state
            ca, cb = _call_signature(fns_by_kind[ref_k]), _call_signature(fns_by_kind[k])
            if ca == cb and sum(ca.values()):
                chk.ob(rule, f"{what} [{ref_k}~{k}]", True, f"{fns_by_kind[ref_k].name} and {fns_by_kind[k].name} perform the same operations modulo the kind substitution ({sum(ca.values())} calls / field uses; control flow spelled differently)", fns_by_kind[k].loc())
                continue
            diff = sorted(set((a - b).keys()) | set((b - a).keys()))
            if advisory:
                chk.ob(rule, f"{what} [{ref_k}~{k}]", True, f"{fns_by_kind[ref_k].name} and {fns_by_kind[k].name} are written differently ({diff[:3]}); each is decided on its own by the per-function obligations of this family", fns_by_kind[k].loc(), nontrivial=False)
                continue
            chk.ob(rule, f"{what} [{ref_k}~{k}]", False, f"{fns_by_kind[ref_k].name} vs {fns_by_kind[k].name} differ in {diff[:4]}", fns_by_kind[k].loc())


RECORDER_METHODS = ["describe_counter", "describe_gauge", "describe_histogram", "register_counter", "register_gauge", "register_histogram"]


def recorder_impls(crate):
    """{self_ty: {method: fn}} for every non-derived `impl Recorder for X` in the crate."""
    out = {}
    for f in crate.fns:
        tr = f.j.get("impl_trait") or ""
        if tr == "metrics::recorder::Recorder" and f.name in RECORDER_METHODS:
            out.setdefault((f.j["impl_self"], f.j.get("impl_path")), {})[f.name] = f
    return out


def recorder_forward(chk, rule, fn, through=("Deref::deref",), args_from=1, allow_extra_calls=None, same_trait="Recorder", arg_through=None, expect_sites=None):
    """fn (a Recorder method) calls the same-named Recorder method exactly once per inner recorder
    (call site count 1 unless on a loop), arguments = its own parameters in order."""
    name = fn.name
    tcs = [c for c in nonforeign_calls(fn) if (c.t.get("trait") or "").endswith("recorder::Recorder")]
    where = fn.path
    if not tcs:
        return chk.ob(rule, where, False, "no call of an inner Recorder method", fn.loc())
    bad = [c for c in tcs if callee_method_name(c) != name]
    if bad:
        return chk.ob(rule, where, False, f"calls Recorder::{callee_method_name(bad[0])} — expected Recorder::{name}", bad[0].loc())
    sy_cache = {}
    for c in tcs:
        sy = sy_cache.setdefault(c.fn.path, Sym(c.fn))
        for i in range(1, len(c.args)):
            s = strip_sym(sy.operand(c.args[i]))
            if arg_through and i in arg_through:
                s0 = s
                s = strip_sym(s)
                if s[0] == "call" and sym_is_call(s, *arg_through[i]):
                    # transformer(self, original-arg) or transformer(original-arg)
                    s = strip_sym(s[2][-1])
                elif arg_through.get(("required", i)):
                    return chk.ob(rule, where, False, f"argument {i} is {sym_str(s0)}: not passed through {arg_through[i]}", c.loc())
            s = sym_through(s, "Clone::clone")
            a = sym_arg(s)
            if a is None or a[0] != i:
                return chk.ob(rule, where, False, f"argument {i} of the inner {name} call is {sym_str(s)}, expected parameter #{i} unchanged", c.loc())
    if expect_sites is not None and len(tcs) != expect_sites:
        return chk.ob(rule, where, False, f"{len(tcs)} call sites of the inner Recorder::{name}, expected {expect_sites}", fn.loc())
    return chk.ob(rule, where, True, f"forwards to Recorder::{name} with its parameters unchanged ({len(tcs)} call site)", fn.loc())


# ---------------------------------------------------------------------------------------------
# per-variant arm analysis of a `match` on an enum
# ---------------------------------------------------------------------------------------------
def enum_switches(fn, enum_suffix):
    b = fn.body
    return [i for i in range(b.n) if b.term(i)["k"] == "switch" and strip_generics(b.term(i).get("enum") or "").endswith(enum_suffix)]


def enum_arms(fn, enum_suffix, which=0):
    """{variant: {'blocks', 'calls', 'ret'}} for the `which`-th switch on the enum in fn (None if absent)."""
    sws = enum_switches(fn, enum_suffix)
    if len(sws) <= which:
        return None
    b = fn.body
    sw = sws[which]
    t = b.term(sw)
    edges = {a["variant"]: a["bb"] for a in t["arms"] if a.get("variant")}
    rest = [v for v in (t.get("all_variants") or []) if v not in edges]
    if len(rest) == 1 and b.term(t["otherwise"])["k"] != "unreachable":
        edges[rest[0]] = t["otherwise"]
    sy = Sym(fn)
    out = {}
    # the result slot: _0 and the locals whose value is only ever copied on into it (the return slot of a spliced helper)
    rs = {0}
    for _ in range(4):
        for i, k, s in b.stmts():
            if s["k"] == "assign" and s["p"]["l"] in rs and not s["p"].get("pr") and s["rv"]["k"] == "use":
                q = s["rv"]["a"].get("move") or s["rv"]["a"].get("copy")
                if q is not None and not q.get("pr") and q["l"] > b.argc:
                    rs.add(q["l"])
    for v, tgt in edges.items():
        blocks = {x for x in b.reachable(tgt) if b.edge_dominates((sw, tgt), x)}
        calls = [c for c in fn.body.calls() if c.bb in blocks]
        rets = []
        for i in sorted(blocks):
            for s in b.blocks[i]["s"]:
                if s["k"] == "assign" and s["p"]["l"] in rs and not s["p"].get("pr"):
                    q = (s["rv"].get("a") or {}).get("move") or (s["rv"].get("a") or {}).get("copy") if s["rv"]["k"] == "use" else None
                    if q is not None and not q.get("pr") and q["l"] in rs:
                        continue  # the hand-over itself
                    rets.append(strip_sym(sy.rvalue(s["rv"], 0, frozenset())))
            tt = b.term(i)
            if tt["k"] == "call" and tt["dest"]["l"] in rs and not tt["dest"].get("pr"):
                rets.append(("call", tt.get("resolved") or tt.get("callee") or "?", tuple(sy.operand(a) for a in tt["args"]), tt.get("callee")))
        out[v] = {"blocks": blocks, "calls": calls, "ret": rets[0] if len(rets) == 1 else (("phi", tuple(rets)) if rets else None), "target": tgt}
    out["__switch__"] = sw
    return out


def drop_blocks_of(body, local):
    """Blocks that drop `local` or a local it is moved into (Drop terminators and mem::drop calls)."""
    alias = {local}
    changed = True
    while changed:
        changed = False
        for i, k, s in body.stmts():
            if s["k"] == "assign" and not s["p"].get("pr") and s["rv"]["k"] == "use":
                p = s["rv"]["a"].get("move")
                if p and p["l"] in alias and not p.get("pr") and s["p"]["l"] not in alias:
                    alias.add(s["p"]["l"])
                    changed = True
    out = set()
    for i in range(body.n):
        t = body.term(i)
        if t["k"] == "drop" and t["p"]["l"] in alias and not t["p"].get("pr"):
            out.add(i)
        elif t["k"] == "call" and path_is(t.get("callee"), "mem::drop"):
            for a in t["args"]:
                p = a.get("move")
                if p and p["l"] in alias and not p.get("pr"):
                    out.add(i)
    return out


ITER_VIEWS = ("<impl [T]>::iter", "slice::<impl [T]>::iter", "IntoIterator::into_iter", "Deref::deref", "Vec<T, A>::as_slice", "Vec<T, A>::iter", "AsRef::as_ref", "Borrow::borrow")


def iteration_context(cs):
    """Decides whether call site `cs` runs exactly once for every element of one iterated source, for the two ways the
    repository (and ordinary refactorings of it) write that: a `for` loop, or `<iter>.for_each(closure)`.
    Returns (source_sym, None) on success — source_sym with the view calls (iter/into_iter/deref/as_slice) removed, so
    adaptors such as take/skip/filter/rev stay visible — or (None, reason)."""
    body = cs.body
    fn = cs.fn
    sy = Sym(fn)
    if in_cycle(body, cs.bb):
        nxt = [c for c in body.calls() if c.is_("Iterator::next") and not c.foreign()]
        gate = None
        for n in nxt:
            if n.t.get("target") is None:
                continue
            edges = dict(body.switch_edges(n.t["target"])) if body.term(n.t["target"])["k"] == "switch" else {}
            some = edges.get("Some")
            if some is None and "None" in edges and "otherwise" in edges:
                some = edges["otherwise"]
            if some is not None and body.edge_dominates((n.t["target"], some), cs.bb) and n.bb in body.reachable(cs.bb):
                gate = (n, some)
        if gate is None:
            return None, "the call is on a loop that is not a `for` over an iterator"
        n, some = gate
        # every iteration reaches the call: from the Some edge the loop head is not reachable without passing the call
        if n.bb in body.reachable(some, cut={cs.bb}):
            return None, "an iteration can skip the call (continue / conditional)"
        # the loop is left only when the iterator is exhausted
        # the body of *this* loop (not of a loop it is nested in): what is reachable from the Some edge without taking the
        # iterator's exhausted edge
        sw_ = n.t["target"]
        none_tgts = {tg for lab, tg in body.switch_edges(sw_) if tg != some} if body.term(sw_)["k"] == "switch" else set()
        cyc = body.reachable(some, cut=none_tgts) | {n.bb, sw_}
        cyc = {x for x in cyc if n.bb in body.reachable(x) or x in (n.bb, sw_)} | {x for x in cyc if body.term(x)["k"] in ("return",)}
        for x in cyc:
            for s_ in body.succ(x):
                if s_ in cyc or body.term(s_)["k"] == "unreachable":
                    continue
                if x == sw_:
                    continue  # the None edge of this iterator
                if not any(body.term(y)["k"] == "return" for y in body.reachable(s_)):
                    continue  # a way out that never returns (the failing branch of an assertion) is not a `break`
                return None, "the loop can be left before the iterator is exhausted (break/return inside the loop)"
            if body.term(x)["k"] == "return":
                return None, "the loop can be left before the iterator is exhausted (break/return inside the loop)"
        it = strip_sym(sy.operand(n.args[0]))
        src = sym_through(it, *ITER_VIEWS)
        return src, None
    # closure given to for_each
    par = getattr(fn, "parent", None)
    if fn.dk == "Closure" and par is not None:
        rets = [r for r in body.return_blocks() if r in body.reachable(0, cut={cs.bb})]
        if rets:
            return None, "the closure can return without making the call"
        psy = Sym(par)
        for c in par.body.calls():
            if c.is_("Iterator::for_each") and not c.foreign():
                a = [psy.operand(x) for x in c.args]
                cl = strip_sym(a[1]) if len(a) > 1 else None
                if cl and cl[0] == "agg" and cl[1] == "closure" and cl[5] == fn.path:
                    if in_cycle(par.body, c.bb):
                        return None, "for_each itself sits on a loop"
                    return sym_through(a[0], *ITER_VIEWS), None
        # a closure handed to a helper that calls it once per element (`for (k, v) in other { f(map, k, v) }`)
        for g_ in par.region():
            gsy = Sym(g_)
            for c in g_.body.calls():
                if c.is_("Fn::call", "FnMut::call_mut", "FnOnce::call_once") and not c.foreign():
                    tgt = strip_sym(gsy.operand(c.args[0]))
                    if tgt[0] == "agg" and tgt[1] == "closure" and tgt[5] == fn.path:
                        return iteration_context(c)
        return None, "the enclosing closure is not the argument of Iterator::for_each"
    return None, "the call is not inside a loop or a for_each closure"


def cas_flow(fn, cas_call):
    """P = "the compare_exchange of this call succeeded" propagated over fn's body (helpers spliced in)."""
    return result_flow(fn, "compare_exchange", "compare_exchange_weak", "fetch_update")


def result_flow(fn, *callee_suffixes):
    """P = "the Result returned by the call to one of `callee_suffixes` is Ok" propagated over fn's body, whichever way the
    result is inspected: match, if let, is_ok()/is_err(), == Ok(..), `?`."""

    def is_cas(s):
        s = strip_sym(s)
        if not (isinstance(s, tuple) and s and s[0] == "call"):
            return False
        return any(isinstance(n, str) and any(path_is(n, suf) for suf in callee_suffixes) for n in (s[1], s[3]))

    def csw(subj, variant):
        if is_cas(subj):
            return {"Ok": "P", "Err": "N"}.get(variant)
        return None

    def cbool(s):
        s = strip_sym(s)
        if not (isinstance(s, tuple) and s and s[0] == "call" and isinstance(s[1], str)):
            return None
        a0 = strip_sym(s[2][0]) if s[2] else None
        if a0 is None or not is_cas(a0):
            return None
        if path_is(s[1], "Result<T, E>::is_ok"):
            return ("P", "N")
        if path_is(s[1], "Result<T, E>::is_err"):
            return ("N", "P")
        other = strip_sym(s[2][1]) if len(s[2]) > 1 else None
        is_ok_lit = other is not None and other[0] == "agg" and other[2] == "Ok"
        if is_ok_lit and (path_is(s[1], "PartialEq::eq") or s[1].endswith("::eq")):
            return ("P", "T")
        if is_ok_lit and (path_is(s[1], "PartialEq::ne") or s[1].endswith("::ne")):
            return ("T", "P")
        return None

    return facts.PredFlow(fn, csw, cbool)




def _single_def_of(b, l):
    ds = b.defs().get(l, [])
    return ds[0] if len(ds) == 1 else None


def value_def(b, op, depth=0):
    """The defining statement/terminator of an operand's value, through single-definition copies and casts:
    ('const', op) | ('var', local) for a multiply-assigned/parameter local | ('call', bb, term) | ('rv', bb, rvalue)."""
    if "const" in op:
        return ("const", op)
    pl = op.get("copy") or op.get("move")
    if pl is None:
        return ("unknown", op)
    if [e for e in (pl.get("pr") or [])]:
        return ("place", pl)
    l = pl["l"]
    if 1 <= l <= b.argc:
        return ("var", l)
    d = _single_def_of(b, l)
    if d is None or _mut_borrowed(b, l):
        return ("var", l)  # assigned more than once, or updated in place through `&mut` (x += y on a non-Copy-by-value operand)
    if d[0] == "call":
        return ("call", d[1], d[3])
    rv = d[3]["rv"]
    if rv["k"] == "use" and depth < 8:
        return value_def(b, rv["a"], depth + 1)
    return ("rv", d[1], rv)


def _mut_borrowed(b, l):
    cache = b.__dict__.setdefault("_mut_borrowed_cache", None)
    if cache is None:
        cache = set()
        for i, k, st in b.stmts():
            if st["k"] == "assign" and st["rv"]["k"] in ("ref", "rawptr") and st["rv"].get("mut") and "*" not in (st["rv"]["p"].get("pr") or []):
                cache.add(st["rv"]["p"]["l"])
        b.__dict__["_mut_borrowed_cache"] = cache
    return l in cache


def cas_loop(fn, binop, value_param=1, field=None):
    """Decides an open-coded compare-exchange retry loop `cur = self.load(); loop { new = to_bits(from_bits(cur) OP value);
    match self.compare_exchange[_weak](cur, new, ..) { Ok => break, Err(x) => cur = x } }` on the receiver `self`:
    (ok, why).  What is required is what makes no update lost: the new value is recomputed in every iteration from the
    very variable that is the expected value of the same attempt, that variable only ever holds what was atomically read
    from self (a load, or the failed attempt's payload), and the function returns only after an attempt succeeded."""
    b = fn.body
    ops = atomic_ops(fn)
    if field is not None:
        # only the operations on self.<field> make up the loop; other atomics of the type (an update counter) are not its business
        ops = [o for o in ops if (lambda r: isinstance(r, tuple) and r and r[0] == "field" and r[2] == field)(strip_sym(sym_through(o[2], "Deref::deref")))]
    cas = [o for o in ops if o[1] in ("compare_exchange", "compare_exchange_weak") and o[0].fn is fn]
    loads = [o for o in ops if o[1] == "load" and o[0].fn is fn]
    if len(cas) != 1 or len(cas) + len(loads) != len(ops):
        return False, f"atomic ops {[o[1] for o in ops]}"
    c = cas[0][0]
    if not in_cycle(b, c.bb):
        return False, "the compare-exchange is not retried"
    if field is None and ((sym_arg(strip_sym(cas[0][2])) or (None,))[0] != 0 or any((sym_arg(strip_sym(o[2])) or (None,))[0] != 0 for o in loads)):
        return False, "atomic operations on something other than self"
    exp = value_def(b, c.args[1])
    if exp[0] != "var":
        return False, "the expected value is not a variable carried round the loop"
    V = exp[1]
    # every definition of V is an atomic read of self
    for d in b.defs().get(V, []):
        if d[0] == "call":
            if not path_is(d[3].get("resolved") or d[3].get("callee") or "", "load"):
                return False, f"the expected value is assigned from {d[3].get('callee')}"
        else:
            rv = d[3]["rv"]
            src = rv.get("a", {}).get("copy") or rv.get("a", {}).get("move") if rv["k"] == "use" else None
            ok_src = src is not None and src["l"] == c.t["dest"]["l"] and any(isinstance(e, dict) and e.get("variant") == "Err" or e == "Err" or (isinstance(e, dict) and e.get("downcast") == "Err") for e in (src.get("pr") or []))
            if not ok_src:
                # through a binding local: `Err(observed) => cur = observed`
                dd = value_def(b, rv["a"]) if rv["k"] == "use" else None
                ok_src = bool(dd) and dd[0] == "place" and dd[1]["l"] == c.t["dest"]["l"] and "Err" in repr(dd[1].get("pr"))
            if not ok_src:
                return False, "the expected value is assigned something that was not atomically read from self"
    if binop == "Max":
        # new = max(V, value), computed inside the loop: a call to max, or `if V < value { value } else { V }`
        nd = value_def(b, c.args[2])
        okm = False
        if nd[0] == "call" and strip_generics(nd[2].get("resolved") or "").split("::")[-1] == "max" and in_cycle(b, nd[1]):
            okm = {value_def(b, a) for a in nd[2]["args"]} == {("var", V), ("var", value_param + 1)}
        elif nd[0] == "var":
            R = nd[1]
            ds = b.defs().get(R, [])
            srcs = {}
            for d in ds:
                if d[0] == "assign" and d[3]["rv"]["k"] == "use" and in_cycle(b, d[1]):
                    srcs[value_def(b, d[3]["rv"]["a"])] = d[1]
            if set(srcs) == {("var", V), ("var", value_param + 1)} and len(ds) == 2:
                want_value = srcs[("var", value_param + 1)]
                sy_ = Sym(fn)
                for dd, lab in gates(b, want_value):
                    dd = strip_sym(dd)
                    if dd[0] == "bin" and dd[1] in ("Lt", "Le", "Gt", "Ge") and isinstance(lab, bool):
                        av, bv = sym_arg(strip_sym(dd[2])), sym_arg(strip_sym(dd[3]))
                        a_is_value = av is not None and av[0] == value_param
                        b_is_value = bv is not None and bv[0] == value_param
                        if a_is_value == b_is_value:
                            continue
                        value_bigger = (dd[1] in ("Gt", "Ge")) == a_is_value
                        okm = okm or (value_bigger == lab)
        if not okm:
            return False, "the new value is not max(observed, value) computed inside the retry loop"
        fl = cas_flow(fn, c)
        rets = [r for r in b.return_blocks() if not b.blocks[r].get("cleanup")]
        if not rets or any(fl.at(r) != "P" for r in rets):
            return False, "the function can return without a successful compare-exchange"
        return True, "load; loop { compare_exchange(cur, max(cur, value)) } until Ok"
    # new = to_bits(OP(from_bits(V), value)), computed inside the loop
    nd = value_def(b, c.args[2])
    if not (nd[0] == "call" and path_is(nd[2].get("resolved") or "", "to_bits") and in_cycle(b, nd[1])):
        return False, "the new value is not to_bits(..) computed inside the retry loop (a value computed once before the loop goes stale)"
    od = value_def(b, nd[2]["args"][0])
    if not (od[0] == "rv" and od[2]["k"] == "bin" and od[2]["op"] in (binop, binop + "Unchecked") and in_cycle(b, od[1])):
        return False, f"the new value is not from_bits(current) {binop} value computed inside the retry loop"
    fd = value_def(b, od[2]["a"])
    vd = value_def(b, od[2]["b"])
    if not (fd[0] == "call" and path_is(fd[2].get("resolved") or "", "from_bits") and in_cycle(b, fd[1]) and value_def(b, fd[2]["args"][0]) == ("var", V)):
        return False, "the new value is not computed from the expected value of the same attempt"
    if vd != ("var", value_param + 1):
        # the delta may reach the loop through a closure that was spliced in (`update(|v| v + value)`)
        sd = strip_sym(Sym(fn).operand(od[2]["b"]))
        while isinstance(sd, tuple) and sd and sd[0] in ("capture", "ref", "deref"):
            sd = strip_sym(sd[2] if sd[0] == "capture" and len(sd) > 2 and isinstance(sd[2], tuple) else sd[1]) if isinstance(sd[1] if sd[0] != "capture" else sd[2] if len(sd) > 2 else None, tuple) else None
        a_ = sym_arg(sd) if sd is not None else None
        if a_ is None or a_[0] != value_param:
            return False, "the delta is not the value parameter"
    fl = cas_flow(fn, c)
    rets = [r for r in b.return_blocks() if not b.blocks[r].get("cleanup")]
    if not rets or any(fl.at(r) != "P" for r in rets):
        return False, "the function can return without a successful compare-exchange"
    return True, f"load; loop {{ compare_exchange(cur, to_bits(from_bits(cur) {binop} value)) }} until Ok"


INC_CALLS = ("checked_add", "wrapping_add", "saturating_add", "unwrap", "expect", "unwrap_or", "add", "add_assign", "from", "into")


def is_increment(s):
    """A symbolic value of the shape old + 1 (possibly re-wrapped / overflow-checked): decided on the structure of the
    value from the top, so whatever `old` is made of does not matter."""
    def one(y):
        y = strip_sym(y)
        return isinstance(y, tuple) and y[:2] == ("const", "int") and y[2] == 1

    s = strip_sym(s)
    for _ in range(8):
        if not isinstance(s, tuple) or not s:
            return False
        if s[0] == "field":
            s = strip_sym(s[1])
        elif s[0] == "agg" and len(s[3]) == 1:
            s = strip_sym(s[3][0])
        elif s[0] == "cast":
            s = strip_sym(s[1])
        elif s[0] == "call" and isinstance(s[1], str) and strip_generics(s[1]).split("::")[-1] in ("unwrap", "expect", "unwrap_or", "unwrap_or_default", "from", "into") and s[2]:
            s = strip_sym(s[2][0])
        else:
            break
    if s[0] == "bin" and s[1] in ("Add", "AddWithOverflow", "AddUnchecked"):
        return one(s[2]) or one(s[3])
    if s[0] == "call" and isinstance(s[1], str) and strip_generics(s[1]).split("::")[-1] in ("checked_add", "wrapping_add", "saturating_add", "add") and len(s[2]) == 2:
        return one(s[2][1]) or one(s[2][0])
    return False


def pointers_to(b, L):
    """Locals that hold `&mut L` (or a reborrow / move of such a pointer)."""
    ptrs = set()
    for i, k, st in b.stmts():
        if st["k"] == "assign" and st["rv"]["k"] in ("ref", "rawptr") and st["rv"].get("mut") and st["rv"]["p"]["l"] == L and "*" not in (st["rv"]["p"].get("pr") or []):
            ptrs.add(st["p"]["l"])
    for _ in range(3):
        for i, k, st in b.stmts():
            if st["k"] != "assign":
                continue
            if st["rv"]["k"] in ("ref", "rawptr") and st["rv"].get("mut") and st["rv"]["p"]["l"] in ptrs and "*" in (st["rv"]["p"].get("pr") or []):
                ptrs.add(st["p"]["l"])
            if st["rv"]["k"] == "use" and (st["rv"]["a"].get("move") or {}).get("l") in ptrs and not st["rv"]["a"]["move"].get("pr"):
                ptrs.add(st["p"]["l"])
    return ptrs


def field_increments(fn, field):
    """Blocks of fn in which the counter that ends up in field `field` of fn's returned struct is advanced by one:
    [(bb, line)], or None when the returned value's field cannot be traced to one counter.  The counter is either a field of
    a local struct that is returned (`result.field += 1`, also through a spliced `&mut self` helper), or a local integer
    that the returned struct literal is built from (`Struct { field: n, .. }`)."""
    b = fn.body
    sy = Sym(fn)
    ret_defs = [d for d in b.defs().get(0, []) if d[0] == "assign"]
    if len(ret_defs) > 1:
        # several return sites handing back the same local (`if nothing_left { return result; } ...; result`)
        srcs = {((d[3]["rv"]["a"].get("move") or d[3]["rv"]["a"].get("copy") or {}).get("l") if d[3]["rv"]["k"] == "use" and not (d[3]["rv"]["a"].get("move") or d[3]["rv"]["a"].get("copy") or {"pr": 1}).get("pr") else None) for d in ret_defs}
        if len(srcs) == 1 and None not in srcs:
            ret_defs = ret_defs[:1]
    if len(ret_defs) != 1:
        return None
    rv = ret_defs[0][3]["rv"]
    target = None  # (local, field-or-None)
    if rv["k"] == "use":
        vd = rv["a"].get("move") or rv["a"].get("copy")
        if vd is None or vd.get("pr"):
            return None
        l = vd["l"]
        for _ in range(6):
            d = _single_def_of(b, l)
            if d is not None and d[0] == "assign" and d[3]["rv"]["k"] == "use" and not (d[3]["rv"]["a"].get("move") or d[3]["rv"]["a"].get("copy") or {"pr": 1}).get("pr"):
                l = (d[3]["rv"]["a"].get("move") or d[3]["rv"]["a"].get("copy"))["l"]
            else:
                break
        d = _single_def_of(b, l)
        if d is not None and d[0] == "assign" and d[3]["rv"]["k"] == "agg" and field in (d[3]["rv"].get("fields") or []) and not [1 for i_, k_, st in b.stmts() if st["k"] == "assign" and st["p"]["l"] == l and st["p"].get("pr")] and not pointers_to(b, l):
            rv = d[3]["rv"]  # a struct literal bound to a local and returned unchanged
        else:
            target = (l, field)
    if target is None:
        if rv["k"] != "agg" or field not in (rv.get("fields") or []):
            return None
        op = rv["ops"][rv["fields"].index(field)]
        vd = value_def(b, op)
        if vd[0] != "var":
            return None
        target = (vd[1], None)
    L, fld = target
    ptrs = pointers_to(b, L)
    out = []
    for i, k, st in b.stmts():
        if st["k"] != "assign":
            continue
        pl = st["p"]
        pr = pl.get("pr") or []
        names = [e.get("f") for e in pr if isinstance(e, dict) and "f" in e]
        hit = False
        if pl["l"] == L and "*" not in pr:
            hit = (fld is None and not pr) or (fld is not None and names == [fld])
        elif pl["l"] in ptrs and "*" in pr:
            hit = (fld is None and not names) or (fld is not None and names == [fld])
        if not hit or not in_any_code(b, i):
            continue
        v = sy.rvalue(st["rv"], 0, frozenset())
        if is_increment(v):
            out.append((i, st.get("ln", 0)))
        elif not (st["rv"]["k"] == "use" and "const" in st["rv"]["a"]) and not st["rv"]["k"] == "agg":
            out.append((i, -st.get("ln", 0)))  # a write that is not an increment (negative line = flagged by callers)
    return out


def in_any_code(b, i):
    return i in b.live_blocks() if hasattr(b, "live_blocks") else True


CONVERSIONS = (
    "into", "from", "to_string", "to_owned", "as_ref", "as_str", "deref", "deref_mut", "borrow", "clone", "into_boxed_str", "leak", "into_string",
    "into_owned", "to_vec", "as_mut", "into_bytes", "as_bytes", "from_str_unchecked", "new_unchecked", "cloned", "copied", "as_deref",
)


def transformations(s):
    """Names of the calls between a value and the parameter / variable it is made from that are NOT mere changes of
    representation (into/from/to_string/to_owned/as_ref/deref/clone/Box::leak/...): [] means "the same text in another type".
    Returns None when the value is not a call chain over one base at all (a literal, a phi, a formatted string, ...)."""
    out = []
    s = strip_sym(s)
    for _ in range(16):
        if not isinstance(s, tuple) or not s:
            return None
        if s[0] == "capture" and len(s) > 2 and isinstance(s[2], tuple) and s[2]:
            s = strip_sym(s[2])  # what the closure captured, in its creator's terms
            continue
        if s[0] in ("arg", "capture", "undef"):
            return out
        if s[0] in ("ref", "deref", "cast"):
            s = strip_sym(s[1])
            continue
        if s[0] == "field" or s[0] == "downcast":
            s = strip_sym(s[1])
            continue
        if s[0] == "call" and isinstance(s[1], str) and s[2]:
            n = strip_generics(s[1]).split("::")[-1]
            if n not in CONVERSIONS:
                out.append(n)
            s = strip_sym(s[2][0])
            continue
        return None
    return None


def collected_unchanged(crate, v, param, fn=None):
    """`v` is <param>.into_iter()[.map(f)].collect() with f a mere change of representation — or, given the function, a
    fresh collection filled by one push/insert per element of <param> with such a value: (ok, why)."""
    v = strip_sym(v)
    if not sym_is_call(v, "Iterator::collect") and fn is not None and v[0] == "call" and strip_generics(v[1]).split("::")[-1] in ("new", "with_capacity", "default", "with_capacity_and_hasher", "with_hasher"):
        def base(x):
            x = strip_sym(x)
            while isinstance(x, tuple) and x and x[0] in ("ref", "deref"):
                x = strip_sym(x[1])
            return x

        adds = [c for c in nonforeign_calls(fn) if callee_method_name(c) in ("push", "insert", "push_back") and c.args and repr(base(arg_syms(c)[0])) == repr(v)]
        if len(adds) != 1:
            return False, f"{len(adds)} insertions into the collection"
        src, why = iteration_context(adds[0])
        if src is None:
            return False, why
        a = sym_arg(sym_through(src, *ITER_VIEWS))
        if a is None or a[0] != param:
            return False, "the loop does not run over the parameter"
        tr = transformations(arg_syms(adds[0])[1])
        if tr is not None:
            tr = [t for t in tr if t not in ("next", "into_iter", "iter")]  # how the loop obtains the element
        if tr != []:
            return False, f"each element is passed through {tr}"
        return True, "one insertion per element, kept as it is"
    if not sym_is_call(v, "Iterator::collect"):
        return False, "not collect()ed from the parameter"
    chain = []
    cur = strip_sym(v[2][0])
    mapf = None
    while isinstance(cur, tuple) and cur and cur[0] == "call":
        n_ = strip_generics(cur[1]).split("::")[-1]
        chain.append(n_)
        if n_ == "map" and len(cur[2]) > 1:
            mapf = strip_sym(cur[2][1])
        cur = strip_sym(cur[2][0])
    a = sym_arg(cur)
    if a is None or a[0] != param or not set(chain) <= {"map", "into_iter", "iter", "cloned", "copied"}:
        return False, f"elements go through {chain}"
    if mapf is not None:
        cf = crate.fn(mapf[5]) if mapf[0] == "agg" and mapf[1] == "closure" else None
        tr = transformations(Sym(cf).local(0)) if cf else None
        if mapf[:2] == ("const", "fn"):
            tr = [] if strip_generics(mapf[2]).split("::")[-1] in CONVERSIONS else [mapf[2]]
        if tr != []:
            return False, f"each element is passed through {tr}"
    return True, "every element kept as it is"


def result_unused(cs):
    """The value returned by this call is never read (e.g. `let _ = x.swap(v, ..)`, or a statement call)."""
    d = cs.t.get("dest")
    if not d or d.get("pr"):
        return False
    l = d["l"]
    body = cs.body

    def mentions(o):
        p = o.get("copy") or o.get("move") if isinstance(o, dict) else None
        return bool(p) and (p["l"] == l or any(isinstance(e, dict) and e.get("idx") == l for e in p.get("pr") or []))

    for i, blk in enumerate(body.blocks):
        for st in blk["s"]:
            if st["k"] != "assign":
                continue
            rv = st["rv"]
            if any(mentions(rv.get(k)) for k in ("a", "b")) or any(mentions(o) for o in rv.get("ops", [])):
                return False
            if isinstance(rv.get("p"), dict) and rv["p"]["l"] == l:
                return False
            if st["p"]["l"] == l and st["p"].get("pr"):
                return False
        t = blk.get("t") or {}
        if any(mentions(o) for o in t.get("args", [])) or mentions(t.get("discr")) or mentions(t.get("cond")) or mentions(t.get("callee_op")):
            return False
    return l != 0


def is_plain_write(o):
    """An atomic op tuple from atomic_ops() that only writes: store, or a swap whose previous value is discarded."""
    return o[1] == "store" or (o[1] == "swap" and result_unused(o[0]))


def opt_alts(crate, s, depth=0):
    """Alternatives of an Option-valued (or Option-payload) expression with the std combinators expanded:
    phi, a.or(b), a.or_else(f), a.unwrap_or(d), a.unwrap_or_else(f), a.map_or(d, f) and the Some-payload projection
    of any of these.  Returns [(sym, note)] where note says how the alternative is selected ('' | 'if-none:<first>')."""
    s = strip_sym(s)
    if depth > 6 or not isinstance(s, tuple) or not s:
        return [(s, "")]
    if s[0] == "phi":
        out = []
        for x in s[1]:
            out += opt_alts(crate, x, depth + 1)
        return out
    if s[0] == "field" and s[2] == "0" and isinstance(s[1], tuple) and strip_sym(s[1])[0] == "downcast" and strip_sym(s[1])[2] == "Some":
        inner = strip_sym(strip_sym(s[1])[1])
        if inner[0] == "phi" or (inner[0] == "call" and isinstance(inner[1], str) and any(path_is(inner[1], n) for n in ("Option<T>::or", "Option<T>::or_else"))):
            return [(("field", ("downcast", a, "Some"), "0"), note) for a, note in opt_alts(crate, inner, depth + 1)]
        if inner[0] == "call" and isinstance(inner[1], str) and path_is(inner[1], "Option<T>::map") and len(inner[2]) == 2:
            # payload of opt.map(f): what f returns
            f = strip_sym(inner[2][1])
            if f[0] == "agg" and f[1] == "closure" and crate.by_path.get(f[5]) is not None:
                payload = ("field", ("downcast", inner[2][0], "Some"), "0")

                def sub(x):
                    if not isinstance(x, tuple) or not x:
                        return x
                    if x[0] == "arg" and x[1] == 1:
                        return payload
                    if x[0] in ("capture", "const"):
                        return x
                    return tuple(sub(y) if isinstance(y, tuple) else y for y in x)

                return opt_alts(crate, sub(Sym(crate.by_path[f[5]]).local(0)), depth + 1)
        return [(s, "")]
    if s[0] == "call" and isinstance(s[1], str):
        def run_closure(f, args=()):
            f = strip_sym(f)
            if f[0] == "agg" and f[1] == "closure":
                cf = crate.by_path.get(f[5])
                if cf is not None:
                    return strip_sym(Sym(cf).local(0))
            if f[:2] == ("const", "fn"):
                return ("call", f[2], tuple(args), f[2])
            return ("unknown", "closure")

        a = s[2]
        if path_is(s[1], "Option<T>::or") and len(a) == 2:
            return opt_alts(crate, a[0], depth + 1) + [(x, "if-none") for x, _ in opt_alts(crate, a[1], depth + 1)]
        if path_is(s[1], "Option<T>::or_else") and len(a) == 2:
            return opt_alts(crate, a[0], depth + 1) + [(x, "if-none") for x, _ in opt_alts(crate, run_closure(a[1]), depth + 1)]
        def payloads(opt):
            out = []
            for x, n in opt_alts(crate, opt, depth + 1):
                for y, n2 in opt_alts(crate, ("field", ("downcast", x, "Some"), "0"), depth + 2):
                    out.append((y, n or n2))
            return out

        def apply(f, opt):
            """what closure f returns for the Some payload of opt, in the caller's terms"""
            f = strip_sym(f)
            payload = ("field", ("downcast", opt, "Some"), "0")
            if f[0] == "agg" and f[1] == "closure" and crate.by_path.get(f[5]) is not None:
                def sub(x):
                    if not isinstance(x, tuple) or not x:
                        return x
                    if x[0] == "arg" and x[1] == 1:
                        return payload
                    if x[0] in ("capture", "const"):
                        return x
                    return tuple(sub(y) if isinstance(y, tuple) else y for y in x)

                return sub(Sym(crate.by_path[f[5]]).local(0))
            if f[:2] == ("const", "fn"):
                return ("call", f[2], (payload,), f[2])
            return ("unknown", "closure")

        if path_is(s[1], "Option<T>::map_or") and len(a) == 3:
            return opt_alts(crate, apply(a[2], a[0]), depth + 1) + [(x, "if-none") for x, _ in opt_alts(crate, a[1], depth + 1)]
        if path_is(s[1], "Option<T>::map_or_else") and len(a) == 3:
            return opt_alts(crate, apply(a[2], a[0]), depth + 1) + [(x, "if-none") for x, _ in opt_alts(crate, run_closure(a[1]), depth + 1)]
        if path_is(s[1], "Option<T>::unwrap_or") and len(a) == 2:
            return payloads(a[0]) + [(strip_sym(a[1]), "if-none")]
        if path_is(s[1], "Option<T>::unwrap_or_else") and len(a) == 2:
            return payloads(a[0]) + [(x, "if-none") for x, _ in opt_alts(crate, run_closure(a[1]), depth + 1)]
    return [(s, "")]


def actual_of(fn, s):
    """If `s` (a Sym built in closure `fn`) is one of the closure's own parameters and the closure is invoked through
    Fn::call/call_mut/call_once somewhere in its creator's region, returns the corresponding actual argument expressed
    in the caller's terms; otherwise returns s unchanged."""
    a = sym_arg(sym_through(s))
    par = getattr(fn, "parent", None)
    if a is None or fn.dk != "Closure" or par is None or a[0] < 1:
        return s
    for g_ in par.region():
        gsy = Sym(g_)
        for c in g_.body.calls():
            if c.is_("Fn::call", "FnMut::call_mut", "FnOnce::call_once") and not c.foreign() and len(c.args) == 2:
                tgt = strip_sym(gsy.operand(c.args[0]))
                if tgt[0] == "agg" and tgt[1] == "closure" and tgt[5] == fn.path:
                    tup = strip_sym(gsy.operand(c.args[1]))
                    if tup[0] == "agg" and tup[1] == "tuple" and a[0] - 1 < len(tup[3]):
                        return tup[3][a[0] - 1]
    return s


def import_rules(ctx, prop, rule_ids, as_rule, text, floor=1):
    """Re-decides rules of another property's module (on that module's own program view) and files the resulting
    obligations under `as_rule` of the current check: a property that rests on another one's mechanism is broken
    when that mechanism is."""
    import importlib
    from report import Check

    chk = ctx.check
    if getattr(ctx, "no_imports", False):
        # this module is itself being re-decided for an importing property: imports do not nest (the importer
        # names the leaf rules it rests on directly)
        return
    if ctx.config not in ("default", "test-profile"):
        # partial builds (single crate, feature subsets) do not contain the other property's crates
        return
    chk.rule(as_rule, text, floor=floor)
    mod = importlib.import_module(f"props.{prop.lower()}")
    sub = ctx.__class__(prop, ctx.tier, ctx.dir, ctx.config)
    subchk = Check(prop, ctx.tier)
    sub.check = subchk
    sub.no_imports = True
    try:
        getattr(mod, "run_config", mod.run)(sub) if ctx.config != "default" else mod.run(sub)
    except Exception as e:  # fail closed
        chk.unrecognised(as_rule, f"<import {prop}>", f"imported rules crashed: {e!r}")
        return
    n = 0
    for o in subchk.obs:
        if o.rule in rule_ids:
            chk.ob(as_rule, f"[{o.rule}] {o.where}", o.ok, o.detail, o.loc, o.nontrivial)
            n += 1
    if n == 0:
        chk.unrecognised(as_rule, f"<import {prop}>", f"none of {sorted(rule_ids)} produced an obligation")


def through_getters(crate, s, _depth=0):
    """Rewrites, inside a symbolic value, every call of one of the crate's own trivial field accessors
    (`fn idle_timeout(&self) -> Option<Duration> { self.idle_timeout }`, exported or not) into the field read it stands
    for, so a condition spelled through an accessor is the same condition as one spelled on the field."""
    from facts import Sym, strip_sym

    if not isinstance(s, tuple) or _depth > 12:
        return s
    if s and s[0] == "call" and isinstance(s[1], str) and isinstance(s[2], tuple) and len(s[2]) == 1:
        fns = getattr(crate, "raw_by_path", None) or crate.by_path
        f = fns.get(s[1]) or (fns.get(s[3]) if len(s) > 3 and isinstance(s[3], str) else None)
        if f is not None and f.j.get("mir") and len(f.j["mir"]["blocks"]) == 1 and f.j["mir"]["blocks"][0].get("t", {}).get("k") == "return":
            try:
                r = strip_sym(Sym(f).local(0))
            except Exception:
                r = None
            if isinstance(r, tuple) and r and r[0] == "field" and isinstance(r[2], str):
                base = strip_sym(r[1])
                if isinstance(base, tuple) and base and base[0] == "arg" and base[1] == 0:
                    return ("field", through_getters(crate, s[2][0], _depth + 1), r[2])
    return tuple(through_getters(crate, x, _depth + 1) if isinstance(x, tuple) else x for x in s)
