"""Helpers shared by the per-property rule modules."""
from facts import (
    Sym,
    path_is,
    strip_generics,
    strip_sym,
    sym_arg,
    sym_calls,
    sym_is_call,
    sym_str,
    sym_through,
    sym_walk,
    is_foreign_exp,
)

ORDER_RANK = {"Relaxed": 0, "Release": 1, "Acquire": 1, "AcqRel": 2, "SeqCst": 3}


def crate_stats(chk, *crates):
    for c in crates:
        if c is not None:
            chk.analysed[c.name] = c.stats()


def need(chk, rule, what, found):
    """Fail closed when an anchor cannot be found."""
    if not found:
        chk.unrecognised(rule, f"<anchor> {what}", "anchor not found in the current tree")
        return None
    return found


def one_method(chk, rule, crate, self_ty, name, trait=None):
    ms = crate.method(self_ty, name, trait)
    if len(ms) != 1:
        chk.unrecognised(rule, f"<anchor> <{self_ty} as {trait}>::{name}" if trait else f"<anchor> {self_ty}::{name}", f"expected exactly one such method, found {len(ms)}")
        return None
    return ms[0]


def nonforeign_calls(fn):
    return [c for c in fn.region_calls() if not c.foreign()]


def calls_to(fn, *suffixes):
    return [c for c in nonforeign_calls(fn) if c.is_(*suffixes)]


def trait_calls(fn, trait_suffix):
    """Call sites in the region whose *declared* callee is a method of the given trait."""
    out = []
    for c in nonforeign_calls(fn):
        tr = c.t.get("trait")
        if tr and (tr == trait_suffix or tr.endswith("::" + trait_suffix)):
            out.append(c)
    return out


def callee_method_name(c):
    n = c.t.get("callee") or ""
    return strip_generics(n).split("::")[-1]


def in_cycle(body, bb):
    """Is block bb on a CFG cycle (i.e. can it execute more than once per activation)?"""
    return bb in body.reachable_after(bb)


def ordering_of(sym):
    """Name of a std::sync::atomic::Ordering constant expression (or None)."""
    s = strip_sym(sym)
    if isinstance(s, tuple) and s:
        if s[0] == "agg" and s[5] and s[5].endswith("atomic::Ordering"):
            return s[2]
        if s[0] == "const" and s[1] == "variant":
            return s[2]
    return None


def arg_syms(cs):
    sy = Sym(cs.fn)
    return [sy.operand(a) for a in cs.args]


def atomic_ops(fn):
    """All calls to std atomic methods in the region: (callsite, method, receiver-sym, arg-syms)."""
    out = []
    for c in nonforeign_calls(fn):
        r = strip_generics(c.resolved or "")
        if "sync::atomic::Atomic" in r or r.startswith("crossbeam_epoch::atomic::Atomic") or "portable_atomic::Atomic" in r:
            m = r.split("::")[-1]
            a = arg_syms(c)
            out.append((c, m, a[0] if a else None, a))
    return out


def orderings_in(args):
    return [o for o in (ordering_of(a) for a in args) if o]


def self_field_of(sym):
    """If sym denotes `self.<field>` (through refs) returns the field name."""
    s = strip_sym(sym)
    while isinstance(s, tuple) and s and s[0] == "field":
        inner = strip_sym(s[1])
        if isinstance(inner, tuple) and inner and inner[0] == "arg" and inner[1] == 0:
            return s[2]
        s = inner
    return None


def field_path(sym):
    """('arg', i, [fields...]) for arg.f1.f2 chains (through refs/derefs/downcasts); else None."""
    s = strip_sym(sym)
    fields = []
    while isinstance(s, tuple) and s:
        if s[0] == "field":
            fields.append(s[2])
            s = strip_sym(s[1])
        elif s[0] == "downcast":
            s = strip_sym(s[1])
        elif s[0] == "arg":
            return s[1], list(reversed(fields))
        elif s[0] == "call" and s[2] and sym_is_call(s, "Deref::deref", "DerefMut::deref_mut", "Arc<T>::deref", "as_ref", "borrow"):
            s = strip_sym(s[2][0])
        else:
            return None
    return None


def loc_of(fn, line=None):
    return f"{fn.file}:{line if line else fn.line}"


def has_panic_path(fn, allow=()):
    """Assert terminators or calls into panicking machinery in the region (foreign expansions excluded)."""
    bad = []
    for f in fn.region():
        b = f.body
        for i, blk in enumerate(b.blocks):
            t = blk.get("t") or {}
            if is_foreign_exp(t.get("exp")):
                continue
            if t.get("k") == "assert":
                bad.append((f, i, "assert:" + str(t.get("msg"))))
            elif t.get("k") == "call":
                r = strip_generics(t.get("resolved") or t.get("callee") or "")
                if any(x in r for x in ("panicking::", "::unwrap", "::expect", "unwrap_failed", "slice_index", "index::Index")) and not any(path_is(r, a) for a in allow):
                    bad.append((f, i, "call:" + r))
    return bad


def bool_switches(body):
    """Yields (bb, discr-sym, true_target, false_target) for every two-way switch on a bool."""
    sy = Sym(body.fn)
    for i in range(body.n):
        t = body.term(i)
        if t["k"] != "switch" or t.get("dty") != "bool":
            continue
        arms = {a["v"]: a["bb"] for a in t["arms"]}
        if 0 in arms:
            f_t = arms[0]
            t_t = arms.get(1, t["otherwise"])
        elif 1 in arms:
            t_t = arms[1]
            f_t = t["otherwise"]
        else:
            continue
        yield i, sy.operand(t["discr"]), t_t, f_t


def variant_edges(body, bb):
    """{variant-or-value: target} (+ 'otherwise') for a switch terminator."""
    return dict(body.switch_edges(bb))


def field_accesses(crate, adt_path, field):
    """All MIR places in the crate that project field `field` out of type `adt_path`:
    yields (fn, bb, stmt-or-term, is_write)."""
    out = []

    def scan_place(fn, bb, node, p, write):
        for e in p.get("pr") or []:
            if isinstance(e, dict) and e.get("f") == field and strip_generics(e.get("of", "")) == adt_path:
                out.append((fn, bb, node, write))

    def scan_op(fn, bb, node, op):
        p = op.get("copy") or op.get("move")
        if p:
            scan_place(fn, bb, node, p, False)

    for fn in crate.fns:
        b = fn.body
        for i, blk in enumerate(b.blocks):
            for s in blk["s"]:
                if s["k"] != "assign":
                    continue
                scan_place(fn, i, s, s["p"], True)
                rv = s["rv"]
                for key in ("a", "b"):
                    if key in rv and isinstance(rv[key], dict):
                        scan_op(fn, i, s, rv[key])
                if "p" in rv:
                    scan_place(fn, i, s, rv["p"], rv["k"] in ("ref", "rawptr") and rv.get("mut", False))
                for o in rv.get("ops", []):
                    scan_op(fn, i, s, o)
            t = blk.get("t") or {}
            for o in t.get("args", []):
                scan_op(fn, i, t, o)
            if "dest" in t:
                scan_place(fn, i, t, t["dest"], True)
            if t.get("k") == "drop":
                scan_place(fn, i, t, t["p"], False)
            if "discr" in t:
                scan_op(fn, i, t, t["discr"])
    return out


def aggregates(fn, adt_suffix, variant=None):
    """Aggregate constructions of the ADT in the region: (fn, bb, stmt-index, stmt)."""
    out = []
    for f in fn.region():
        for i, k, s in f.body.stmts():
            if s["k"] == "assign" and s["rv"]["k"] == "agg" and path_is(s["rv"].get("adt"), adt_suffix) and (variant is None or s["rv"].get("variant") == variant):
                out.append((f, i, k, s))
    return out
