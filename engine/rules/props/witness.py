"""Type-level witness obligations: compile-fail programs must fail with the stated error code, their
compiling twins (and the compile-pass witnesses) must compile."""


def witness_rule(ctx, rule, prop, only=None):
    chk = ctx.check
    if ctx.config != "default":
        return
    ws = {n: w for n, w in ctx.witness.items() if w.get("prop") == prop and w.get("kind") == "tf" and (only is None or n in only)}
    for name, w in sorted(ws.items()):
        exp = w.get("expect", "pass")
        where = f"witness {w.get('file', name)}"
        if "error" in w:
            chk.unrecognised(rule, where, w["error"])
            continue
        if exp == "pass":
            ok = w.get("exit") == 0
            chk.ob(rule, where, ok, "compiles (as it must)" if ok else f"must compile but fails: {w.get('codes')} {w.get('messages', [])[:2]}", w.get("file", ""))
        else:
            codes = w.get("codes", [])
            ok = w.get("exit") != 0 and (exp in codes or (exp == "fail" and codes))
            if exp.startswith("msg:"):
                # region errors carry no code: expect the message instead ("lifetime may not live long enough")
                ok = w.get("exit") != 0 and any(exp[4:].strip() in m for m in w.get("messages", []))
            if ok:
                detail = f"rejected with {exp} (as it must)"
            elif w.get("exit") == 0:
                detail = f"compiles, but a violating program of this shape must be rejected with {exp}"
            else:
                detail = f"fails with {codes} instead of {exp}: {w.get('messages', [])[:2]}"
            chk.ob(rule, where, ok, detail, w.get("file", ""))
            twin = w.get("twin")
            if twin and twin not in ctx.witness:
                chk.unrecognised(rule, where, f"compiling twin {twin} is missing")
        chk.witness[name] = {"expect": exp, "exit": w.get("exit"), "codes": w.get("codes")}
