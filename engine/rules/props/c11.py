"""C11 — TCP exporter streams whole frames to every connected client, whatever others do."""
from facts import Sym, path_is, strip_generics, strip_sym, sym_arg, sym_calls, sym_is_call, sym_str, sym_through, sym_walk, is_foreign_exp
from props.common import is_increment, arg_syms, bool_switches, callee_method_name, calls_to, crate_stats, enum_arms, gates, in_cycle, kind_consistent, need, nonforeign_calls, one_method, recorder_impls, RECORDER_METHODS

KEEP = [  # private helpers the rules name (kept as functions); every other non-exported, non-trait function is spliced into its callers
    "Handle::new", "State::decrement_clients", "State::increment_clients", "State::new",
    "State::push_metric", "State::register_metric", "State::should_send", "State::wake",
    "metrics_exporter_tcp::convert_metadata_to_protobuf_encoded", "metrics_exporter_tcp::convert_metric_to_protobuf_encoded", "metrics_exporter_tcp::drive_connection", "metrics_exporter_tcp::generate_metadata_messages",
    "metrics_exporter_tcp::next", "metrics_exporter_tcp::run_transport",
]
TITLE = "C11 TCP exporter streams whole frames to every connected client."
CONFIGS = ["test-profile"]
T = "metrics_exporter_tcp"
USIZE_MAX = 18446744073709551615


def is_param(s, i):
    a = sym_arg(s)
    return a is not None and a[0] == i


def const_int(s):
    s = strip_sym(s)
    return s[2] if s[:2] == ("const", "int") else None


def flat(s):
    s = strip_sym(s)
    if s[0] == "phi":
        out = []
        for x in s[1]:
            out += flat(x)
        return out
    return [s]


def _single_def(b, l):
    ds = b.defs().get(l, [])
    return ds[0] if len(ds) == 1 else None


def _root_named_local(b, op, depth=0):
    """The mutable user variable an operand's value is read from: follows single-definition locals through copies,
    field reads, one-field aggregates, and — for a call result — the call's `&mut` argument."""
    pl = op.get("copy") or op.get("move")
    if pl is None or depth > 10:
        return None
    l = pl["l"]
    here = l if b.local_name(l) else None
    d = _single_def(b, l)
    if d is None:
        return here
    if d[0] == "call":
        for a in d[3].get("args", []):
            al = (a.get("move") or a.get("copy") or {}).get("l")
            da = _single_def(b, al) if al is not None else None
            for _ in range(4):  # reborrows: _a = &mut *_b; _b = &mut var
                if da is not None and da[0] == "assign" and da[3]["rv"]["k"] in ("ref", "rawptr") and da[3]["rv"].get("mut"):
                    tl = da[3]["rv"]["p"]["l"]
                    if "*" in (da[3]["rv"]["p"].get("pr") or []):
                        da = _single_def(b, tl)
                        continue
                    if b.local_name(tl):
                        return tl
                break
        return here
    rv = d[3]["rv"]
    r = None
    if rv["k"] in ("use", "cast"):
        r = _root_named_local(b, rv["a"], depth + 1)
    elif rv["k"] == "agg" and len(rv.get("ops", [])) == 1:
        r = _root_named_local(b, rv["ops"][0], depth + 1)
    return r if r is not None else here


def _writes_to(fn, L, through_param=False):
    """Writes to the variable L of fn (or, with through_param, through the `&mut` parameter L): [(line, description, ok)]."""
    b = fn.body
    sy = Sym(fn)
    out = []
    ptrs = set()
    for i, k, st in b.stmts():
        if st["k"] == "assign" and st["rv"]["k"] in ("ref", "rawptr") and st["rv"].get("mut") and st["rv"]["p"]["l"] == L:
            ptrs.add(st["p"]["l"])
    for _ in range(3):  # reborrows of those pointers
        for i, k, st in b.stmts():
            if st["k"] == "assign" and st["rv"]["k"] in ("ref", "rawptr") and st["rv"].get("mut") and st["rv"]["p"]["l"] in ptrs and "*" in (st["rv"]["p"].get("pr") or []):
                ptrs.add(st["p"]["l"])
            if st["k"] == "assign" and st["rv"]["k"] == "use" and (st["rv"]["a"].get("move") or {}).get("l") in ptrs and not (st["rv"]["a"]["move"].get("pr")):
                ptrs.add(st["p"]["l"])
    for i, k, st in b.stmts():
        if st["k"] != "assign":
            continue
        pl = st["p"]
        direct = pl["l"] == L and (not through_param or "*" in (pl.get("pr") or []))
        via_ptr = pl["l"] in ptrs and "*" in (pl.get("pr") or [])
        if not (direct or via_ptr):
            continue
        if pl["l"] == L and not through_param and not in_cycle(b, i):
            continue  # initialisation
        v = sy.rvalue(st["rv"], 0, frozenset())
        out.append((st.get("ln", 0), sym_str(v)[:80], is_increment(v)))
    for c in b.calls():
        if c.t.get("dest", {}).get("l") == L and not through_param and in_cycle(b, c.bb):
            out.append((c.line, f"= {callee_method_name(c)}(..)", False))
        for a in c.args:
            al = (a.get("move") or a.get("copy") or {}).get("l")
            if al in ptrs or (through_param and al == L):
                tgt = None
                if not c.foreign():
                    tgt = next((g for g in fn.crate.fns if g.path == (c.resolved or c.callee)), None)
                if tgt is None or tgt is fn:
                    out.append((c.line, f"&mut passed to {callee_method_name(c)}", False))
                else:
                    idx = c.args.index(a) + 1
                    inner = _writes_to(tgt, idx, through_param=True)
                    out.append((c.line, f"&mut passed to {tgt.name}: {[d for _l, d, _o in inner]}", bool(inner) and all(o for _l, _d, o in inner)))
    return out


def run(ctx):
    chk = ctx.check
    t = ctx.crate("metrics_exporter_tcp")
    crate_stats(chk, t)
    chk.rule("C11.a", "OWN taken buffer is written or restored: in drive_connection a buffer taken from wbuf/msgs is, on every arm that keeps the connection (returns false or retries), fully written or has its unwritten part (the buffer itself, or buf.split_off(n) after a partial write of n bytes) parked in wbuf; wbuf is tried before msgs; only drive_connection writes to a client socket", floor=5)
    chk.rule("C11.b", "pairing client accounting: increment_clients once per accepted connection next to clients.insert; decrement_clients only where a client is actually removed (gated by the client being present, next to clients.remove); push_metric/register_metric wake the transport on every path after sending", floor=4)
    chk.rule("C11.c", "RANGE starts for every configuration: no allocation capacity flows from the 'unbounded' sentinel usize::MAX", floor=1)
    chk.rule("C11.d", "TBL frame construction and mapping: frames come only from encode_length_delimited; Handle method -> MetricOperation variant -> proto Operation variant is name-preserving; describe_* -> matching MetricType; a new client's queue starts with the metadata messages", floor=16)
    chk.trust("mio::net::TcpStream::write", "bytes::Bytes::{split_off,len}", "prost::Message::encode_length_delimited", "crossbeam_channel::Sender::try_send")
    chk.residue.append("delivery/liveness, rates within the buffer, behaviour of mio's readiness notifications and the accept-error policy are not decided")

    dc = t.fn(f"{T}::drive_connection")
    if need(chk, "C11.a", "drive_connection", dc):
        b = dc.body
        sy = Sym(dc)
        wr = [c for c in nonforeign_calls(dc) if c.fn is dc and c.is_("Write::write", "io::Write::write") and is_param(sym_through(arg_syms(c)[0]), 0)]
        takes = [c for c in nonforeign_calls(dc) if c.fn is dc and c.is_("Option<T>::take") and is_param(sym_through(arg_syms(c)[0]), 1)]
        pops = [c for c in nonforeign_calls(dc) if c.is_("VecDeque<T, A>::pop_front") and (is_param(sym_through(arg_syms(c)[0]), 2) if c.fn is dc else "('arg', 2" in repr(arg_syms(c)[0]))]
        if len(wr) != 1 or len(takes) != 1 or len(pops) != 1:
            chk.unrecognised("C11.a", f"{dc.path} [shape]", f"expected one conn.write, one wbuf.take(), one msgs.pop_front(); found {len(wr)}/{len(takes)}/{len(pops)}", dc.loc())
        else:
            W = wr[0]
            # what is written: the taken buffer
            buf = strip_sym(sym_through(arg_syms(W)[1], "Deref::deref", "AsRef::as_ref", "Bytes::as_ref"))
            from props.common import opt_alts

            alts = [a for a, _ in opt_alts(t, buf)]
            from_take = any("take" in sym_str(a) and "pop_front" not in sym_str(a) for a in alts)
            from_pop = any("pop_front" in sym_str(a) for a in alts)
            ok = from_take and from_pop and len(alts) == 2
            chk.ob("C11.a", f"{dc.path} [what is written]", ok, "the buffer written is the parked remainder (wbuf.take()) or else the next message (msgs.pop_front())" if ok else f"conn.write is given {sym_str(buf)[:100]}", W.loc())
            if pops[0].fn is dc:
                ok = any(lab == "None" and sym_is_call(dd, "Option<T>::take") for dd, lab in gates(b, pops[0].bb))
            else:
                # wbuf.take().or_else(|| msgs.pop_front()): the closure runs only when take() returned None
                ok = False
                for c in nonforeign_calls(dc):
                    if c.fn is dc and c.is_("Option<T>::or_else"):
                        a_ = arg_syms(c)
                        cl = strip_sym(a_[1])
                        ok = ok or (sym_is_call(a_[0], "Option<T>::take") and cl[0] == "agg" and cl[1] == "closure" and cl[5] == pops[0].fn.path)
            chk.ob("C11.a", f"{dc.path} [remainder first]", ok, "msgs.pop_front() is only consulted when wbuf.take() returned None" if ok else "a new message can be taken while a parked remainder exists: frames would interleave", pops[0].loc())
            # restore sites
            restores = [c for c in nonforeign_calls(dc) if c.fn is dc and c.is_("Option<T>::replace", "Option<T>::insert", "Option<T>::get_or_insert") and is_param(sym_through(arg_syms(c)[0]), 1)]
            # assignments *wbuf = Some(x)
            assigns = []
            for i, k, s in b.stmts():
                if s["k"] == "assign" and s["p"]["l"] == 2 and s["p"].get("pr") == ["*"] and not is_foreign_exp(s.get("exp")):
                    assigns.append(i)
            rblocks = {c.bb for c in restores} | set(assigns)
            start = W.t.get("target")
            # blocks that keep the connection: `_0 = false` or a recursive call
            keep = []
            for i, k, s in b.stmts():
                if s["k"] == "assign" and s["p"]["l"] == 0 and not s["p"].get("pr") and s["rv"]["k"] == "use" and (s["rv"]["a"].get("const") or {}).get("bool") is False and i in b.reachable(start):
                    keep.append((i, "return false"))
            for c in nonforeign_calls(dc):
                if c.fn is dc and c.is_(f"{T}::drive_connection") and c.bb in b.reachable(start):
                    keep.append((c.bb, "retry (recursive call)"))
            # loop-back (continue) after a complete write is fine: identified by the gate `n < len` false on the Ok arm
            bad = []
            heads = {W.bb, takes[0].bb}
            for kb, what in keep:
                if kb in b.reachable(start, cut=rblocks | heads):
                    # allowed only if this is the "queue drained" exit, which is before the write in the next iteration (cut by heads)
                    bad.append((kb, what))
            ok = bool(keep) and not bad
            chk.ob("C11.a", f"{dc.path} [restore on every keeping exit]", ok, f"{len(keep)} connection-keeping exits after a write attempt, each preceded by parking the unwritten buffer in wbuf" if ok else f"after conn.write the function can `{bad[0][1] if bad else '?'}` without putting the taken buffer back into wbuf: a whole message is lost or, for a parked remainder, the client's stream is torn", dc.loc())
            # what is restored
            okx = bool(restores) or bool(assigns)
            detail = ""
            for c in restores:
                x = strip_sym(arg_syms(c)[1])
                xs = flat(x)
                for a in xs:
                    if repr(a) == repr(buf) or repr(a) in [repr(z) for z in alts]:
                        continue  # the buffer itself
                    if sym_is_call(a, "Bytes::split_off", "BytesMut::split_off", "split_off"):
                        n = strip_sym(a[2][1])
                        n_ok = "write" in sym_str(n) and "Ok" in repr(n)
                        part = any((lab is True and strip_sym(dd)[0] == "bin" and strip_sym(dd)[1] == "Lt" and "len" in sym_str(strip_sym(dd)[3])) for dd, lab in gates(b, c.bb))
                        if n_ok and part:
                            continue
                        okx, detail = False, f"remainder is split_off({sym_str(n)[:40]}) outside the `n < buf.len()` arm"
                    else:
                        okx, detail = False, f"parks {sym_str(a)[:80]}"
            chk.ob("C11.a", f"{dc.path} [what is parked]", okx, "parked value is the untouched buffer or buf.split_off(n) (the unwritten tail) on the partial-write arm" if okx else f"the value put back into wbuf is not the unwritten part of the buffer: {detail} (e.g. split_to(n) re-sends the bytes already written and drops the tail)", dc.loc())
    writers = sorted({(c.fn.parent.path if c.fn.parent else c.fn.path) for f in t.fns for c in f.body.calls() if c.is_("Write::write", "Write::write_all", "Write::write_vectored") and "TcpStream" in repr(c.t.get("gargs", "")) + (c.t.get("self_ty") or "")})
    rt = t.fn(f"{T}::run_transport")
    if rt is not None:
        dcs = [c for c in nonforeign_calls(rt) if c.is_(f"{T}::drive_connection")]
        bad = []
        def same_queue(dd, c):
            """the receiver of this is_empty()/len() is the client's message queue handed to drive_connection"""
            dd = strip_sym(dd)
            if not (isinstance(dd, tuple) and dd and dd[0] == "call" and dd[2]):
                return False
            q = repr(strip_sym(sym_through(Sym(c.fn).operand(c.args[2]), "Deref::deref", "DerefMut::deref_mut")))
            return repr(strip_sym(sym_through(dd[2][0], "Deref::deref", "DerefMut::deref_mut"))) == q

        for c in dcs:
            g = gates(c.body, c.bb)
            on_msgs = [1 for dd, lab in g if lab in (True, False) and sym_is_call(dd, "VecDeque<T, A>::is_empty", "VecDeque<T, A>::len", "is_empty") and same_queue(dd, c)]
            on_wbuf = [1 for dd, lab in g if "wbuf" in sym_str(dd).lower() or sym_is_call(dd, "Option<T>::is_none", "Option<T>::is_some")]
            if on_msgs and not on_wbuf:
                bad.append(c)
        # and no skip of the drive inside the per-client event branch that looks at the queue alone
        skips = []
        rb = rt.body
        for bb_, dd, t_t, f_t in bool_switches(rb):
            dd = strip_sym(dd)
            if sym_is_call(dd, "VecDeque<T, A>::is_empty") and dcs and any(same_queue(dd, c) for c in dcs if c.fn is rt):
                # the `true` edge (queue empty) must still reach a drive_connection before the loop continues
                nxt = [c.bb for c in rt.body.calls() if c.is_("Iterator::next")]
                reach = rb.reachable(t_t, cut={c.bb for c in dcs if c.fn is rt})
                if any(n_ in reach for n_ in nxt) and any(c.bb in rb.reachable(f_t) for c in dcs if c.fn is rt) and not any(c.bb in rb.reachable(t_t, cut=set(nxt)) for c in dcs if c.fn is rt):
                    skips.append(bb_)
        okd = bool(dcs) and not bad and not skips
        chk.ob("C11.a", f"{rt.path} [events always drive the connection]", okd, f"{len(dcs)} drive_connection sites; none is skipped because the message queue alone is empty (a parked remainder lives in wbuf)" if okd else "a client event can be ignored when its message queue is empty although a partially written frame is parked in wbuf: the frame is never completed", rt.loc())
    ok = writers == [f"{T}::drive_connection"]
    chk.ob("C11.a", "client sockets [who-may-write]", ok, "only drive_connection writes to client sockets" if ok else f"client sockets are written from {writers}", "metrics-exporter-tcp/src/lib.rs")

    # ---------------- C11.b
    rt = t.fn(f"{T}::run_transport")
    if need(chk, "C11.b", "run_transport", rt):
        b = rt.body
        sy = Sym(rt)
        incs = [c for c in nonforeign_calls(rt) if c.fn is rt and c.is_("State::increment_clients")]
        inserts = [c for c in nonforeign_calls(rt) if c.fn is rt and c.is_("HashMap<K, V, S>::insert") and "clients" in _name_of(rt, c.args[0])]
        accepts = [c for c in nonforeign_calls(rt) if c.fn is rt and c.is_("TcpListener::accept")]
        ok = len(incs) == 1 and len(inserts) == 1 and len(accepts) == 1 and b.dominates(accepts[0].bb, incs[0].bb) and b.dominates(incs[0].bb, inserts[0].bb) and any(lab == "Ok" for dd, lab in gates(b, incs[0].bb))
        chk.ob("C11.b", f"{rt.path} [accept accounting]", ok, "each accepted connection: increment_clients() then clients.insert(token, ..)" if ok else "an accepted connection is not counted exactly once next to its insertion", rt.loc())
        decs = [c for c in nonforeign_calls(rt) if c.fn is rt and c.is_("State::decrement_clients")]
        removes = [c for c in nonforeign_calls(rt) if c.fn is rt and c.is_("HashMap<K, V, S>::remove") and "clients" in _name_of(rt, c.args[0])]
        okd = bool(decs) and len(decs) == len(removes)
        detail = f"{len(decs)} decrement sites, {len(removes)} clients.remove sites"
        for dcall in decs:
            g = gates(b, dcall.bb)
            present = any(lab == "Some" and sym_is_call(dd, "get_mut", "HashMap<K, V, S>::get", "HashMap<K, V, S>::remove", "remove") for dd, lab in g) or any(lab is True and sym_is_call(dd, "contains_key") for dd, lab in g)
            near = [r for r in removes if b.dominates(r.bb, dcall.bb) or b.dominates(dcall.bb, r.bb)]
            same_iter = [r for r in near if not any(h.bb in b.reachable(min(r.bb, dcall.bb)) and False for h in [])]
            if not present or not same_iter:
                okd = False
                detail = f"the decrement at line {dcall.line} is not conditional on the client still being present (Some edge of clients.get_mut/remove) next to a clients.remove"
        chk.ob("C11.b", f"{rt.path} [removal accounting]", okd, f"{detail}; every decrement is guarded by the client being present and paired with its removal" if okd else f"decrement_clients can run without a client actually being removed ({detail}): a client counted out twice brings the count to zero with a client still connected and should_send turns false", rt.loc())
        # a client leaves only because its connection is finished: each removal (directly, or through the to-remove list) is
        # on the `true` edge of that client's drive_connection() — never on a readiness flag, which a half-closed client that
        # is still reading also raises
        from facts import PredFlow

        _dcpf = []

        def _dc_true(bb):
            if any(lab is True and sym_is_call(dd, "drive_connection") for dd, lab in gates(b, bb)):
                return True
            # the verdict carried by a bool (a helper returning `done`, spliced in): true only where a drive_connection() was
            if not _dcpf:
                _dcpf.append(PredFlow(rt, lambda subj, v: None, lambda x: ("P", "N") if sym_is_call(strip_sym(x), "drive_connection") else None))
            return _dcpf[0].at(bb) == "P"

        marks = [c for c in nonforeign_calls(rt) if c.fn is rt and c.is_("Vec<T, A>::push", "Vec<T>::push") and "clients_to_remove" in _name_of(rt, c.args[0])]
        bad_rm = []
        for r in removes:
            ksym = sym_str(sy.operand(r.args[1]))
            if _dc_true(r.bb) or ("drain" in ksym and marks):
                continue
            bad_rm.append(r)
        bad_rm += [c for c in marks if not _dc_true(c.bb)]
        if removes:
            chk.ob("C11.b", f"{rt.path} [removal cause]", not bad_rm, f"{len(removes)} removal site(s), {len(marks)} mark site(s), each on drive_connection() == true" if not bad_rm else f"a client is removed (line {bad_rm[0].line}) without its connection having been driven to an end: a client that is still reading stops receiving metrics", bad_rm[0].loc() if bad_rm else rt.loc())
        # the fan-out only reads the shared batch: inside the per-client loop nothing removes messages from it (what is
        # discarded for a slow client is discarded from that client's own queue), and a client's queue is trimmed only after
        # its connection was driven in the same pass (so what is trimmed is what could not be written)
        takes_ = [c for c in nonforeign_calls(rt) if c.fn is rt and c.is_("Iterator::take") and sym_is_call(strip_sym(arg_syms(c)[0]), "VecDeque<T, A>::iter", "iter")]
        if takes_:
            qsym_ = repr(strip_sym(strip_sym(arg_syms(takes_[0])[0])[2][0]))
            REMOVERS = ("drain", "pop_front", "pop_back", "truncate", "retain", "retain_mut", "split_off", "remove", "swap_remove_back", "swap_remove_front")
            robbed = [c for c in nonforeign_calls(rt) if c.fn is rt and callee_method_name(c) in REMOVERS and c.args and repr(strip_sym(arg_syms(c)[0])) == qsym_]
            chk.ob("C11.a", f"{rt.path} [shared batch only read in the fan-out]", not robbed, "no message is removed from the per-pass batch before it is cleared as a whole" if not robbed else f"the fan-out removes messages from the batch shared by all clients ({callee_method_name(robbed[0])}): clients visited later in the pass silently lose them", robbed[0].loc() if robbed else rt.loc(), nontrivial=False)
            trims = [c for c in nonforeign_calls(rt) if c.fn is rt and callee_method_name(c) == "drain" and c.args and repr(strip_sym(arg_syms(c)[0])) != qsym_ and "VecDeque" in (c.resolved or "") and in_cycle(b, c.bb)]
            drives = [c for c in nonforeign_calls(rt) if c.fn is rt and c.is_("drive_connection")]
            for tcall in trims:
                driven = any(b.dominates(dc.bb, tcall.bb) and dc.bb != tcall.bb and repr(strip_sym(arg_syms(dc)[2])) == repr(strip_sym(arg_syms(tcall)[0])) for dc in drives)
                chk.ob("C11.a", f"{rt.path} [queue trimmed only after a drive]", driven, "the client's connection is driven before older messages are discarded for it" if driven else "a client's queue is trimmed without first driving its connection in this pass: messages that could have been written (a new client's greeting) are discarded for a client that is reading", tcall.loc(), nontrivial=False)
        # "the metadata known when it connected": a description received again replaces what is stored — after the entry for
        # the name is found or created, the unit and the description are written through it on every path
        ents_ = [c for c in nonforeign_calls(rt) if c.fn is rt and callee_method_name(c) in ("or_insert_with", "or_insert", "or_default", "or_insert_with_key") and "hash" in (c.resolved or "") and "metadata" in _name_of(rt, c.args[0]).lower() + sym_str(sy.operand(c.args[0])).lower()]
        if not ents_:
            ents_ = [c for c in nonforeign_calls(rt) if c.fn is rt and callee_method_name(c) in ("or_insert_with", "or_insert", "or_default") and "hash::map::Entry" in (c.resolved or "") and any(x in sym_str(sy.operand(c.args[0])) for x in ("entry(",)) and "Event::Metadata" in repr([dd for dd, lab in gates(b, c.bb)]) + str([lab for dd, lab in gates(b, c.bb)])]
        if len(ents_) == 1:
            ecall = ents_[0]
            through = []
            for i_, k_, st in b.stmts():
                if st["k"] == "assign" and st["p"].get("pr") == ["*"] and i_ in b.reachable_after(ecall.bb):
                    tgt_ = sy.local(st["p"]["l"])
                    if any(isinstance(x, tuple) and x and x[0] == "call" and sym_is_call(x, callee_method_name(ecall)) for x in sym_walk(tgt_)) and strip_sym(tgt_)[0] == "field":
                        through.append((i_, strip_sym(tgt_)[2]))
                elif st["k"] == "assign" and (st["p"].get("pr") or [None])[0] == "*" and len(st["p"]["pr"]) == 2 and isinstance(st["p"]["pr"][1], dict) and "f" in st["p"]["pr"][1] and i_ in b.reachable_after(ecall.bb):
                    # `entry.1 = unit; entry.2 = Some(desc);` — the same writes spelled as field assignments through the reference
                    base_ = strip_sym(sy.local(st["p"]["l"]))
                    if sym_is_call(base_, callee_method_name(ecall)):
                        through.append((i_, str(st["p"]["pr"][1]["f"])))
            flds = {f_ for _, f_ in through}
            okm = len(flds) >= 2 and all(b.dominates(ecall.bb, i_) for i_, _ in through)
            chk.ob("C11.d", f"{rt.path} [a repeated description replaces the stored one]", okm, f"unit and description are written through the entry (fields {sorted(flds)}) whether or not the name was known" if okm else "the stored unit / description are only set when the name is first seen: a later describe of the same name is ignored, and clients that connect afterwards are greeted with the outdated metadata", ecall.loc(), nontrivial=False)
        # metadata for a new client is its initial queue
        if inserts:
            v = strip_sym(sy.operand(inserts[0].args[2]))
            # (connection, no parked remainder, metadata messages) — as a tuple or as a private per-client struct
            parts = [strip_sym(x) for x in v[3]] if v[0] == "agg" and len(v[3]) == 3 else []
            # ... the whole of it: the greeting is not cut down between its construction and the insert
            from props.common import _mut_borrowed

            gm_ = [c for c in nonforeign_calls(rt) if c.fn is rt and c.is_("generate_metadata_messages")]
            cut_ = False
            for c in gm_:
                dl = c.t["dest"]["l"] if not c.t["dest"].get("pr") else None
                for _ in range(4):
                    if dl is None:
                        break
                    if _mut_borrowed(b, dl):
                        cut_ = True
                    mv = [st["p"]["l"] for i_, k_, st in b.stmts() if st["k"] == "assign" and st["rv"]["k"] == "use" and (st["rv"]["a"].get("move") or {}).get("l") == dl and not (st["rv"]["a"].get("move") or {}).get("pr") and not st["p"].get("pr")]
                    dl = mv[0] if len(mv) == 1 else None
            if cut_:
                chk.ob("C11.d", f"{rt.path} [greeting complete]", False, "the metadata greeting of a new client is modified (truncated) before it is queued: with more described metrics than the buffer size a reading client never receives part of the metadata", gm_[0].loc(), nontrivial=False)
            okm = len(parts) == 3 and sum(1 for x in parts if sym_is_call(x, "generate_metadata_messages")) == 1 and sum(1 for x in parts if x[0] == "agg" and x[2] == "None") == 1 and sum(1 for x in parts if "accept" in sym_str(x)) == 1
            chk.ob("C11.d", f"{rt.path} [new client queue]", okm, "a new client starts with (conn, no remainder, metadata messages)" if okm else "a new client's queue does not start with the known metadata", inserts[0].loc())
        # client tokens are never reused: a token that is still some client's key would make clients.insert replace
        # (in this code: panic on) a live client
        if inserts:
            chk.rule("C11.e", "FRESH client tokens: the key under which a new client is inserted comes from a counter that, inside the event loop, is only ever advanced by one — a token still held by a live client is never handed out again", floor=1)
            L = _root_named_local(b, inserts[0].args[1])
            if L is None:
                chk.unrecognised("C11.e", f"{rt.path} [token source]", "cannot see which variable the new client's token is taken from", inserts[0].loc())
            else:
                ws = _writes_to(rt, L)
                okw = bool(ws) and all(o for _l, _d, o in ws)
                bad = [(l_, d_) for l_, d_, o in ws if not o]
                chk.ob("C11.e", f"{rt.path} [token counter {b.local_name(L)}]", okw, f"{len(ws)} write(s) inside the loop, each `+ 1`" if okw else (f"the token counter is written by something other than an increment at line {bad[0][0]} ({bad[0][1]}): a token can be handed out while a live client still holds it" if bad else "the token counter is never advanced: every client gets the same token"), inserts[0].loc())
        # what one pass takes in is what one pass hands on: the fan-out forwards at most `limit` of the gathered messages
        # (take(limit)) and drops from a client's queue only what exceeds the limit, so the gathering loop must stop at limit
        takes = [c for c in nonforeign_calls(rt) if c.fn is rt and c.is_("Iterator::take") and sym_is_call(strip_sym(arg_syms(c)[0]), "VecDeque<T, A>::iter", "iter")]
        if takes:
            chk.rule("C11.f", "RANGE intake bound: a message is appended to the per-pass queue only while the queue is strictly shorter than the limit the fan-out forwards (take(limit)) — otherwise the newest message of a full pass is silently discarded for every client, or the drain range exceeds a client's queue", floor=1)
            qsym = repr(strip_sym(strip_sym(arg_syms(takes[0])[0])[2][0]))
            lim = repr(strip_sym(arg_syms(takes[0])[1]))
            # "no limit" stays no limit: wherever the forwarded limit falls back to a constant (buffer_size == None), that
            # constant is the unbounded sentinel, not some finite default
            fallbacks = [x[2] for x in sym_walk(strip_sym(arg_syms(takes[0])[1])) if isinstance(x, tuple) and x[:2] == ("const", "int")]
            finite = [k for k in fallbacks if k != USIZE_MAX]
            chk.ob("C11.c", f"{rt.path} [no limit is unbounded]", not finite, f"the limit is the configured size or the sentinel usize::MAX ({len(fallbacks)} constant fallback(s))" if not finite else f"without a configured size the per-client limit falls back to {finite[0]}: an exporter built with `no limit` silently discards messages beyond it", takes[0].loc(), nontrivial=False)
            pushes = [c for c in nonforeign_calls(rt) if c.fn is rt and c.is_("VecDeque<T, A>::push_back", "push_back") and repr(strip_sym(arg_syms(c)[0])) == qsym]
            if not pushes:
                chk.unrecognised("C11.f", f"{rt.path} [intake]", "no push_back onto the queue that the fan-out forwards", takes[0].loc())
            for pc in pushes:
                okb = False
                for dd, lab in gates(b, pc.bb):
                    dd = strip_sym(dd)
                    if dd[0] != "bin" or dd[1] not in ("Lt", "Le", "Gt", "Ge"):
                        continue
                    a_, b_ = strip_sym(dd[2]), strip_sym(dd[3])
                    is_len = lambda x: sym_is_call(x, "VecDeque<T, A>::len", "len") and repr(strip_sym(x[2][0])) == qsym
                    is_lim = lambda x: repr(x) == lim
                    if is_len(a_) and is_lim(b_):
                        okb = okb or (dd[1] == "Lt" and lab is True) or (dd[1] == "Ge" and lab is False)
                    if is_lim(a_) and is_len(b_):
                        okb = okb or (dd[1] == "Gt" and lab is True) or (dd[1] == "Le" and lab is False)
                chk.ob("C11.f", f"{rt.path} [intake bound]", okb, "push_back only under len(queue) < limit" if okb else "a message can be appended when the per-pass queue already holds `limit` messages: the fan-out forwards only `limit` of them", pc.loc())
            # the room made in a client's queue is computed from that queue's own length and the limit only, and making it
            # touches nothing but the queue: the parked remainder of a partly written frame is neither counted as a slot
            # (the drain range would exceed the queue) nor discarded (the client would be left with a torn frame)
            drains = [c for c in nonforeign_calls(rt) if c.fn is rt and callee_method_name(c) == "drain" and "VecDeque" in (c.resolved or "")]
            for dc in drains:
                rng = arg_syms(dc)[1]
                opt = sorted({strip_generics(x[1]).split("::")[-1] for x in sym_walk(rng) if isinstance(x, tuple) and x and x[0] == "call" and isinstance(x[1], str) and strip_generics(x[1]).split("::")[-1] in ("is_some", "is_none", "is_some_and", "is_none_or")})
                chk.ob("C11.f", f"{rt.path} [drain range from the queue's own length]", not opt, "the number of messages dropped for a slow client depends on queue length, batch length and limit only" if not opt else f"the drain range depends on whether some Option is occupied ({opt}): a pending remainder counted as an occupied slot makes the range exceed the client's queue (the transport thread panics, every client is disconnected)", dc.loc(), nontrivial=False)
            tk = [c for c in nonforeign_calls(rt) if c.fn is rt and c.is_("Option<T>::take", "Option<T>::replace", "Option<T>::insert", "Option<T>::take_if") and any("Bytes" in str(g) for g in (c.t.get("gargs") or []))]
            chk.ob("C11.a", f"{rt.path} [remainder touched only by drive_connection]", not tk, "run_transport itself never takes or replaces a client's parked remainder" if not tk else "the transport loop discards/replaces a client's parked remainder outside drive_connection: the unwritten tail of a partly written frame is lost and the client's stream is desynchronised for good", tk[0].loc() if tk else rt.loc(), nontrivial=False)
        # capacity
    caps = []
    for f in t.fns:
        if "::tests::" in f.path:
            continue
        for c in nonforeign_calls(f):
            if c.fn is f and callee_method_name(c) in ("with_capacity", "reserve", "reserve_exact", "with_capacity_and_hasher"):
                a = Sym(f).operand(c.args[-1] if callee_method_name(c).startswith("reserve") else c.args[0])
                caps.append((f, c, a))
        # with_capacity passed as a function value (map_or_else(VecDeque::new, VecDeque::with_capacity))
    bad = [(f, c, a) for f, c, a in caps if any(isinstance(x, tuple) and x[:3] == ("const", "int", USIZE_MAX) for x in sym_walk(a))]
    chk.ob("C11.c", "metrics_exporter_tcp [allocation capacities]", not bad, f"{len(caps)} capacity arguments, none derived from usize::MAX" if not bad else f"capacity at {bad[0][1].loc()} is {sym_str(bad[0][2])[:80]}: with_capacity(usize::MAX) panics with 'capacity overflow' and kills the transport thread at start", bad[0][1].loc() if bad else "metrics-exporter-tcp/src/lib.rs")

    # wake-ups
    ST = f"{T}::State"
    for fname in ("push_metric", "register_metric"):
        f = one_method(chk, "C11.b", t, ST, fname)
        if not f:
            continue
        b = f.body
        sends = [c for c in nonforeign_calls(f) if c.fn is f and c.is_("Sender<T>::try_send", "Sender<T>::send")]
        wakes = [c for c in nonforeign_calls(f) if c.fn is f and c.is_("State::wake", "Waker::wake")]
        ok = len(sends) == 1 and len(wakes) >= 1 and not [r for r in b.return_blocks() if r in b.reachable(sends[0].t.get("target"), cut={w.bb for w in wakes})]
        chk.ob("C11.b", f"{f.path} [wake after send]", ok, "every path that enqueues an event wakes the transport" if ok else "an event can be enqueued without waking the transport (check-then-act on the channel state loses the wake-up: delivery stops for good)", f.loc())
        if fname == "push_metric" and sends:
            g = gates(b, sends[0].bb)
            oks = any(lab is True and sym_is_call(dd, "State::should_send") for dd, lab in g)
            ev = strip_sym(arg_syms(sends[0])[1])
            # the event is one variant carrying (key.clone(), op) — whatever the private enum and its variant are called —
            # and the transport decodes that very variant's two fields, in that order, into the frame
            oke = ev[0] == "agg" and ev[2] is not None and len(ev[3]) == 2 and sym_is_call(ev[3][0], "Clone::clone") and is_param(strip_sym(ev[3][0])[2][0], 1) and is_param(ev[3][1], 2)
            if oke:
                rt_ = t.fn(f"{T}::run_transport")
                conv_calls = [c for c in nonforeign_calls(rt_) if c.is_("convert_metric_to_protobuf_encoded")] if rt_ else []
                def _vf(x):
                    x = strip_sym(x)
                    if isinstance(x, tuple) and x and x[0] == "field" and strip_sym(x[1])[0] == "downcast":
                        return strip_sym(x[1])[2], x[2]
                    return None
                flds = list(ev[4]) if len(ev) > 4 and ev[4] else ["0", "1"]
                oke = len(conv_calls) == 1 and [_vf(a) for a in arg_syms(conv_calls[0])] == [(ev[2], flds[0]), (ev[2], flds[1])]
            chk.ob("C11.d", f"{f.path} [event]", oks and oke, "Event::Metric(key.clone(), op) is sent while a client is connected" if oks and oke else "push_metric does not send Event::Metric(key.clone(), op) under should_send()", f.loc())

    # ---------------- C11.d
    H = f"{T}::Handle"
    table = {("CounterFn", "increment"): "IncrementCounter", ("CounterFn", "absolute"): "SetCounter", ("GaugeFn", "increment"): "IncrementGauge", ("GaugeFn", "decrement"): "DecrementGauge", ("GaugeFn", "set"): "SetGauge", ("HistogramFn", "record"): "RecordHistogram"}
    for (trait, mn), variant in table.items():
        fs = t.method(H, mn, trait)
        if len(fs) != 1:
            chk.unrecognised("C11.d", f"<anchor> <Handle as {trait}>::{mn}", f"found {len(fs)}")
            continue
        f = fs[0]
        cs = [c for c in nonforeign_calls(f) if c.is_("State::push_metric")]
        ok = len(cs) == 1 and not in_cycle(f.body, cs[0].bb)
        if ok:
            a = arg_syms(cs[0])
            op = strip_sym(a[2])
            ok = op[0] == "agg" and op[2] == variant and is_param(op[3][0], 1) and "'key'" in repr(a[1])
        if ok and cs[0].fn is f and [r for r in f.body.return_blocks() if r in f.body.reachable(0, cut={cs[0].bb})]:
            # ... for every value: no way through the method returns without the push (a zero increment is an emission too)
            ok = False
        chk.ob("C11.d", f.path, ok, f"{mn}(v) -> push_metric(&self.key, MetricOperation::{variant}(v))" if ok else f"<Handle as {trait}>::{mn} does not emit MetricOperation::{variant}(value) for its own key exactly once", f.loc())
    conv = t.fn(f"{T}::convert_metric_to_protobuf_encoded")
    if need(chk, "C11.d", "convert_metric_to_protobuf_encoded", conv):
        arms = enum_arms(conv, "MetricOperation")
        bad = []
        n = 0
        for v, a in (arms or {}).items():
            if v == "__switch__":
                continue
            n += 1
            built = []
            for i in sorted(a["blocks"]):
                for s in conv.body.blocks[i]["s"]:
                    if s["k"] == "assign" and s["rv"]["k"] == "agg" and (s["rv"].get("adt") or "").endswith("metric::Operation"):
                        built.append(s["rv"]["variant"])
            if built != [v]:
                bad.append((v, built))
        ok = n == 6 and not bad
        chk.ob("C11.d", f"{conv.path} [operation mapping]", ok, "MetricOperation::X -> proto::metric::Operation::X for all six operations" if ok else f"operation mapping is not name-preserving: {bad}", conv.loc())
        enc = [c for c in nonforeign_calls(conv) if c.is_("Message::encode_length_delimited")]
        chk.ob("C11.d", f"{conv.path} [framing]", len(enc) == 1, "metric frames are built with encode_length_delimited" if len(enc) == 1 else "metric frames are not length-delimited prost messages", conv.loc())
        nm = [c for c in nonforeign_calls(conv) if c.is_("Key::name")]
        lb = [c for c in nonforeign_calls(conv) if c.is_("Key::labels")]
        chk.ob("C11.d", f"{conv.path} [name and labels]", len(nm) == 1 and len(lb) == 1, "frame carries key.name() and key.labels()" if nm and lb else "frame does not carry the key's name and labels", conv.loc(), nontrivial=False)
    convm = t.fn(f"{T}::convert_metadata_to_protobuf_encoded")
    if convm:
        enc = [c for c in nonforeign_calls(convm) if c.is_("Message::encode_length_delimited")]
        chk.ob("C11.d", f"{convm.path} [framing]", len(enc) == 1, "metadata frames are built with encode_length_delimited" if len(enc) == 1 else "metadata frames are not length-delimited prost messages", convm.loc())
    # the frame is everything the encoder wrote and nothing else: the encoder's target is a growable buffer that starts empty
    # (a pre-sized slice fails for a message whose length prefix is longer than guessed, or leaves padding in the stream)
    for cf_ in (conv, convm):
        if not cf_:
            continue
        enc = [c for c in nonforeign_calls(cf_) if c.is_("Message::encode_length_delimited", "Message::encode")]
        for c in enc:
            tgt = strip_sym(arg_syms(c)[1])
            empty = isinstance(tgt, tuple) and tgt and tgt[0] == "call" and isinstance(tgt[1], str) and strip_generics(tgt[1]).split("::")[-1] in ("new", "with_capacity", "default") and any(w in tgt[1] for w in ("Vec", "BytesMut"))
            chk.ob("C11.d", f"{cf_.path} [frame buffer]", empty, "encoded into a growable buffer that starts empty" if empty else f"the frame is encoded into {sym_str(tgt)[:70]}, not into an initially empty growable buffer: a message that needs a longer length prefix than guessed fails to encode (and is dropped), or padding bytes follow the frame", c.loc(), nontrivial=False)
    # every Bytes pushed to a client queue comes from the two converters
    impls = recorder_impls(t)
    for (self_ty, ip), ms in impls.items():
        if not self_ty.endswith("TcpRecorder"):
            continue
        for name in RECORDER_METHODS:
            f = ms.get(name)
            if not f:
                continue
            kind = name.split("_")[1]
            kind_consistent(chk, "C11.d", f, kind, allow=("Handle",))
            if name.startswith("describe"):
                cs = [c for c in nonforeign_calls(f) if c.is_("State::register_metric")]
                ok = len(cs) == 1
                if ok:
                    a = arg_syms(cs[0])
                    mt = strip_sym(a[2])
                    ok = is_param(a[1], 1) and is_param(a[3], 2) and is_param(a[4], 3) and ((mt[0] == "agg" and mt[2] == kind.capitalize()) or (mt[0] == "const" and kind.capitalize() in repr(mt)))
                chk.ob("C11.d", f.path, ok, f"register_metric(name, MetricType::{kind.capitalize()}, unit, description)" if ok else f"describe_{kind} does not register (name, MetricType::{kind.capitalize()}, unit, description)", f.loc())


def _name_of(fn, op):
    """debug name of the local an operand (transitively) refers to"""
    pl = op.get("move") or op.get("copy")
    seen = 0
    body = fn.body
    while pl is not None and seen < 8:
        n = body.local_name(pl["l"])
        if n:
            return n
        ds = body.defs().get(pl["l"], [])
        nxt = None
        for d in ds:
            if d[0] == "assign":
                rv = d[3]["rv"]
                if rv["k"] in ("ref", "rawptr"):
                    nxt = rv["p"]
                elif rv["k"] == "use":
                    nxt = rv["a"].get("move") or rv["a"].get("copy")
        pl = nxt
        seen += 1
    return ""


def run_config(ctx):
    run(ctx)
