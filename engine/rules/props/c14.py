"""C14 — shared strings and label slices own their memory correctly on every path."""
from facts import Sym, path_is, strip_generics, strip_sym, sym_arg, sym_calls, sym_is_call, sym_str, sym_through, sym_walk
from props.common import arg_syms, bool_switches, crate_stats, need, nonforeign_calls, one_method
from props.witness import witness_rule

KEEP = [  # private helpers the rules name (kept as functions); every other non-exported, non-trait function is spliced into its callers
    "LocalRecorderGuard::new", "Metadata::borrowed", "Metadata::capacity", "Metadata::kind",
    "Metadata::len", "Metadata::owned", "Metadata::shared", "RecorderOnceCell::new",
    "cow::clone_shared",
]
TITLE = "C14 copy-on-write strings/slices own their memory correctly on every path."
CONFIGS = ["test-profile"]
USIZE_MAX = 18446744073709551615
KINDS = ("Borrowed", "Owned", "Shared")


def kind_switch(fn):
    """(switch-bb, {variant: target}) of the `match metadata.kind()` in fn, or None."""
    b = fn.body
    sy = Sym(fn)
    for i in range(b.n):
        t = b.term(i)
        if t["k"] == "switch" and (t.get("enum") or "").endswith("cow::Kind"):
            d = strip_sym(sy.operand(t["discr"]))
            if d[0] == "discr" and sym_is_call(d[1], "Metadata::kind"):
                edges = {a["variant"]: a["bb"] for a in t["arms"] if a.get("variant")}
                rest = [v for v in KINDS if v not in edges]
                if len(rest) == 1 and b.term(t["otherwise"])["k"] != "unreachable":
                    edges[rest[0]] = t["otherwise"]
                elif len(rest) > 1 and b.term(t["otherwise"])["k"] != "unreachable":
                    edges["otherwise"] = t["otherwise"]
                return i, edges
    return None


def kind_regions(fn):
    """For functions that consult the kind through several tests (`if let Kind::Borrowed = kind { return .. }` guard
    clauses, a kind bound to a local first): ({kind: own blocks}, {kind: first own block}, [switch blocks]) — the blocks
    executed for one kind only, found by following, at every switch on the value of metadata.kind(), that kind's edge."""
    b = fn.body
    sy = Sym(fn)
    sws = {}
    for i in range(b.n):
        t = b.term(i)
        if t["k"] == "switch" and (t.get("enum") or "").endswith("cow::Kind"):
            d = strip_sym(sy.operand(t["discr"]))
            if d[0] == "discr" and sym_is_call(strip_sym(d[1]), "Metadata::kind"):
                covered = {a["variant"]: a["bb"] for a in t["arms"] if a.get("variant")}
                sws[i] = (covered, t["otherwise"])
    if not sws:
        return None
    reach = {}
    for k in KINDS:
        seen, work = set(), [0]
        while work:
            x = work.pop()
            if x in seen:
                continue
            seen.add(x)
            if x in sws:
                cov, oth = sws[x]
                work.append(cov.get(k, oth))
            else:
                work.extend(y for y in b.succ(x))
        reach[k] = seen
    common = set.intersection(*reach.values())
    own = {k: reach[k] - common for k in KINDS}
    first = {}
    for k in KINDS:
        # the entry of the kind's own part: an own block with a predecessor that is common (or a kind switch)
        preds = b.preds()
        cands = sorted(x for x in own[k] if any(p_ in common or p_ in sws for p_ in preds.get(x, [])))
        first[k] = cands[0] if cands else None
    return own, first, sorted(sws)


def arm_blocks(body, sw, target):
    return {x for x in body.reachable(target) if body.edge_dominates((sw, target), x)}


def arm_calls(fn, blocks):
    return [c for c in fn.body.calls() if c.bb in blocks]


def is_param(s, i):
    a = sym_arg(s)
    return a is not None and a[0] == i


def is_ptr_of_param(s, i=0):
    """ptr.as_ptr() (possibly cast) of parameter i"""
    s = strip_sym(s)
    while s[0] == "cast":
        s = strip_sym(s[1])
    return sym_is_call(s, "NonNull<T>::as_ptr") and is_param(s[2][0], i)


def is_md_call(s, method, i=1):
    return sym_is_call(s, f"cow::Metadata::{method}") and is_param(strip_sym(s)[2][0], i)


def is_borrowed_from_parts(s):
    s = strip_sym(s)
    while s[0] == "cast":
        s = strip_sym(s[1])
    return sym_is_call(s, "Cowable::borrowed_from_parts") and is_param(s[2][0], 0) and is_param(s[2][1], 1)


def released_on_all_paths(fn, blocks, acquire_call, entry):
    """The resource produced by `acquire_call` (Arc::from_raw / Vec::from_raw_parts local) is dropped on
    every path that leaves the arm: normal exits and unwind exits of later calls."""
    b = fn.body
    loc = acquire_call.t["dest"]["l"]
    from props.common import drop_blocks_of

    # the owner may be moved (returned by a spliced helper, bound to another local) before it is dropped
    drops = drop_blocks_of(b, loc)
    # `drop(owner)`: the value moves into mem::drop, which releases it (whether or not that call unwinds)
    handed = []
    for c in fn.body.calls():
        if c.is_("mem::drop") and c.args and (c.args[0].get("move") or {}).get("l") is not None and not (c.args[0].get("move") or {}).get("pr"):
            l_ = c.args[0]["move"]["l"]
            for _ in range(3):
                if l_ == loc:
                    break
                ds_ = b.defs().get(l_, [])
                if len(ds_) == 1 and ds_[0][0] == "assign" and ds_[0][3]["rv"]["k"] == "use" and (ds_[0][3]["rv"]["a"].get("move") or {}).get("l") is not None and not (ds_[0][3]["rv"]["a"].get("move") or {}).get("pr"):
                    l_ = ds_[0][3]["rv"]["a"]["move"]["l"]
                else:
                    break
            if l_ == loc:
                handed.append(c.bb)
    drops = list(drops) + handed
    if not drops:
        return False, "the rebuilt owner is never dropped"
    start = acquire_call.t.get("target")
    if start is None:
        return False, "acquire call diverges"
    # normal paths: from the block after the acquire to return without passing a drop
    reach = b.reachable(start, cut=drops)
    if any(b.term(x)["k"] == "return" for x in reach):
        return False, "a normal path reaches return without dropping the rebuilt owner"
    # unwind paths: any call reachable (before a drop) whose unwind edge leads to resume without a drop
    for x in reach:
        t = b.term(x)
        uw = t.get("unwind")
        if x in handed:
            continue
        if t["k"] in ("call", "drop", "assert") and isinstance(uw, int):
            # a cleanup block that tests a drop flag (the owner is moved out on one path): the flag's value at x is the constant
            # last assigned on the way to x
            tu = b.term(uw)
            if tu["k"] == "switch" and tu.get("dty") == "bool":
                F = (tu["discr"].get("copy") or tu["discr"].get("move") or {})
                fdefs = [d for d in b.defs().get(F.get("l"), [])] if F.get("l") is not None and not F.get("pr") else []
                if fdefs and all(d[0] == "assign" and d[3]["rv"]["k"] == "use" and "bool" in (d[3]["rv"]["a"].get("const") or {}) for d in fdefs):
                    doms = [d for d in fdefs if b.dominates(d[1], x)]
                    if doms:
                        last = max(doms, key=lambda d: (len(b.dominators()[d[1]]), d[2] if len(d) > 2 and isinstance(d[2], int) else 0))
                        val = bool(last[3]["rv"]["a"]["const"]["bool"])
                        vals_ = [a_["v"] for a_ in tu["arms"]]
                        tg_ = [tg for lab, tg in b.switch_edges(uw) if ((not bool(vals_[0]) if len(vals_) == 1 else None) if lab == "otherwise" else bool(lab)) == val]
                        if len(tg_) == 1:
                            uw = tg_[0]
            ur = b.reachable(uw, cut=drops, unwind=True)
            if any(b.term(y)["k"] == "resume" for y in ur):
                return False, f"if the call at line {t.get('ln')} unwinds, the rebuilt owner is not dropped (reference/allocation leaked)"
    return True, "dropped on the normal path and on every unwind path"


def run(ctx):
    chk = ctx.check
    m = ctx.crate("metrics")
    crate_stats(chk, m)
    chk.rule("C14.a", "TBL encoding table: Metadata::{borrowed,shared,owned} vs Metadata::kind agree (capacity 0 <-> Borrowed, usize::MAX <-> Shared, else Owned); len()/capacity() read fields 0/1; from_owned rejects capacity usize::MAX", floor=7)
    chk.rule("C14.b", "OWN ownership-effect table, both impl Cowable, per function x kind arm: acquire/release effects are exactly the expected ones, argument order (ptr, len, capacity), every return passes through the kind match, release also on unwind paths; into_owned never drops self; Drop/Clone/Deref forward to the *_from_parts functions", floor=34)
    chk.rule("C14.c", "WMC+TYPE: mod cow is private; unsafe impl Send/Sync for Cow are conditional on T: Send / T: Sync; SharedString/Label/Key/KeyName are Send+Sync; SharedString::from(&local) is rejected (E0597)", floor=5)
    chk.trust("Vec::from_raw_parts", "String::from_raw_parts", "Arc::{from_raw,into_raw,increment_strong_count}", "ManuallyDrop::new", "slice_from_raw_parts")
    chk.residue.append("allocator behaviour and the soundness of Vec/String/Arc raw-parts APIs are trusted; the rules decide that each (function, kind) arm performs exactly the acquire/release effects the encoding requires")

    MD = "metrics::cow::Metadata"
    # ---------------- C14.a
    kindf = one_method(chk, "C14.a", m, MD, "kind")
    if kindf:
        b = kindf.body
        sy = Sym(kindf)
        table = {}
        recognised = False
        for i in range(b.n):
            t = b.term(i)
            if t["k"] == "switch" and t.get("dty") == "usize":
                d = strip_sym(sy.operand(t["discr"]))
                # field "1" of self (possibly via a tuple temp)
                txt = repr(d)
                if "'1'" in txt or (d[0] == "field" and d[2] == "1") or sym_is_call(d, "cow::Metadata::capacity"):
                    recognised = True
                    for a in t["arms"]:
                        table[a["v"]] = a["bb"]
                    table["otherwise"] = t["otherwise"]

        def is_cap(d):
            d = strip_sym(d)
            return (d[0] == "field" and d[2] == "1") or sym_is_call(d, "cow::Metadata::capacity") or "'1'" in repr(d)

        if not recognised:
            # spelled as an if / else-if chain of equality tests on the capacity
            chain = []
            for bb_, dd, t_t, f_t in bool_switches(b):
                dd = strip_sym(dd)
                if dd[0] == "bin" and dd[1] == "Eq":
                    l_, r_ = strip_sym(dd[2]), strip_sym(dd[3])
                    cst, oth = (l_, r_) if l_[0] == "const" else (r_, l_)
                    if cst[:2] == ("const", "int") and is_cap(oth):
                        chain.append((bb_, cst[2], t_t, f_t))
            if chain:
                recognised = True
                for bb_, c_, t_t, f_t in chain:
                    table[c_] = t_t
                # the final else: the false target that is not itself another test of the chain
                tests = {x[0] for x in chain}
                for bb_, c_, t_t, f_t in chain:
                    if f_t not in tests and not any(f_t in b.reachable(f_t, cut=set()) and False for _ in ()):
                        # follow straight-line blocks to the next test
                        nxt = f_t
                        seen_ = set()
                        while nxt not in tests and nxt not in seen_ and b.term(nxt)["k"] == "goto":
                            seen_.add(nxt)
                            nxt = b.term(nxt)["target"]
                        if nxt not in tests:
                            table["otherwise"] = f_t

        def variant_built(bb):
            for s in b.blocks[bb]["s"]:
                if s["k"] == "assign" and s["rv"]["k"] == "agg" and (s["rv"].get("adt") or "").endswith("cow::Kind"):
                    return s["rv"]["variant"]
            return None

        got = {k: variant_built(v) for k, v in table.items()}
        want = {USIZE_MAX: "Shared", 0: "Borrowed", "otherwise": "Owned"}
        # nothing but the capacity decides the kind (a length of 0 says nothing about who owns the allocation)
        other_deps = []
        for i in range(b.n):
            t = b.term(i)
            if t["k"] == "switch":
                d = strip_sym(sy.operand(t["discr"]))
                txt = repr(d)
                if ("'0'" in txt or sym_is_call(d, "cow::Metadata::len") or "Metadata::len" in txt) and "'1'" not in txt and "capacity" not in txt:
                    other_deps.append(sym_str(d)[:60])
        ok = recognised and got == want and not other_deps
        if other_deps:
            got = dict(got, also_depends_on=other_deps)
        chk.ob("C14.a", f"{kindf.path}", ok, "capacity usize::MAX -> Shared, 0 -> Borrowed, otherwise Owned" if ok else f"kind() decodes {got}, expected {want}", kindf.loc())
    for name, want in (("shared", ("p0", USIZE_MAX)), ("borrowed", ("p0", 0)), ("owned", ("p0", "p1"))):
        f = one_method(chk, "C14.a", m, MD, name)
        if not f:
            continue
        r = strip_sym(Sym(f).local(0))
        ok = r[0] == "agg" and len(r[3]) == 2
        if ok:
            for got, w in zip(r[3], want):
                g = strip_sym(got)
                if isinstance(w, str):
                    ok = ok and is_param(g, int(w[1]))
                else:
                    ok = ok and g[:2] == ("const", "int") and g[2] == w
        chk.ob("C14.a", f.path, ok, f"Metadata::{name} = Metadata{want}" if ok else f"builds {sym_str(r)}, expected Metadata{want}", f.loc())
    for name, fld in (("len", "0"), ("capacity", "1")):
        f = one_method(chk, "C14.a", m, MD, name)
        if not f:
            continue
        r = strip_sym(Sym(f).local(0))
        ok = r[0] == "field" and r[2] == fld and is_param(r[1], 0)
        chk.ob("C14.a", f.path, ok, f"{name}() reads field {fld}" if ok else f"{name}() returns {sym_str(r)}", f.loc())
    COW = "metrics::cow::Cow"
    fo = one_method(chk, "C14.a", m, COW, "from_owned")
    if fo:
        ok = False
        b = fo.body
        for bb, d, t_t, f_t in bool_switches(b):
            d = strip_sym(d)
            if d[0] == "bin" and d[1] in ("Eq", "Ne"):
                l, r = strip_sym(d[2]), strip_sym(d[3])
                if (sym_is_call(l, "Metadata::capacity") and r[:3] == ("const", "int", USIZE_MAX)) or (sym_is_call(r, "Metadata::capacity") and l[:3] == ("const", "int", USIZE_MAX)):
                    bad_t = t_t if d[1] == "Eq" else f_t
                    # the bad edge must diverge (panic) before from_parts
                    reach = b.reachable(bad_t)
                    # ... in every build: a check written with debug_assert! is compiled out without debug assertions
                    debug_only = any("debug_assert" in str((b.term(x) or {}).get("expc") or "") for x in reach) or "debug_assert" in str(b.term(bb).get("expc") or "")
                    if not any(b.term(x)["k"] == "return" for x in reach) and not debug_only:
                        ok = True
        chk.ob("C14.a", f"{fo.path} [rejects capacity usize::MAX]", ok, "an owned value whose capacity would collide with the Shared tag panics instead of being mis-tagged" if ok else "from_owned does not reject capacity == usize::MAX in every build (a debug_assert! vanishes in release builds): Owned would be decoded as Shared", fo.loc())

    # ---------------- C14.b
    for self_ty, raw_owner, copy_fns in (("str", ("String::from_raw_parts",), ("to_owned", "to_string", "from", "into")), ("[T]", ("Vec<T>::from_raw_parts", "Vec::from_raw_parts"), ("to_vec", "to_owned", "from", "into"))):
        fns = {n: (m.method(self_ty, n, "Cowable") or [None])[0] for n in ("borrowed_into_parts", "owned_into_parts", "shared_into_parts", "borrowed_from_parts", "owned_from_parts", "clone_from_parts", "drop_from_parts")}
        fns = {n: f for n, f in fns.items() if f is not None and f.j.get("impl_self") == self_ty}
        for n in ("owned_into_parts", "shared_into_parts", "owned_from_parts", "clone_from_parts", "drop_from_parts", "borrowed_from_parts", "borrowed_into_parts"):
            if n not in fns:
                chk.unrecognised("C14.b", f"<anchor> <{self_ty} as Cowable>::{n}", "missing")
        RAW_ANY = ("Vec<T>::from_raw_parts", "Vec::from_raw_parts", "String::from_raw_parts", "Vec<T, A>::from_raw_parts_in")
        ARC_REL = ("Arc<T>::from_raw", "Arc::from_raw", "Arc<T>::decrement_strong_count", "Arc::decrement_strong_count")
        ARC_ACQ = ("Arc<T>::increment_strong_count", "Arc::increment_strong_count")

        def effects(calls):
            e = []
            for c in calls:
                if c.is_(*RAW_ANY):
                    e.append(("rebuild-owner", c))
                elif c.is_("Arc<T>::from_raw", "Arc::from_raw"):
                    e.append(("arc-from-raw", c))
                elif c.is_("Arc<T>::decrement_strong_count", "Arc::decrement_strong_count"):
                    e.append(("arc-decrement", c))
                elif c.is_(*ARC_ACQ) or ((c.resolved or "").startswith("<alloc::sync::Arc<") and (c.resolved or "").endswith("Clone>::clone")):
                    e.append(("arc-increment", c))
                elif c.is_("Arc<T>::into_raw", "Arc::into_raw", "Arc<T, A>::into_raw"):
                    e.append(("arc-into-raw", c))
                elif c.is_("ManuallyDrop<T>::new", "mem::forget"):
                    e.append(("forget", c))
                elif c.is_("cow::clone_shared"):
                    e.append(("clone-shared", c))
                elif c.is_("Cowable::owned_into_parts"):
                    e.append(("owned-into-parts", c))
            return e

        def raw_args_ok(c):
            a = arg_syms(c)
            return len(a) >= 3 and is_ptr_of_param(a[0]) and is_md_call(a[1], "len") and is_md_call(a[2], "capacity")

        # ---- owned_from_parts / drop_from_parts / clone_from_parts : per arm
        for fname in ("owned_from_parts", "clone_from_parts", "drop_from_parts"):
            f = fns.get(fname)
            if f is None:
                continue
            ks = kind_switch(f)
            if ks is None:
                chk.unrecognised("C14.b", f"{f.path} [kind match]", "no `match metadata.kind()` found", f.loc())
                continue
            sw, edges = ks
            b = f.body
            # every return passes through the kind match
            skip = [r for r in b.return_blocks() if r in b.reachable(0, cut={sw})]
            own_blocks = None
            if skip or set(edges) != set(KINDS):
                # the kind consulted by several two-way tests instead of one three-way match
                kr = kind_regions(f)
                if kr is not None and all(kr[0][k] for k in KINDS) and all(kr[1][k] is not None for k in KINDS):
                    own_blocks, firsts, sws_ = kr
                    skip = [r for r in b.return_blocks() if r in b.reachable(0, cut=set(sws_))]
                    edges = dict(firsts)
            chk.ob("C14.b", f"{f.path} [every path consults the kind]", not skip and set(edges) == set(KINDS), "all three kinds have their own arm and no return bypasses the match" if not skip and set(edges) == set(KINDS) else ("a return is reachable without consulting metadata.kind() (fast path conflating kinds)" if skip else f"arms for {sorted(edges)} only"), f.loc())
            sy = Sym(f)
            for kind in KINDS:
                if kind not in edges:
                    continue
                blocks = own_blocks[kind] if own_blocks is not None else arm_blocks(b, sw, edges[kind])
                calls = arm_calls(f, blocks)
                # a pure projection hoisted in front of the match (`let p = Self::borrowed_from_parts(ptr, metadata);`) serves every arm
                calls = calls + [c for c in f.body.calls() if c.bb not in blocks and c.is_("Cowable::borrowed_from_parts") and all(b.dominates(c.bb, x) for x in blocks) and c not in calls]
                eff = effects(calls)
                names = sorted(e[0] for e in eff)
                where = f"{f.path} [{kind}]"
                loc = f"{f.file}:{b.term(sw).get('ln')}"
                ok, detail = True, ""
                if fname == "owned_from_parts":
                    if kind == "Borrowed":
                        ok = not names and any(strip_generics(c.resolved or "").split("::")[-1] in copy_fns for c in calls) and any(c.is_("Cowable::borrowed_from_parts") for c in calls)
                        detail = "copies the borrowed data, releases nothing" if ok else f"Borrowed arm effects {names} (must only copy)"
                    elif kind == "Owned":
                        ok = names == ["rebuild-owner"] and eff[0][1].is_(*raw_owner) and raw_args_ok(eff[0][1]) and strip_sym(sy.local(0)) != () and sym_is_call(_ret_in(f, blocks), *raw_owner)
                        detail = "rebuilds the owner from (ptr, len, capacity) and returns it" if ok else f"Owned arm: effects {names}, args {[sym_str(a) for a in arg_syms(eff[0][1])] if eff else None} — expected from_raw_parts(ptr, len, capacity) returned"
                    else:
                        if names == ["arc-from-raw"] and is_borrowed_from_parts(arg_syms(eff[0][1])[0]):
                            rel, why = released_on_all_paths(f, blocks, eff[0][1], edges[kind])
                            copies = any(strip_generics(c.resolved or "").split("::")[-1] in copy_fns for c in calls)
                            ok = rel and copies
                            detail = "re-materialises the Arc, copies, and gives the reference back on every path" if ok else (why if not rel else "no copy made")
                        else:
                            ok = False
                            detail = f"Shared arm effects {names}: expected Arc::from_raw(borrowed_from_parts(ptr, metadata)) held across the copy (a bare decrement after the copy leaks on unwind)"
                elif fname == "drop_from_parts":
                    if kind == "Borrowed":
                        ok = not calls
                        detail = "nothing to release" if ok else f"Borrowed arm calls {[c.resolved for c in calls]}"
                    elif kind == "Owned":
                        if names == ["rebuild-owner"] and raw_args_ok(eff[0][1]):
                            ok, detail = _dropped(f, blocks, eff[0][1])
                        else:
                            ok = False
                            detail = f"Owned arm: effects {names}, expected Vec::from_raw_parts(ptr, len, capacity) dropped"
                    else:
                        if names == ["arc-from-raw"] and is_borrowed_from_parts(arg_syms(eff[0][1])[0]):
                            ok, detail = _dropped(f, blocks, eff[0][1])
                        elif names == ["arc-decrement"] and is_borrowed_from_parts(arg_syms(eff[0][1])[0]):
                            ok, detail = True, "decrements the strong count once"
                        else:
                            ok = False
                            detail = f"Shared arm effects {names}: expected exactly one release of the Arc reference (leak / double release otherwise)"
                else:  # clone_from_parts
                    ret = _ret_in(f, blocks)
                    if kind == "Borrowed":
                        ok = not names and _is_same_parts(ret)
                        detail = "bit copy of (ptr, metadata)" if ok else f"Borrowed arm effects {names}, returns {sym_str(ret)}"
                    elif kind == "Owned":
                        ok = names == ["owned-into-parts"] and sym_is_call(ret, "Cowable::owned_into_parts") and any(strip_generics(c.resolved or "").split("::")[-1] in copy_fns for c in calls) and any(c.is_("Cowable::borrowed_from_parts") for c in calls)
                        detail = "deep copy through owned_into_parts" if ok else f"Owned arm effects {names}, returns {sym_str(ret)} — an aliasing copy would be freed twice"
                    else:
                        if names == ["clone-shared"]:
                            cs = m.fn("metrics::cow::clone_shared")
                            a = arg_syms(eff[0][1])
                            okargs = is_param(a[0], 0) and is_param(a[1], 1)
                            inner = effects(list(cs.body.calls())) if cs else []
                            iok = cs is not None and [e[0] for e in inner] == ["arc-increment"] and is_borrowed_from_parts(arg_syms(inner[0][1])[0]) and _is_same_parts(strip_sym(Sym(cs).local(0))) and not [r for r in cs.body.return_blocks() if r in cs.body.reachable(0, cut={inner[0][1].bb})]
                            if not iok and cs is not None and [e[0] for e in inner] == ["arc-from-raw", "forget", "arc-increment"]:
                                # the same +1 spelled as std defines increment_strong_count: adopt the existing reference into
                                # an Arc that is never dropped (ManuallyDrop), clone it, hand the clone over as the new parts
                                fr, fg, inc = inner[0][1], inner[1][1], inner[2][1]
                                adopt = is_borrowed_from_parts(arg_syms(fr)[0])
                                kept = sym_is_call(sym_through(arg_syms(fg)[0]), "Arc<T>::from_raw", "Arc::from_raw") and fg.is_("ManuallyDrop<T>::new")
                                from_md = any(sym_is_call(x, "ManuallyDrop<T>::new") for x in sym_walk(arg_syms(inc)[0]) if isinstance(x, tuple))
                                rs = strip_sym(Sym(cs).local(0))
                                handed = sym_is_call(rs, "Cowable::shared_into_parts") and any(x is not None and isinstance(x, tuple) and x and x[0] == "call" and x[1] == (inc.resolved or inc.callee) for x in sym_walk(rs[2][0]))
                                every = not [r for r in cs.body.return_blocks() if not cs.body.blocks[r].get("cleanup") and r in cs.body.reachable(0, cut={inc.bb})]
                                iok = adopt and kept and from_md and handed and every
                            ok = okargs and iok and sym_is_call(ret, "cow::clone_shared")
                            detail = "increments the strong count once on every path and reuses the parts" if ok else "clone_shared does not increment the strong count exactly once on every path"
                        elif names == ["arc-increment"] and is_borrowed_from_parts(arg_syms(eff[0][1])[0]):
                            ok = _is_same_parts(ret)
                            detail = "increments the strong count once and reuses the parts" if ok else f"returns {sym_str(ret)}"
                        else:
                            ok = False
                            detail = f"Shared arm effects {names}: a clone must take exactly one new reference"
                chk.ob("C14.b", where, ok, detail, loc)
        # ---- *_into_parts
        f = fns.get("owned_into_parts")
        if f:
            eff = effects(list(f.body.calls()))
            names = [e[0] for e in eff]
            r = strip_sym(Sym(f).local(0))
            ok = names == ["forget"] and eff[0][1].is_("ManuallyDrop<T>::new")
            md = None
            if ok and r[0] == "agg" and r[1] == "tuple":
                md = strip_sym(r[3][1])
                ok = sym_is_call(md, "Metadata::owned") and _is_method_of_owned(md[2][0], "len") and _is_method_of_owned(md[2][1], "capacity") and _is_method_of_owned(r[3][0], "as_mut_ptr", through=("NonNull<T>::new_unchecked",))
                fw = strip_sym(arg_syms(eff[0][1])[0])
                ok = ok and (is_param(fw, 0) or (sym_is_call(fw, "String::into_bytes") and is_param(fw[2][0], 0)))
            else:
                ok = False
            nodrop = not [i for i in range(f.body.n) if f.body.term(i)["k"] == "drop" and not f.body.blocks[i].get("cleanup") and "ManuallyDrop" not in f.body.term(i)["pty"] and ("Vec" in f.body.term(i)["pty"] or "String" in f.body.term(i)["pty"])]
            # the recorded pointer stays the allocation's address: once it is taken, the owner is only measured (len, capacity),
            # never handed to something that may reallocate it
            caps = [c for c in f.body.calls() if strip_generics(c.resolved or c.callee or "").split("::")[-1] in ("as_mut_ptr", "as_ptr", "as_non_null")]
            if ok and len(caps) == 1:
                later = f.body.reachable_after(caps[0].bb)
                READS = ("len", "capacity", "as_ptr", "as_mut_ptr", "is_empty", "as_slice", "as_str", "as_bytes")
                movers = [c for c in f.body.calls() if c.bb in later and ("alloc::vec::Vec" in (c.resolved or "") or "alloc::string::String" in (c.resolved or "")) and strip_generics(c.resolved).split("::")[-1] not in READS]
                if movers:
                    ok = False
                    chk.ob("C14.b", f"{f.path} [pointer taken last]", False, f"{strip_generics(movers[0].resolved).split('::')[-1]}() runs on the owner after its data pointer was recorded: the allocation may move, and the Cow then reads, and later frees, the old block", movers[0].loc())
            chk.ob("C14.b", f.path, ok and nodrop, "wraps the owner in ManuallyDrop and records (ptr, len(), capacity()) in that order" if ok and nodrop else f"owned_into_parts builds {sym_str(r)} (effects {names}, owner dropped={not nodrop})", f.loc())
        f = fns.get("shared_into_parts")
        if f:
            eff = effects(list(f.body.calls()))
            names = [e[0] for e in eff]
            r = strip_sym(Sym(f).local(0))
            ok = names == ["arc-into-raw"] and is_param(arg_syms(eff[0][1])[0], 0) and r[0] == "agg" and sym_is_call(r[3][1], "Metadata::shared")
            if ok:
                # ... the recorded length being the ELEMENT count of the shared value (`arc.len()`), for `str` and for `[T]`
                # alike — a byte size (size_of_val) agrees with it only for one-byte elements
                la = strip_sym(strip_sym(r[3][1])[2][0])
                VIEWS_ = ("Deref::deref", "Arc<T>::deref", "Arc<T, A>::deref", "AsRef::as_ref", "Borrow::borrow", "str::as_bytes")
                ok = sym_is_call(la, "len") and is_param(sym_through(strip_sym(la[2][0]), *VIEWS_), 0)
            chk.ob("C14.b", f.path, ok, "Arc::into_raw(arc) + Metadata::shared(arc.len())" if ok else f"shared_into_parts: effects {names}, returns {sym_str(r)[:160]} — the length recorded for a shared value is not its element count", f.loc())
        f = fns.get("borrowed_into_parts")
        if f:
            eff = effects(list(f.body.calls()))
            r = strip_sym(Sym(f).local(0))
            ok = not eff and r[0] == "agg" and sym_is_call(r[3][1], "Metadata::borrowed")
            chk.ob("C14.b", f.path, ok, "pointer + Metadata::borrowed(len), nothing acquired" if ok else f"borrowed_into_parts: effects {[e[0] for e in eff]}, returns {sym_str(r)}", f.loc())
        f = fns.get("borrowed_from_parts")
        if f:
            r = strip_sym(Sym(f).local(0))
            while r[0] == "cast":
                r = strip_sym(r[1])
            ok = sym_is_call(r, "slice_from_raw_parts") and is_ptr_of_param(r[2][0]) and is_md_call(r[2][1], "len")
            chk.ob("C14.b", f.path, ok, "slice_from_raw_parts(ptr, metadata.len())" if ok else f"borrowed_from_parts returns {sym_str(r)} (length must come from len(), not capacity())", f.loc())

    # ---- Cow methods
    io = one_method(chk, "C14.b", m, COW, "into_owned")
    if io:
        cs = list(io.body.calls())
        names = [strip_generics(c.resolved or c.callee or "").split("::")[-1] for c in cs]
        md = [c for c in cs if c.is_("ManuallyDrop<T>::new")]
        ofp = [c for c in cs if c.is_("Cowable::owned_from_parts")]
        drops = [i for i in range(io.body.n) if io.body.term(i)["k"] == "drop" and "cow::Cow<" in io.body.term(i)["pty"] and "ManuallyDrop" not in io.body.term(i)["pty"]]
        ok = len(md) == 1 and len(ofp) == 1 and is_param(arg_syms(md[0])[0], 0) and io.body.dominates(md[0].bb, ofp[0].bb) and not drops
        if ok:
            a = arg_syms(ofp[0])
            ok = "'ptr'" in repr(a[0]) and "'metadata'" in repr(a[1])
        chk.ob("C14.b", io.path, ok, "self is moved into ManuallyDrop before the owner is rebuilt; Cow's Drop never runs on any path" if ok else f"into_owned: calls {names}; Cow dropped on a path={bool(drops)} (double free of the rebuilt owner)", io.loc())
    for trait, meth, inner in (("Drop", "drop", "Cowable::drop_from_parts"), ("Clone", "clone", "Cowable::clone_from_parts"), ("Deref", "deref", "Cowable::borrowed_from_parts")):
        f = one_method(chk, "C14.b", m, COW, meth, trait)
        if not f:
            continue
        cs = [c for c in f.body.calls() if c.is_(inner)]
        ok = len(cs) == 1
        if ok:
            a = arg_syms(cs[0])
            ok = "'ptr'" in repr(a[0]) and "'metadata'" in repr(a[1]) and is_param(_root(a[0]), 0) and is_param(_root(a[1]), 0)
            cut = {cs[0].bb}
            if meth == "drop":
                # releasing may be skipped for a Borrowed value only (it holds neither an allocation nor a reference)
                from facts import PredFlow

                def csw(subj, variant):
                    if sym_is_call(subj, "cow::Metadata::kind"):
                        return "P" if variant == "Borrowed" else "N"
                    return None

                pf = PredFlow(f, csw)
                cut |= {x for x in range(f.body.n) if pf.at(x) == "P"}
            skip = [r for r in f.body.return_blocks() if r in f.body.reachable(0, cut=cut) and r not in cut]
            ok = ok and not skip
        chk.ob("C14.b", f.path, ok, f"{meth}() = {inner.split('::')[-1]}(self.ptr, &self.metadata) on every path" if ok else f"{meth}() does not forward to {inner} exactly once with (self.ptr, &self.metadata)", f.loc())
    # std Cow conversion
    conv = [f for f in m.fns if f.name == "from" and f.j.get("impl_self", "").startswith("alloc::borrow::Cow<") and "cow::Cow<" in f.j.get("impl_trait_ref", "")]
    for f in conv:
        # whichever way the kind is inspected: the value is re-borrowed only where it is known to be Borrowed, and turned
        # into an owned copy (giving up what it held) only where it is known not to be
        from facts import PredFlow

        def csw_k(subj, variant):
            if sym_is_call(subj, "cow::Metadata::kind"):
                return "P" if variant == "Borrowed" else "N"
            return None

        def cb_k(x):
            # a bool obtained from one of the crate's own predicates on the kind (`self.is_borrowed()`): it says `Borrowed`
            # iff every result that predicate assigns is true exactly under kind == Borrowed (or exactly under the opposite)
            x = strip_sym(x)
            if not (isinstance(x, tuple) and x and x[0] == "call" and isinstance(x[1], str)):
                return None
            g = (getattr(m, "raw_by_path", None) or m.by_path).get(x[1])
            if g is None or not g.j.get("mir") or "bool" not in str(g.j.get("ret", g.j.get("sig", "bool"))):
                return None
            try:
                if PredFlow(g, csw_k).returned_bool_agrees()[0]:
                    return ("P", "N")
                if PredFlow(g, lambda s_, v_: {"P": "N", "N": "P"}.get(csw_k(s_, v_))).returned_bool_agrees()[0]:
                    return ("N", "P")
            except Exception:
                return None
            return None

        pfk = PredFlow(f, csw_k, cb_k)
        reb = [c for c in nonforeign_calls(f) if c.fn is f and c.is_("Cowable::borrowed_from_parts")]
        own = [c for c in nonforeign_calls(f) if c.fn is f and c.is_("Cow<'_, T>::into_owned", "cow::Cow<'a, T>::into_owned", "into_owned") and "cow::Cow" in (c.resolved or "")]
        ok = len(reb) == 1 and len(own) == 1 and pfk.at(reb[0].bb) == "P" and pfk.at(own[0].bb) == "N"
        detail = f"re-borrow under kind={pfk.at(reb[0].bb) if reb else None}, into_owned under kind={pfk.at(own[0].bb) if own else None} (P = Borrowed, N = not Borrowed)"
        chk.ob("C14.b", f.path, ok, "Owned|Shared -> into_owned, Borrowed -> re-borrow" if ok else f"std Cow conversion: {detail}", f.loc())

    # ---------------- C14.c
    cowmod = m.mods.get("metrics::cow")
    chk.ob("C14.c", "mod metrics::cow [private]", cowmod is not None and cowmod["pub"] is False, "the raw-parts API is not reachable from outside the crate" if cowmod is not None and not cowmod["pub"] else "mod cow is public: Cowable/Metadata could be driven from outside", "metrics/src/lib.rs")
    for tr in ("Send", "Sync"):
        imps = [i for i in m.impls if (i.get("trait") or "").endswith("marker::" + tr) and "cow::Cow<" in i["self_ty"]]
        ok = len(imps) == 1 and any(bnd.replace(" ", "").startswith("T:") and bnd.endswith("marker::" + tr) for bnd in imps[0]["bounds"])
        chk.ob("C14.c", f"unsafe impl {tr} for Cow", ok, f"conditional on T: {tr}" if ok else f"unsafe impl {tr} for Cow is not bounded by T: {tr}: {[i['bounds'] for i in imps]}", f"{imps[0]['file']}:{imps[0]['ln']}" if imps else "")
    witness_rule(ctx, "C14.c", "C14")


def _root(s):
    s = strip_sym(s)
    while isinstance(s, tuple) and s and s[0] in ("field", "downcast"):
        s = strip_sym(s[1])
    return s


def _is_method_of_owned(s, meth, through=()):
    s = sym_through(s, *through) if through else strip_sym(s)
    while s[0] == "cast":
        s = strip_sym(s[1])
    if not (s[0] == "call" and isinstance(s[1], str) and strip_generics(s[1]).split("::")[-1] == meth):
        return False
    return "ManuallyDrop" in repr(s[2][0])


def _is_same_parts(ret):
    ret = strip_sym(ret)
    return ret[0] == "agg" and ret[1] == "tuple" and len(ret[3]) == 2 and is_param(ret[3][0], 0) and is_param(ret[3][1], 1)


def _ret_in(f, blocks):
    """symbolic value assigned to the return place inside the given blocks"""
    b = f.body
    sy = Sym(f)
    vals = []
    for i in sorted(blocks):
        for s in b.blocks[i]["s"]:
            if s["k"] == "assign" and s["p"]["l"] == 0 and not s["p"].get("pr"):
                vals.append(sy.rvalue(s["rv"], 0, frozenset()))
        t = b.term(i)
        if t["k"] == "call" and t["dest"]["l"] == 0 and not t["dest"].get("pr"):
            name = t.get("resolved") or t.get("callee") or "?"
            vals.append(("call", name, tuple(sy.operand(a) for a in t["args"]), t.get("callee")))
    if len(vals) == 1:
        return strip_sym(vals[0])
    return ("phi", tuple(vals)) if vals else ("undef",)


def _dropped(f, blocks, acq):
    from props.common import drop_blocks_of

    b = f.body
    loc = acq.t["dest"]["l"]
    if drop_blocks_of(b, loc) & set(blocks):
        return True, "rebuilt owner is dropped"
    return False, "the rebuilt owner is not dropped in this arm (leak)"


def run_config(ctx):
    run(ctx)
