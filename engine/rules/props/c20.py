"""C20 — a recoverable recorder is live until recovered, inert and dropped once after."""
from facts import Sym, path_is, strip_generics, strip_sym, sym_arg, sym_calls, sym_is_call, sym_str, sym_through, sym_walk, walk
from props.common import RECORDER_METHODS, arg_syms, callee_method_name, crate_stats, enum_arms, gates, in_cycle, kind_consistent, need, nonforeign_calls, one_method, recorder_impls, siblings_isomorphic

KEEP = ["build", "install", "into_inner"]  # WeakRecorder::from_arc and other private helpers are spliced into their callers
TITLE = "C20 a recoverable recorder is live until recovered, inert and dropped once after."
CONFIGS = ["test-profile"]
RM = "metrics_util::recoverable"


def is_param(s, i):
    a = sym_arg(s)
    return a is not None and a[0] == i


def run(ctx):
    chk = ctx.check
    u = ctx.crate("metrics_util")
    crate_stats(chk, u)
    chk.rule("C20.a", "FWD: each WeakRecorder method reaches the wrapped recorder only on the Some edge of Weak::upgrade(self.recorder), through that upgraded Arc, same-named, arguments unchanged, with the Arc alive across the call; upgrade() lies on every path to a return and its Some edge always leads to the forwarded call; otherwise it returns the matching noop handle / nothing", floor=12)
    chk.rule("C20.b", "into_inner returns only the Ok payload of Arc::try_unwrap on the handle's own Arc and retries on Err (no panic, no count-then-unwrap); install failure returns SetRecorderError(handle.into_inner())", floor=3)
    chk.rule("C20.c", "WMC ownership: the only strong owner is RecoveryHandle.handle, the installed object holds a Weak made by Arc::downgrade; no strong clone, no strong_count/as_ptr peeking and no unsafe in the module", floor=4)
    chk.trust("Arc::try_unwrap", "Weak::upgrade", "Arc::downgrade")
    chk.residue.append("scheduling (termination of into_inner's retry loop) is not decided")

    impls = recorder_impls(u)
    rec = None
    for (self_ty, ip), ms in impls.items():
        if strip_generics(self_ty).endswith("recoverable::WeakRecorder"):
            rec = ms
    if rec is None:
        chk.unrecognised("C20.a", "<anchor> impl Recorder for WeakRecorder", "missing")
    else:
        for name in RECORDER_METHODS:
            f = rec.get(name)
            if not f:
                chk.unrecognised("C20.a", f"<anchor> <WeakRecorder as Recorder>::{name}", "missing")
                continue
            b = f.body
            kind = name.split("_")[1]
            kind_consistent(chk, "C20.a", f, kind)
            from facts import PredFlow
            from props.common import actual_of

            up = [c for c in nonforeign_calls(f) if c.fn is f and c.is_("Weak<T, A>::upgrade", "Weak<T>::upgrade")]
            inner = [c for c in nonforeign_calls(f) if (c.t.get("trait") or "").endswith("recorder::Recorder")]
            ok = len(up) == 1 and len(inner) == 1 and callee_method_name(inner[0]) == name
            detail = f"upgrade calls: {len(up)}, inner calls: {[callee_method_name(c) for c in inner]}"
            if ok:
                ua = strip_sym(arg_syms(up[0])[0])
                ok = ua[0] == "field" and is_param(ua[1], 0)  # the wrapper's (only) field: the Weak

                def is_up(x):
                    x = strip_sym(x)
                    # a borrowed view of the upgrade result (`strong.as_deref()`, `.as_ref()`) is Some exactly when it is
                    for _ in range(3):
                        if sym_is_call(x, "Option<T>::as_deref", "Option<T>::as_ref", "Option<T>::as_mut", "Option<T>::as_deref_mut") and len(x[2]) == 1:
                            x = strip_sym(x[2][0])
                    return sym_is_call(x, "upgrade") and "Weak" in str(strip_sym(x)[1])

                pf = PredFlow(f, lambda subj, v: {"Some": "P", "None": "N"}.get(v) if is_up(subj) else None)  # P = "upgrade() gave a live Arc"
                SOME_ONLY = ("Option<T>::map", "Option<T>::and_then", "Option<T>::map_or", "Option<T>::map_or_else", "Option<T>::inspect", "Option<T>::is_some_and")

                def live(cs, depth=0):
                    """(is the call reached only while an upgraded Arc exists, does its receiver come from that Arc)"""
                    g_ = cs.fn
                    if g_ is f:
                        return pf.at(cs.bb) == "P"
                    par_ = g_.parent
                    if par_ is None or depth > 4:
                        return False
                    for h_ in par_.region():
                        hs = Sym(h_)
                        for c in h_.body.calls():
                            a_ = [hs.operand(x) for x in c.args]
                            mine = [i for i, x in enumerate(a_) if strip_sym(x)[0] == "agg" and strip_sym(x)[1] == "closure" and strip_sym(x)[5] == g_.path]
                            if not mine:
                                continue
                            if c.is_("Fn::call", "FnMut::call_mut", "FnOnce::call_once") and mine == [0]:
                                return live(c, depth + 1)
                            if c.is_(*SOME_ONLY) and mine[-1] == len(a_) - 1 and is_up(a_[0]):
                                return True
                    return False

                is_live = live(inner[0])
                a = arg_syms(inner[0])
                recv0 = actual_of(inner[0].fn, a[0])
                through_arc = any(isinstance(x, tuple) and x and x[0] == "call" and is_up(x) for x in sym_walk(recv0)) or (inner[0].fn is not f and sym_arg(sym_through(a[0], "Deref::deref", "AsRef::as_ref")) is not None and is_live)
                if inner[0].fn is f:
                    args_ok = all(is_param(strip_sym(a[i]), i) for i in range(1, len(a)))
                else:
                    args_ok = all("('arg', %d" % i in repr(a[i]) for i in range(1, len(a)))
                alive = True
                if inner[0].fn is f:
                    # the upgraded Arc is dropped only after the inner call
                    arcs = [i for i in range(b.n) if b.term(i)["k"] == "drop" and "alloc::sync::Arc<" in b.term(i)["pty"] and not b.blocks[i].get("cleanup")]
                    alive = bool(arcs) and all(inner[0].bb not in b.reachable(d) for d in arcs)
                # the emission is never decided without consulting the handle: upgrade() lies on every path to a return, and a
                # path that saw a live Arc returns only through the forwarded call
                asked = all(b.dominates(up[0].bb, r) for r in b.return_blocks())
                passed = True
                if inner[0].fn is f and asked:
                    dead = {i for i in range(b.n) if pf.at(i) == "N"}
                    passed = not [r for r in b.return_blocks() if r in b.reachable(up[0].bb, dead | {inner[0].bb})]
                ok = ok and is_live and through_arc and args_ok and alive and asked and passed
                detail = f"reached only with a live upgraded Arc: {is_live}; through the upgraded Arc: {through_arc}; arguments unchanged: {args_ok}; Arc alive across the call: {alive}; upgrade() on every path to a return: {asked}; a live Arc always leads to the forwarded call: {passed}"
                if ok and name.startswith("register"):
                    noop = [c for c in nonforeign_calls(f) if c.is_(f"{kind.capitalize()}::noop")]
                    dead_edge = len(noop) == 1 and (pf.at(noop[0].bb) == "N" if noop[0].fn is f else True)
                    # or handed to unwrap_or_else / map_or_else as the fallback of the upgrade chain
                    as_fallback = any(c.is_("Option<T>::unwrap_or_else", "Option<T>::map_or_else", "Option<T>::unwrap_or", "Option<T>::map_or") and f"{kind.capitalize()}::noop" in repr(arg_syms(c)) for c in nonforeign_calls(f) if c.fn is f)
                    ok = dead_edge or as_fallback
                    detail = "the dead edge does not return the matching noop handle"
            chk.ob("C20.a", f"{f.path}", ok, f"{name}: upgrade() -> Some(arc) => arc.{name}(args) ; None => {'noop handle' if name.startswith('register') else 'nothing'}" if ok else f"{name} does not enter the wrapped recorder exclusively through a live Weak::upgrade() guard ({detail}): an emission may run inside the recorder while it is being recovered/dropped, reach the wrong method, or be discarded although the handle is alive", f.loc())
        for grp in ("describe", "register"):
            fk = {k: rec.get(f"{grp}_{k}") for k in ("counter", "gauge", "histogram")}
            if all(fk.values()):
                siblings_isomorphic(chk, "C20.a", fk, f"<WeakRecorder as Recorder>::{grp}_*")

    # ---------------- C20.b
    ii = one_method(chk, "C20.b", u, f"{RM}::RecoveryHandle", "into_inner")
    if ii:
        b = ii.body
        sy = Sym(ii)
        tu = [c for c in nonforeign_calls(ii) if c.fn is ii and c.is_("Arc<T, A>::try_unwrap", "Arc<T>::try_unwrap")]
        ok = len(tu) == 1
        detail = f"{len(tu)} try_unwrap calls"
        if ok:
            a = strip_sym(arg_syms(tu[0])[0])
            def flat(x):
                x = strip_sym(x)
                if x[0] == "phi":
                    return [z for y in x[1] for z in flat(y)]
                return [x]

            def own_alt(x):
                # the handle's own Arc, or the very Arc a failed try_unwrap handed back (possibly through map_err)
                if x[0] == "field" and x[2] == "handle":
                    return True
                if x[0] == "cycle":
                    return True
                if x[0] == "field" and strip_sym(x[1])[0] == "downcast" and strip_sym(x[1])[2] == "Err":
                    return True
                return False

            alts_ = flat(a)
            own = all(own_alt(x) for x in alts_) and any(x[0] == "field" and x[2] == "handle" and sym_arg(sym_through(x[1])) is not None for x in alts_)
            ret = strip_sym(sy.local(0))
            alts = ret[1] if ret[0] == "phi" else [ret]
            def is_try(y):
                y = strip_sym(y)
                if sym_is_call(y, "Result<T, E>::map_err"):  # map_err leaves the Ok payload alone
                    y = strip_sym(y[2][0])
                return sym_is_call(y, "try_unwrap")

            from_ok = all((strip_sym(x)[0] == "field" and strip_sym(strip_sym(x)[1])[0] == "downcast" and strip_sym(strip_sym(x)[1])[2] == "Ok" and is_try(strip_sym(strip_sym(x)[1])[1])) or (strip_sym(x)[0] == "downcast" and strip_sym(x)[2] == "Ok") for x in alts)
            arms = enum_arms(ii, "result::Result")
            err = (arms or {}).get("Err")
            retry = err is not None and tu[0].bb in b.reachable(err["target"]) and not any(b.term(x)["k"] == "return" for x in b.reachable(err["target"], cut={tu[0].bb}))
            diverge = err is not None and any(b.term(x)["k"] == "call" and b.term(x).get("target") is None and "debug_assert" not in str(b.term(x).get("expc") or "") + str(b.term(x).get("exp") or "") for x in b.reachable(err["target"], cut={tu[0].bb}))
            ok = own and from_ok and retry and not diverge
            detail = f"own Arc: {own}; returns the Ok payload: {from_ok}; Err arm retries: {retry}; Err arm can panic: {diverge}"
        peek = [c for c in nonforeign_calls(ii) if callee_method_name(c) in ("strong_count", "weak_count", "get_mut", "into_inner")]
        if peek and ii.hir:
            # a count read inside a debug_assert! decides nothing
            from facts import walk as _hw2

            dl_ = set()
            for n_ in _hw2(ii.hir):
                if n_.get("k") == "If" and "debug_assert" in str(n_.get("exp") or ""):
                    dl_ |= {x.get("ln") for x in _hw2(n_) if x.get("k") in ("Call", "MethodCall")}
            peek = [c for c in peek if not (callee_method_name(c) in ("strong_count", "weak_count") and c.line in dl_)]
        chk.ob("C20.b", ii.path, ok and not peek, "loop { match Arc::try_unwrap(self.handle) { Ok(r) => return r, Err(h) => retry } }" if ok and not peek else f"into_inner is not a pure try_unwrap retry loop ({detail}; count/peek calls {[callee_method_name(c) for c in peek]}): checking the strong count and then unwrapping is a check-then-act race with a concurrent upgrade", ii.loc())
    inst = one_method(chk, "C20.b", u, f"{RM}::RecoverableRecorder", "install")
    if inst:
        b = inst.body
        sg = [c for c in nonforeign_calls(inst) if c.fn is inst and c.is_("metrics::recorder::set_global_recorder")]
        io = [c for c in nonforeign_calls(inst) if c.fn is inst and c.is_("RecoveryHandle<R>::into_inner")]
        from props.common import result_flow

        # the recorder is taken back exactly where the installation is known to have failed, however the result is inspected
        ok = len(sg) == 1 and len(io) == 1 and result_flow(inst, "metrics::recorder::set_global_recorder", "set_global_recorder").at(io[0].bb) == "N"
        if ok:
            sy = Sym(inst)
            wrapped = strip_sym(arg_syms(sg[0])[0])
            ok = "build" in sym_str(wrapped)
            errs = [s for i, k, s in b.stmts() if s["k"] == "assign" and s["rv"]["k"] == "agg" and (s["rv"].get("adt") or "").endswith("SetRecorderError")]
            ok = ok and len(errs) == 1 and sym_is_call(strip_sym(sy.operand(errs[0]["rv"]["ops"][0])), "into_inner")
        chk.ob("C20.b", inst.path, ok, "install failure returns SetRecorderError(handle.into_inner()): the original recorder intact" if ok else "a failed install does not hand the original recorder back through SetRecorderError(handle.into_inner())", inst.loc())
    bld = one_method(chk, "C20.b", u, f"{RM}::RecoverableRecorder", "build")
    if bld:
        r = strip_sym(Sym(bld).local(0))
        ok = r[0] == "agg" and r[1] == "tuple" and len(r[3]) == 2
        if ok:
            w = strip_sym(r[3][0])
            if w[0] == "call" and w[2]:
                # the wrapper is built by a conversion (`impl From<&Arc<R>> for WeakRecorder<R>`): decided on that impl's body
                conv = [g for g in u.fns if g.name in ("from", "into") and strip_generics(g.j.get("impl_self", "")).endswith("recoverable::WeakRecorder") and g.j.get("impl_trait") and (g.path == w[1] or strip_generics(g.path) == strip_generics(w[1]) or "WeakRecorder" in str(w[1]))]
                if len(conv) == 1:
                    inner = strip_sym(Sym(conv[0]).local(0))
                    if inner[0] == "agg" and (inner[5] or "").endswith("recoverable::WeakRecorder") and len(inner[3]) == 1 and sym_is_call(inner[3][0], "Arc<T, A>::downgrade", "Arc<T>::downgrade") and is_param(sym_through(strip_sym(inner[3][0])[2][0]), 0):
                        w = ("agg", inner[1], inner[2], (("call", strip_sym(inner[3][0])[1], (w[2][0],), strip_sym(inner[3][0])[3]),), inner[4], inner[5])
            ok = w[0] == "agg" and (w[5] or "").endswith("recoverable::WeakRecorder") and len(w[3]) == 1 and sym_is_call(w[3][0], "Arc<T, A>::downgrade", "Arc<T>::downgrade") and "'handle'" in repr(strip_sym(w[3][0])[2][0])
        if ok:
            h = strip_sym(r[3][1])
            ok = h[0] == "agg" and "handle" in h[4] and strip_sym(h[3][0])[0] == "field" and strip_sym(h[3][0])[2] == "handle"
        chk.ob("C20.b", bld.path, ok, "build() = (WeakRecorder { Arc::downgrade(&self.handle) }, RecoveryHandle { handle: self.handle })" if ok else "build() does not hand the only strong reference to the RecoveryHandle and a weak one to the wrapper", bld.loc())

    # ---------------- C20.c
    adts = {n: a for n, a in u.adts.items() if n.startswith(RM + "::")}
    wr = adts.get(f"{RM}::WeakRecorder")
    rh = adts.get(f"{RM}::RecoveryHandle")
    ok = wr is not None and rh is not None
    if ok:
        wt = {f["name"]: f["ty"] for f in wr["variants"][0]["fields"]}
        ht = {f["name"]: f["ty"] for f in rh["variants"][0]["fields"]}
        ok = list(wt.values()) == ["alloc::sync::Weak<R>"] and list(ht.values()) == ["alloc::sync::Arc<R>"]
    chk.ob("C20.c", "recoverable [field types]", ok, "WeakRecorder holds Weak<R>; RecoveryHandle holds the Arc<R>" if ok else "the installed wrapper does not hold only a Weak reference (a strong reference there keeps the recorder alive and into_inner never returns)", f"{wr['file']}:{wr['ln']}" if wr else "")
    # every WeakRecorder ever built holds a reference made by Arc::downgrade (helpers spliced in)
    built = []
    for f in u.fns:
        if f.parent is None and (f.path.startswith(RM + "::") or f"<{RM}::" in f.path) and "::tests::" not in f.path and not f.j.get("derived"):
            sy_ = Sym(f)
            for i, k, st in f.body.stmts():
                if st["k"] == "assign" and st["rv"]["k"] == "agg" and (st["rv"].get("adt") or "").endswith("recoverable::WeakRecorder"):
                    built.append((f, strip_sym(sy_.operand(st["rv"]["ops"][0]))))
    okb = bool(built) and all(sym_is_call(v, "Arc<T, A>::downgrade", "Arc<T>::downgrade") for _, v in built)
    chk.ob("C20.c", "recoverable [wrapper reference made by Arc::downgrade]", okb, f"{len(built)} construction site(s) of WeakRecorder, each from Arc::downgrade" if okb else "the wrapper's reference is not made with Arc::downgrade", "metrics-util/src/recoverable.rs")
    mod_fns = [f for f in u.fns if f.path.startswith(RM + "::") or f"<{RM}::" in f.path]
    mod_fns = [f for f in mod_fns if "::tests::" not in f.path and not f.j.get("derived")]
    bad = []
    for f in mod_fns:
        # a count read only to assert an invariant in debug builds decides nothing (lines of calls inside a debug_assert!)
        dbg_lines = set()
        root_ = f
        while getattr(root_, "parent", None) is not None:
            root_ = root_.parent
        for hf in {id(f): f, id(root_): root_}.values():
            if hf.hir:
                from facts import walk as _hw

                for n_ in _hw(hf.hir):
                    if n_.get("k") == "If" and "debug_assert" in str(n_.get("exp") or ""):
                        dbg_lines |= {x.get("ln") for x in _hw(n_) if x.get("k") in ("Call", "MethodCall")}
        # helpers spliced into f keep their own typed tree
        for pth in getattr(f, "inlined", ()) or ():
            hf = (getattr(u, "raw_by_path", None) or {}).get(pth)
            if hf is not None and hf.j.get("hir"):
                from facts import walk as _hw

                for n_ in _hw(hf.j["hir"]):
                    if n_.get("k") == "If" and "debug_assert" in str(n_.get("exp") or ""):
                        dbg_lines |= {x.get("ln") for x in _hw(n_) if x.get("k") in ("Call", "MethodCall")}
        for c in f.body.calls():
            n = callee_method_name(c)
            r = c.resolved or ""
            if n in ("strong_count", "weak_count") and c.line in dbg_lines:
                continue
            if n in ("strong_count", "weak_count", "as_ptr", "into_raw", "from_raw", "increment_strong_count", "decrement_strong_count", "get_mut_unchecked") and ("sync::Arc" in r or "sync::Weak" in r):
                bad.append(f"{f.name}: {n}")
            if n == "clone" and "Arc<" in (c.t.get("self_ty") or "") + r and "sync::Arc" in r:
                bad.append(f"{f.name}: Arc::clone")
    chk.ob("C20.c", "recoverable [no count peeking / strong clones]", not bad, f"{len(mod_fns)} functions: liveness is decided only by upgrade()/try_unwrap()" if not bad else f"reference counts are peeked at or strong clones are made: {bad} — a count check followed by a raw borrow/unwrap is not atomic with concurrent emissions", "metrics-util/src/recoverable.rs")
    unsafe_blocks = []
    raw = getattr(u, "raw_fns", None) or u.fns  # HIR is per source function: include the helpers that were spliced away
    for f in [x for x in raw if (x.path.startswith(RM + "::") or f"<{RM}::" in x.path) and "::tests::" not in x.path and not x.j.get("derived")]:
        if f.j.get("unsafe"):
            unsafe_blocks.append(f.name)
        if f.hir is not None and any(n.get("k") == "Block" and n.get("unsafe") for n in walk(f.hir)):
            unsafe_blocks.append(f.name)
    chk.ob("C20.c", "recoverable [no unsafe]", not unsafe_blocks, "the module contains no unsafe code" if not unsafe_blocks else f"unsafe code in {sorted(set(unsafe_blocks))}: the Arc/Weak protocol is bypassed", "metrics-util/src/recoverable.rs")

    _imports(ctx)


def _imports(ctx):
    from props.common import import_rules

    import_rules(ctx, "C01", {"C01.b"}, "C20.e", "imported from C01 (an emission reaches the installed wrapper only on a thread without a local recorder): the thread-local slot is restored on every path that leaves a local scope, unwinding included — otherwise a stale local recorder shadows the installed wrapper for the rest of the thread's life", floor=6)
    import_rules(ctx, "C02", {"C02.a", "C02.b", "C02.c"}, "C20.d", "imported from C02 (install goes through set_global_recorder): single strong CAS, publication order, hand-back of the rejected recorder — otherwise a failed second install can wedge or replace the installed recoverable recorder", floor=10)


def run_config(ctx):
    run(ctx)
