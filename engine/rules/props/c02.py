"""C02 — the global recorder is installed at most once and is seen whole by everyone."""
from facts import Sym, path_is, strip_generics, strip_sym, sym_arg, sym_is_call, sym_str
from props.common import (
    ORDER_RANK,
    aggregates,
    arg_syms,
    atomic_ops,
    bool_switches,
    calls_to,
    crate_stats,
    field_accesses,
    need,
    nonforeign_calls,
    one_method,
    ordering_of,
    orderings_in,
    variant_edges,
)
from props.witness import witness_rule

TITLE = "C02 global recorder installed at most once, published whole."
CONFIGS = ["test-profile"]
CELL = "metrics::recorder::cell::RecorderOnceCell"


def run(ctx):
    chk = ctx.check
    m = ctx.crate("metrics")
    crate_stats(chk, m)
    chk.rule("C02.a", "WMC+TBL state machine: three pairwise distinct state constants; the only writes to `state` are one compare_exchange(UNINIT->INITIALIZING) and one store(INITIALIZED) on its success edge; only new/set/try_load touch the cell's fields; set_global_recorder -> GLOBAL_RECORDER.set; with_recorder reads only through try_load; GLOBAL_RECORDER is the only cell", floor=8)
    chk.rule("C02.b", "ORD+ATOM publication: UnsafeCell write on the CAS-success edge, dominating store(INITIALIZED) with ordering >= Release; try_load's state load >= Acquire dominates the UnsafeCell read, which is control-dependent on == INITIALIZED", floor=5)
    chk.rule("C02.c", "OWN hand-back: every non-success return builds Err(SetRecorderError(recorder)) from the parameter; Box::leak / forget / into_raw only on the success edge; the parameter is never dropped on a normal path", floor=4)
    chk.rule("C02.d", "TYPE: set_global_recorder rejects non-Sync (E0277) and non-'static (E0597) recorders; twins compile", floor=4)
    chk.trust("core::sync::atomic::Atomic<usize>::{compare_exchange,store,load}", "UnsafeCell::get", "ptr::write/read", "Box::new", "Box::leak")
    chk.residue.append("the C++11 memory-model argument itself (CAS gives one winner; Release/Acquire publishes the pointer) is trusted; the rules check its premises and do not explore interleavings")

    setf = one_method(chk, "C02.a", m, CELL, "set")
    load = one_method(chk, "C02.a", m, CELL, "try_load")
    newf = one_method(chk, "C02.a", m, CELL, "new")
    if not (setf and load and newf):
        return
    b = setf.body
    ops = atomic_ops(setf)
    cas = [o for o in ops if o[1] in ("compare_exchange", "compare_exchange_weak")]
    stores = [o for o in ops if o[1] == "store"]
    others = [o for o in ops if o[1] not in ("compare_exchange", "store", "load")]
    ok_shape = len(cas) == 1 and cas[0][1] == "compare_exchange" and len(stores) == 1 and not others
    chk.ob("C02.a", f"{setf.path} [state writes]", ok_shape, "one strong compare_exchange + one store" if ok_shape else f"atomic ops on the cell in set(): {[o[1] for o in ops]} (swap/weak CAS/extra writes break single-winner)", setf.loc())
    if not ok_shape:
        chk.floors = {}
        chk.rules = {k: v for k, v in chk.rules.items() if chk.count(k)}
        return
    casc, _, _, casargs = cas[0]
    stc, _, _, stargs = stores[0]

    def cint(s):
        s = strip_sym(s)
        return s[2] if s[:2] == ("const", "int") else None

    uninit, initing, inited = cint(casargs[1]), cint(casargs[2]), cint(stargs[1])
    new_ops = [c for c in nonforeign_calls(newf) if c.is_("Atomic<usize>::new", "AtomicUsize::new")]
    init0 = cint(arg_syms(new_ops[0])[0]) if new_ops else None
    distinct = None not in (uninit, initing, inited) and len({uninit, initing, inited}) == 3
    chk.ob("C02.a", f"{CELL} [state constants]", distinct and init0 == uninit, f"UNINIT={uninit} INITIALIZING={initing} INITIALIZED={inited}, new() starts at {init0}", setf.loc())

    # who touches the fields
    for field, allowed in (("state", {"new", "set", "try_load"}), ("recorder", {"new", "set", "try_load"})):
        acc = field_accesses(m, CELL, field)
        users = {f.path for (f, _, _, _) in acc if not f.j.get("derived")}
        bad = sorted(u for u in users if strip_generics(u).split("::")[-1] not in allowed or CELL not in strip_generics(u))
        chk.ob("C02.a", f"{CELL}.{field} [who-may-touch]", not bad and users, f"touched only by {sorted(strip_generics(u).split('::')[-1] for u in users)}" if not bad else f"also touched by {bad}", setf.loc())

    # plumbing
    sgr = m.fn("metrics::recorder::set_global_recorder")
    if need(chk, "C02.a", "set_global_recorder", sgr):
        cs = calls_to(sgr, "RecorderOnceCell::set")
        a = arg_syms(cs[0]) if cs else []
        ok = len(cs) == 1 and len(nonforeign_calls(sgr)) == 1 and strip_sym(a[0])[:3] == ("const", "static", "metrics::recorder::GLOBAL_RECORDER") and (sym_arg(a[1]) or (None,))[0] == 0
        chk.ob("C02.a", sgr.path, ok, "GLOBAL_RECORDER.set(recorder)" if ok else f"calls {[c.resolved for c in nonforeign_calls(sgr)]}", sgr.loc())
    # statics of the cell type
    statics = [f for f in m.fns if f.dk == "Static" and CELL in f.j.get("sty", "")]
    chk.ob("C02.a", "statics of type RecorderOnceCell", len(statics) == 1 and statics[0].path == "metrics::recorder::GLOBAL_RECORDER", f"{[s.path for s in statics]}", statics[0].loc() if statics else "")
    # readers of GLOBAL_RECORDER
    users = {}
    for f in m.fns:
        if f.j.get("file", "").endswith(".rs") and _uses_static(f, "metrics::recorder::GLOBAL_RECORDER"):
            users[f.path] = f
    bad = []
    for p, f in users.items():
        for c in nonforeign_calls(f):
            a = arg_syms(c)
            if a and strip_sym(a[0])[:3] == ("const", "static", "metrics::recorder::GLOBAL_RECORDER") and not c.is_("RecorderOnceCell::set", "RecorderOnceCell::try_load"):
                bad.append((p, c.resolved))
    chk.ob("C02.a", "GLOBAL_RECORDER [who-may-call]", not bad and users, f"used by {sorted(users)} only through set/try_load" if not bad else f"other access: {bad}")

    # emissions without a local recorder read the cell on every call (no per-thread or global cache of a miss)
    from props.c01 import with_recorder_leaves

    wrf = m.fn("metrics::recorder::with_recorder")
    if need(chk, "C02.a", "with_recorder", wrf):
        res = with_recorder_leaves(wrf)
        okl = res["n_user_calls"] == 3 and res["found"]["global"] is not None and res["found"]["noop"] is not None
        chk.ob("C02.a", f"{wrf.path} [reads the cell on every emission]", okl, "the global leaf is the Some payload of GLOBAL_RECORDER.try_load() evaluated in this call; the no-op leaf is gated by that call returning None" if okl else "with_recorder does not dispatch on a fresh GLOBAL_RECORDER.try_load() result (cached lookup? a miss would be remembered)", wrf.loc())

    # ---- C02.b publication
    edges = variant_edges(b, casc.t["target"]) if b.term(casc.t["target"])["k"] == "switch" else {}
    ok_edge = ("Ok" in edges) and True
    writes = [c for c in nonforeign_calls(setf) if c.is_("ptr::mut_ptr::write", "<impl *mut T>::write", "ptr::write", "UnsafeCell<T>::get_mut", "mem::replace")]
    wr = [c for c in writes if c.is_("write") or True]
    wr = [c for c in nonforeign_calls(setf) if strip_generics(c.resolved or "").endswith("::write") or c.is_("ptr::write")]
    if len(wr) != 1 or not ok_edge:
        chk.unrecognised("C02.b", f"{setf.path} [cell write]", f"expected one raw write into the UnsafeCell and an Ok edge after the CAS; writes={[c.resolved for c in wr]} edges={list(edges)}", setf.loc())
    else:
        w = wr[0]
        okedge = (casc.t["target"], edges["Ok"])
        on_success = b.edge_dominates(okedge, w.bb)
        # the written pointer comes from UnsafeCell::get(&self.recorder)
        ws = arg_syms(w)
        dst_ok = sym_is_call(ws[0], "UnsafeCell<T>::get") and "'recorder'" in repr(ws[0])
        chk.ob("C02.b", f"{setf.path} [write on CAS-success edge]", on_success and dst_ok, "UnsafeCell write only reachable through the Ok edge of the CAS" if on_success and dst_ok else f"write not confined to the success edge (edge-dominated={on_success}, dest={sym_str(ws[0])})", w.loc())
        dom = b.dominates(w.bb, stc.bb) and w.bb != stc.bb
        chk.ob("C02.b", f"{setf.path} [write before publish]", dom, "the cell write dominates store(INITIALIZED)" if dom else "store(INITIALIZED) is reachable without the cell write having happened (publish hoisted above initialisation)", stc.loc())
        so = orderings_in(stargs)
        okord = len(so) == 1 and so[0] in ("Release", "SeqCst")
        chk.ob("C02.b", f"{setf.path} [publish ordering]", okord, f"store ordering {so}" + ("" if okord else " — must be >= Release to publish the pointer"), stc.loc())
        st_on_success = b.edge_dominates(okedge, stc.bb)
        chk.ob("C02.b", f"{setf.path} [store on success edge]", st_on_success, "store(INITIALIZED) only on the CAS-success edge" if st_on_success else "store(INITIALIZED) reachable on the failure path", stc.loc())
    # try_load
    lb = load.body
    lops = atomic_ops(load)
    loads = [o for o in lops if o[1] == "load"]
    reads = [c for c in nonforeign_calls(load) if strip_generics(c.resolved or "").endswith("::read") or c.is_("ptr::read")]
    if len(loads) != 1 or len(reads) != 1 or len(lops) != 1:
        chk.unrecognised("C02.b", f"{load.path}", f"expected one state load and one raw read, found atomics {[o[1] for o in lops]} reads {len(reads)}", load.loc())
    else:
        lo = orderings_in(loads[0][3])
        okord = len(lo) == 1 and lo[0] in ("Acquire", "SeqCst")
        chk.ob("C02.b", f"{load.path} [consume ordering]", okord, f"load ordering {lo}" + ("" if okord else " — must be >= Acquire"), loads[0][0].loc())
        # find the comparison switch
        gate = None
        for bb, d, t_t, f_t in bool_switches(lb):
            d = strip_sym(d)
            if d[0] == "bin" and d[1] in ("Eq", "Ne"):
                l, r = strip_sym(d[2]), strip_sym(d[3])
                cst = l if l[0] == "const" else r
                oth = r if l[0] == "const" else l
                if cst[:2] == ("const", "int") and sym_is_call(oth, "load"):
                    eq_target = t_t if d[1] == "Eq" else f_t
                    gate = (bb, eq_target, cst[2])
        if gate is None:
            chk.unrecognised("C02.b", f"{load.path} [gate]", "no comparison of the loaded state with a constant found", load.loc())
        else:
            bb, eq_t, val = gate
            conf = lb.edge_dominates((bb, eq_t), reads[0].bb)
            chk.ob("C02.b", f"{load.path} [read gated by INITIALIZED]", conf and val == inited, f"UnsafeCell read only on the state == {val} edge" if conf and val == inited else f"read not confined to state == INITIALIZED (gate value {val}, INITIALIZED {inited}, confined={conf})", reads[0].loc())

    # ---- C02.c hand-back
    errs = aggregates(setf, "SetRecorderError")
    sy = Sym(setf)
    good_err_blocks = []
    for f, bb, k, s in errs:
        op = strip_sym(sy.operand(s["rv"]["ops"][0]))
        if sym_arg(op) is not None and sym_arg(op)[0] == 1:
            good_err_blocks.append(bb)
        else:
            chk.ob("C02.c", f"{setf.path} [Err payload]", False, f"SetRecorderError built from {sym_str(op)}, expected the `recorder` parameter itself", f"{setf.file}:{s['ln']}")
    if good_err_blocks:
        chk.ob("C02.c", f"{setf.path} [Err payload]", True, "SetRecorderError(recorder) built from the parameter", setf.loc())
    if edges and ok_edge:
        okedge = (casc.t["target"], edges["Ok"])
        boxes = [c for c in nonforeign_calls(setf) if c.is_("Box<T, A>::leak", "Box::leak", "Box<T>::leak", "mem::forget", "ManuallyDrop<T>::new", "Box<T, A>::into_raw", "Box<T>::into_raw")]
        bad = [c for c in boxes if not b.edge_dominates(okedge, c.bb)]
        chk.ob("C02.c", f"{setf.path} [allocation only on success]", boxes and not bad, "Box::leak (and any other ownership-releasing call) confined to the success edge" if boxes and not bad else f"allocation/leak reachable on the failure path: {[c.resolved for c in bad]}" if bad else "no Box::new/leak found", setf.loc())
        # every return is preceded by store(INITIALIZED) or by a good Err construction
        cut = set(good_err_blocks) | {stc.bb}
        reach = b.reachable(0, cut)
        rets = [r for r in b.return_blocks() if r in reach]
        chk.ob("C02.c", f"{setf.path} [every exit installs or hands back]", not rets, "every return path passes through store(INITIALIZED) or Err(SetRecorderError(recorder))" if not rets else "a return is reachable that neither installs nor hands the recorder back", setf.loc())
    drops = [(i, b.term(i)) for i in range(b.n) if b.term(i)["k"] == "drop" and b.term(i)["p"]["l"] == 2 and not b.blocks[i].get("cleanup")]
    chk.ob("C02.c", f"{setf.path} [no drop of the parameter]", not drops, "the recorder parameter is never dropped on a normal path" if not drops else "the recorder parameter is dropped on a normal (non-unwind) path", setf.loc())

    witness_rule(ctx, "C02.d", "C02")


def _uses_static(fn, path):
    for i, k, s in fn.body.stmts():
        if s["k"] == "assign" and path in repr(s["rv"]):
            return True
    for c in fn.body.calls():
        if path in repr(c.t.get("args")):
            return True
    return False


def run_config(ctx):
    run(ctx)
