"""C02 — the global recorder is installed at most once and is seen whole by everyone."""
from facts import PredFlow, Sym, path_is, strip_generics, strip_sym, sym_arg, sym_is_call, sym_str, sym_walk
from props.common import (
    aggregates,
    arg_syms,
    atomic_ops,
    cas_flow,
    crate_stats,
    drop_blocks_of,
    need,
    nonforeign_calls,
    orderings_in,
)
from props.c01 import is_cell_load, with_recorder_leaves
from props.witness import witness_rule

TITLE = "C02 global recorder installed at most once, published whole."
CONFIGS = ["test-profile"]
CELL = "metrics::recorder::cell::RecorderOnceCell"
# The cell's private methods (`set`, `new`, and whatever helpers they are split into) are spliced into their callers:
# the rules speak about the exported entry point set_global_recorder, the static of the cell type, and the function
# in the "reader of the cell" role (kept as a function because with_recorder dispatches on its result).
KEEP = [is_cell_load]
WRITES = ("store", "swap", "compare_exchange", "compare_exchange_weak", "fetch_add", "fetch_sub", "fetch_or", "fetch_and", "fetch_xor", "fetch_max", "fetch_min", "fetch_update", "fetch_nand")
RELEASING = ("Release", "AcqRel", "SeqCst")
ACQUIRING = ("Acquire", "AcqRel", "SeqCst")


def cint(s):
    s = strip_sym(s)
    return s[2] if s[:2] == ("const", "int") else None


def _mentions_static(s, path):
    return any(isinstance(x, tuple) and len(x) >= 3 and x[0] == "const" and x[2] == path for x in sym_walk(s))


def run(ctx):
    _run(ctx)
    if not getattr(ctx, "no_imports", False):
        _callers(ctx)


def _run(ctx):
    chk = ctx.check
    m = ctx.crate("metrics")
    crate_stats(chk, m)
    from props.common import import_rules

    import_rules(ctx, "C01", {"C01.b"}, "C02.e", "imported from C01 (which threads are `without a local recorder`): the thread-local slot is saved when a scope opens and restored on every path that leaves it, unwinding included — otherwise a thread whose scope has ended keeps dispatching to the stale local recorder instead of the installed global one", floor=6)
    if ctx.config == "default":  # the expansion witness is compiled against the default build only
      import_rules(ctx, "C01", {"C01.f"}, "C02.f", "imported from C01 (an `emission` is what the macros expand to): every arm of the emission and describe macros dispatches through with_recorder on every execution (one with_recorder call, not behind a once-guard or a cache) — otherwise a call site first run before the installation never reaches the installed recorder afterwards", floor=60)
    chk.rule("C02.a", "WMC+TBL state machine (set_global_recorder with the cell's helpers spliced in): three pairwise distinct state constants; the only atomic writes to the cell's state are one strong compare_exchange(UNINIT->INITIALIZING) and one publishing write of INITIALIZED that is reachable only if that CAS succeeded; nothing else writes the cell; exactly one static of the cell type, used only by set_global_recorder and with_recorder; with_recorder reads the cell afresh on every emission", floor=7)
    chk.rule("C02.b", "ORD+ATOM publication: the UnsafeCell write happens only after a successful CAS and dominates the publishing write, whose ordering is >= Release; the reader's state load is >= Acquire and its UnsafeCell read is reachable only if the loaded state == INITIALIZED", floor=5)
    chk.rule("C02.c", "OWN hand-back: every SetRecorderError is built from the recorder parameter; Box::leak / forget / into_raw only after a successful CAS; every return passes through the publishing write or through Err(SetRecorderError(recorder)); the parameter is never dropped on a normal path", floor=4)
    chk.rule("C02.d", "TYPE: set_global_recorder rejects non-Sync (E0277) and non-'static (E0597) recorders; twins compile", floor=4)
    chk.trust("core::sync::atomic::Atomic<usize>::{compare_exchange,store,swap,load}", "UnsafeCell::get", "ptr::write/read", "Box::new", "Box::leak")
    chk.residue.append("the C++11 memory-model argument itself (CAS gives one winner; Release/Acquire publishes the pointer) is trusted; the rules check its premises and do not explore interleavings")

    # ---- the one static of the cell type
    statics = [f for f in m.fns if f.dk == "Static" and CELL in f.j.get("sty", "")]
    ok_static = len(statics) == 1
    chk.ob("C02.a", "statics of type RecorderOnceCell", ok_static, f"{[s.path for s in statics]}", statics[0].loc() if statics else "")
    if not ok_static:
        return
    GLOBAL = statics[0].path
    sgr = m.fn("metrics::recorder::set_global_recorder")
    loads = m.role(is_cell_load)
    if len(loads) != 1:
        chk.unrecognised("C02.a", "<anchor> reader of the cell", f"expected one method of the cell returning Option<&'static dyn Recorder>, found {[f.path for f in loads]}")
    if not need(chk, "C02.a", "set_global_recorder", sgr) or len(loads) != 1:
        return
    load = loads[0]
    b = sgr.body
    sy = Sym(sgr)

    def on_cell(recv):
        return recv is not None and _mentions_static(recv, GLOBAL)

    ops = [o for o in atomic_ops(sgr) if on_cell(o[2])]
    cas = [o for o in ops if o[1].startswith("compare_exchange")]
    writes = [o for o in ops if o[1] in WRITES and not o[1].startswith("compare_exchange") and not b.blocks[o[0].bb].get("cleanup")]
    _writes_all = writes
    if not cas:
        # the same election spelled `state.fetch_update(.., |cur| (cur == UNINIT).then_some(INITIALIZING))`: the closure
        # yields the new state for exactly one old state, so Ok(..) <=> this caller moved UNINIT -> INITIALIZING
        for o in [o for o in ops if o[1] == "fetch_update"]:
            cl = [strip_sym(a) for a in o[3] if strip_sym(a)[0] == "agg" and strip_sym(a)[1] == "closure"]
            cf = m.fn(cl[0][5]) if len(cl) == 1 else None
            r_ = strip_sym(Sym(cf).local(0)) if cf is not None else None
            if r_ is not None and sym_is_call(r_, "bool::then_some") and len(r_[2]) == 2:
                cond, newv = strip_sym(r_[2][0]), strip_sym(r_[2][1])
                if cond[0] == "bin" and cond[1] == "Eq" and newv[0] == "const":
                    old_c = [x for x in (strip_sym(cond[2]), strip_sym(cond[3])) if x[0] == "const"]
                    cur_p = [x for x in (strip_sym(cond[2]), strip_sym(cond[3])) if sym_arg(x) is not None]
                    if len(old_c) == 1 and len(cur_p) == 1:
                        cas = [(o[0], "compare_exchange", o[2], [o[3][0], old_c[0], newv] + list(o[3][1:3]))]
    writes = [o for o in writes if not (cas and o[0].bb == cas[0][0].bb)]  # the electing operation itself is not "another write"
    ok_cas = len(cas) == 1 and cas[0][1] == "compare_exchange"
    chk.ob("C02.a", f"{sgr.path} [one strong CAS elects the installer]", ok_cas, "exactly one compare_exchange on GLOBAL_RECORDER's state" if ok_cas else f"atomic operations on the cell while installing: {[o[1] for o in ops]} — the installer is not elected by one strong compare_exchange (check-then-act, swap or weak CAS break single-winner / spurious hand-back)", sgr.loc())
    if not ok_cas:
        chk.floors = {}
        chk.rules = {k: v for k, v in chk.rules.items() if chk.count(k)}
        return
    casc, _, _, casargs = cas[0]
    flow = cas_flow(sgr, casc)
    pub = [o for o in writes if flow.at(o[0].bb) == "P"]
    stray = [o for o in writes if flow.at(o[0].bb) != "P"]
    ok_w = len(pub) == 1 and not stray
    chk.ob("C02.a", f"{sgr.path} [state writes]", ok_w, f"besides the CAS, one `{pub[0][1]}` of the state, reachable only after the CAS succeeded" if ok_w else f"state writes besides the CAS: {[(o[1], 'after successful CAS' if flow.at(o[0].bb) == 'P' else 'NOT confined to the CAS-success path') for o in writes]} (expected exactly one publishing write, on the success path)", (stray or pub or [cas[0]])[0][0].loc())
    if not ok_w:
        chk.floors = {}
        chk.rules = {k: v for k, v in chk.rules.items() if chk.count(k)}
        return
    stc, stm, _, stargs = pub[0]
    uninit, initing, inited = cint(casargs[1]), cint(casargs[2]), cint(stargs[1])
    init0 = None
    for c in nonforeign_calls(statics[0]):
        if c.is_("Atomic<usize>::new", "AtomicUsize::new", "Atomic<T>::new"):
            init0 = cint(arg_syms(c)[0])
    distinct = None not in (uninit, initing, inited) and len({uninit, initing, inited}) == 3
    chk.ob("C02.a", f"{CELL} [state constants]", distinct and init0 == uninit, f"UNINIT={uninit} INITIALIZING={initing} INITIALIZED={inited}, the static starts at {init0}", sgr.loc())

    # who writes the cell / who mentions the static (in the program with helpers spliced in)
    writers, users = set(), set()
    for f in m.fns:
        if not f.j.get("file", "").endswith(".rs"):
            continue
        root = f
        while root.parent is not None:
            root = root.parent
        if _uses_static(f, GLOBAL):
            users.add(strip_generics(root.path))
        for c, meth, recv, a in atomic_ops(f) if f.parent is None else ():
            if meth in WRITES and recv is not None and CELL in repr(_recv_types(f, c)):
                writers.add(strip_generics(root.path))
    want_users = {strip_generics(sgr.path), "metrics::recorder::with_recorder"}
    # a further user that only OBSERVES the state word (an `is initialised` accessor) takes no part in the protocol: it
    # neither writes the state (decided below for every function) nor touches the slot
    for extra in sorted(users - want_users):
        fs_ = [f for f in m.fns if f.parent is None and strip_generics(f.path) == extra]
        if fs_ and all(not any("UnsafeCell" in (c.resolved or "") for g_ in f.region() for c in g_.body.calls()) for f in fs_):
            users.discard(extra)
    chk.ob("C02.a", "GLOBAL_RECORDER [who-may-use]", users == want_users, f"used only by {sorted(u.split('::')[-1] for u in users)}" if users == want_users else f"the static is used by {sorted(users)}; expected exactly {sorted(want_users)}")
    chk.ob("C02.a", "RecorderOnceCell state [who-may-write]", writers <= {strip_generics(sgr.path)}, "only set_global_recorder writes the cell's state" if writers <= {strip_generics(sgr.path)} else f"the state is also written by {sorted(writers - {strip_generics(sgr.path)})}")

    # the state word is reached only by the operations counted above: a reference to it is never stored in a value or
    # handed to other code (a guard object holding `&state` writes it from its destructor, unseen by the election)
    sfield = next((x[2] for x in sym_walk(cas[0][2]) if isinstance(x, tuple) and len(x) >= 3 and x[0] == "field" and isinstance(x[2], str)), None)
    if sfield:
        def _state_ref(x):
            if not (isinstance(x, tuple) and x and x[0] == "ref"):
                return False
            y = strip_sym(x)  # `&*&state`: a re-borrow is the same reference
            return isinstance(y, tuple) and len(y) >= 3 and y[0] == "field" and y[2] == sfield and _mentions_static(x, GLOBAL)

        leaks = []
        for g_ in list(sgr.region()) + list(load.region()) + (list(m.fn("metrics::recorder::with_recorder").region()) if m.fn("metrics::recorder::with_recorder") else []):
            sg = Sym(g_)
            for c in g_.body.calls():
                for i_, a_ in enumerate(c.args):
                    if _state_ref(sg.operand(a_)) and not (i_ == 0 and "sync::atomic::Atomic" in (c.resolved or c.callee or "")):
                        leaks.append((f"passed to {strip_generics(c.resolved or c.callee or '?').split('::')[-1]}()", f"{g_.file}:{c.line}"))
            for i_, k_, st in g_.body.stmts():
                if st["k"] == "assign" and st["rv"]["k"] == "agg" and any(_state_ref(sg.operand(o_)) for o_ in st["rv"].get("ops") or []):
                    leaks.append((f"stored in a {st['rv'].get('adt') or st['rv'].get('agg')} value", f"{g_.file}:{st.get('ln')}"))
        chk.ob("C02.a", "RecorderOnceCell state [no alias of the state word]", not leaks, "references to the state are only ever the receiver of an atomic operation" if not leaks else f"a reference to the state word is {leaks[0][0]}: whatever holds it can write the state outside the election (e.g. a reset-on-drop guard that re-opens the election while the winner is still installing)", leaks[0][1] if leaks else sgr.loc(), nontrivial=False)

    # emissions without a local recorder read the cell on every call (no per-thread or global cache of a miss)
    wrf = m.fn("metrics::recorder::with_recorder")
    if need(chk, "C02.a", "with_recorder", wrf):
        res = with_recorder_leaves(wrf)
        inf = res["info"]
        # every recorder the closure may receive is the local one, the Some payload of a try_load() made in this very
        # call, or the no-op recorder chosen because that try_load() returned None
        okl = (
            any(i["global_payload"] and i["some_tl"] for i in inf)
            and any(i["noop_payload"] and i["none_tl"] for i in inf)
            and all((i["local_payload"] and i["some_get"]) or (i["global_payload"] and i["some_tl"]) or (i["noop_payload"] and i["none_tl"]) for i in inf)
        )
        chk.ob("C02.a", f"{wrf.path} [reads the cell on every emission]", okl, "the global leaf is the Some payload of GLOBAL_RECORDER.try_load() evaluated in this call; the no-op leaf is gated by that call returning None" if okl else "with_recorder does not dispatch on a fresh GLOBAL_RECORDER.try_load() result (cached lookup? a miss would be remembered)", wrf.loc())

    # ---- C02.b publication
    # writes into the cell's UnsafeCell: ptr.write(v) / ptr::write(ptr, v) / *ptr = v
    cell_writes = []  # (bb, dest-sym, value-sym, loc)
    for c in nonforeign_calls(sgr):
        if (strip_generics(c.resolved or "").endswith("::write") or c.is_("ptr::write", "mem::replace", "UnsafeCell<T>::replace")) and not b.blocks[c.bb].get("cleanup"):
            a_ = arg_syms(c)
            if _mentions_static(a_[0], GLOBAL):
                cell_writes.append((c.bb, a_[0], a_[1] if len(a_) > 1 else None, c.loc()))
    for i, k, st in b.stmts():
        if st["k"] == "assign" and st["p"].get("pr") and st["p"]["pr"][0] == "*" and not b.blocks[i].get("cleanup"):
            base = sy.local(st["p"]["l"])
            if sym_is_call(base, "UnsafeCell<T>::get") and _mentions_static(base, GLOBAL):
                cell_writes.append((i, base, sy.rvalue(st["rv"], 0, frozenset()), f"{sgr.file}:{st.get('ln')}"))
    if len(cell_writes) != 1:
        chk.unrecognised("C02.b", f"{sgr.path} [cell write]", f"expected one raw write into the cell's UnsafeCell, found {len(cell_writes)}", sgr.loc())
    else:
        class _W:
            pass

        w = _W()
        w.bb, dst_sym, val_sym, wloc = cell_writes[0]
        w.loc = lambda: wloc
        ws = [dst_sym, val_sym]
        on_success = flow.at(w.bb) == "P"
        dst_ok = sym_is_call(ws[0], "UnsafeCell<T>::get")
        chk.ob("C02.b", f"{sgr.path} [write on CAS-success path]", on_success and dst_ok, "UnsafeCell write only reachable after the CAS succeeded" if on_success and dst_ok else f"write not confined to the success path (after successful CAS={on_success}, dest={sym_str(ws[0])[:80]})", w.loc())
        # a `*ptr = v` statement precedes the terminator of its own block
        dom = b.dominates(w.bb, stc.bb) and (w.bb != stc.bb or cell_writes[0][3].startswith(sgr.file + ":") and not any(c.bb == w.bb and (strip_generics(c.resolved or "").endswith("::write") or c.is_("ptr::write")) for c in nonforeign_calls(sgr)))
        chk.ob("C02.b", f"{sgr.path} [write before publish]", dom, "the cell write dominates the publishing write of INITIALIZED" if dom else "the publishing write of INITIALIZED is reachable without the cell write having happened (publish hoisted above initialisation)", stc.loc())
        so = orderings_in(stargs)
        okord = len(so) == 1 and so[0] in RELEASING
        chk.ob("C02.b", f"{sgr.path} [publish ordering]", okord, f"{stm} ordering {so}" + ("" if okord else " — must be >= Release to publish the pointer"), stc.loc())
        # the value written is Some(leaked box of the parameter)
        val = ws[1] if len(ws) > 1 else None
        from_param = val is not None and any(isinstance(x, tuple) and x and x[0] == "arg" and x[1] == 0 for x in sym_walk(val))
        chk.ob("C02.b", f"{sgr.path} [installs the parameter]", from_param, "the cell receives a value built from the recorder parameter" if from_param else f"the cell receives {sym_str(val)[:100]}", w.loc())
    # the reader
    lb = load.body
    lops = atomic_ops(load)
    lds = [o for o in lops if o[1] == "load"]
    lsy = Sym(load)
    read_bbs = [c.bb for c in nonforeign_calls(load) if strip_generics(c.resolved or "").endswith("::read") or c.is_("ptr::read", "read_volatile")]
    for i, k, st in lb.stmts():
        if st["k"] == "assign" and st["rv"]["k"] == "use":
            pl = st["rv"]["a"].get("copy") or st["rv"]["a"].get("move")
            if pl and pl.get("pr") and pl["pr"][0] == "*" and sym_is_call(lsy.local(pl["l"]), "UnsafeCell<T>::get"):
                read_bbs.append(i)  # `*self.recorder.get()`

    class _R:
        def __init__(self, bb):
            self.bb = bb

        def loc(self):
            return load.loc()

    reads = [_R(x) for x in sorted(set(read_bbs))]
    if len(lds) != 1 or len(reads) != 1 or len(lops) != 1:
        chk.unrecognised("C02.b", f"{load.path}", f"expected one state load and one raw read, found atomics {[o[1] for o in lops]} reads {len(reads)}", load.loc())
    else:
        lo = orderings_in(lds[0][3])
        okord = len(lo) == 1 and lo[0] in ACQUIRING
        chk.ob("C02.b", f"{load.path} [consume ordering]", okord, f"load ordering {lo}" + ("" if okord else " — must be >= Acquire"), lds[0][0].loc())

        def cbool(s):
            s = strip_sym(s)
            if isinstance(s, tuple) and s and s[0] == "bin" and s[1] in ("Eq", "Ne"):
                l, r = strip_sym(s[2]), strip_sym(s[3])
                cst, oth = (l, r) if l[0] == "const" else (r, l)
                if cst[:2] == ("const", "int") and sym_is_call(oth, "load"):
                    if cst[2] == inited:
                        return ("P", "N") if s[1] == "Eq" else ("N", "P")
                    return ("N", "T") if s[1] == "Eq" else ("T", "N")
            return None

        def csw(subj, v):
            if sym_is_call(subj, "load"):
                if v == inited:
                    return "P"
                if isinstance(v, tuple) and v and v[0] == "not" and inited in v[1]:
                    return "N"
                if isinstance(v, int):
                    return "N"
            return None

        lflow = PredFlow(load, csw, cbool)
        conf = lflow.at(reads[0].bb) == "P"
        # the reader never waits: any state other than INITIALIZED means `no recorder yet` at once (an emission made by the
        # installing thread itself while it holds the claim — an allocator that reports metrics — would wait for itself)
        from props.common import in_cycle as _in_cycle

        loops = [i for i in range(load.body.n) if _in_cycle(load.body, i) and not load.body.blocks[i].get("cleanup")]
        chk.ob("C02.b", f"{load.path} [never waits]", not loops, "the lookup is loop-free: one load, one decision" if not loops else "the lookup loops (waits for another state): an emission that lands in the INITIALIZING window blocks instead of going to the no-op recorder", load.loc(), nontrivial=False)
        chk.ob("C02.b", f"{load.path} [read gated by INITIALIZED]", conf, f"UnsafeCell read reachable only when the loaded state == {inited}" if conf else f"the UnsafeCell read is not confined to state == INITIALIZED ({inited}): a half-installed recorder can be observed", reads[0].loc())

    # ---- C02.c hand-back
    errs = aggregates(sgr, "SetRecorderError")
    good_err_blocks = []
    for f, bb, k, s in errs:
        op = strip_sym(Sym(f).operand(s["rv"]["ops"][0]))
        if sym_arg(op) is not None and sym_arg(op)[0] == 0 and f is sgr:
            good_err_blocks.append(bb)
        else:
            chk.ob("C02.c", f"{sgr.path} [Err payload]", False, f"SetRecorderError built from {sym_str(op)[:80]}, expected the `recorder` parameter itself", f"{sgr.file}:{s.get('ln')}")
    if good_err_blocks:
        chk.ob("C02.c", f"{sgr.path} [Err payload]", True, "SetRecorderError(recorder) built from the parameter", sgr.loc())
    boxes = [c for c in nonforeign_calls(sgr) if c.is_("Box<T, A>::leak", "Box::leak", "Box<T>::leak", "mem::forget", "ManuallyDrop<T>::new", "Box<T, A>::into_raw", "Box<T>::into_raw")]
    bad = [c for c in boxes if flow.at(c.bb) != "P"]
    chk.ob("C02.c", f"{sgr.path} [allocation only on success]", boxes and not bad, "Box::leak (and any other ownership-releasing call) reachable only after the CAS succeeded" if boxes and not bad else f"allocation/leak reachable on the failure path: {[c.resolved for c in bad]}" if bad else "no Box::leak found", sgr.loc())
    cut = set(good_err_blocks) | {stc.bb}
    reach = b.reachable(0, cut)
    rets = [r for r in b.return_blocks() if r in reach]
    chk.ob("C02.c", f"{sgr.path} [every exit installs or hands back]", not rets, "every return path passes through the publishing write or Err(SetRecorderError(recorder))" if not rets else "a return is reachable that neither installs nor hands the recorder back", sgr.loc())
    drops = [d for d in drop_blocks_of(b, 1) if not b.blocks[d].get("cleanup")]
    chk.ob("C02.c", f"{sgr.path} [no drop of the parameter]", not drops, "the recorder parameter is never dropped on a normal path" if not drops else "the recorder parameter is dropped on a normal (non-unwind) path", sgr.loc())

    witness_rule(ctx, "C02.d", "C02")


def _recv_types(fn, c):
    """Types along the receiver place of an atomic call (to recognise fields of the cell type)."""
    out = []
    a = c.args[0] if c.args else None
    seen = set()

    def walk_local(l, depth=0):
        if l in seen or depth > 12:
            return
        seen.add(l)
        for d in fn.body.defs().get(l, []):
            if d[0] == "assign":
                rv = d[3]["rv"]
                p = rv.get("p") or (rv.get("a") or {}).get("copy") or (rv.get("a") or {}).get("move")
                if isinstance(p, dict) and "l" in p:
                    for e in p.get("pr") or []:
                        if isinstance(e, dict) and "of" in e:
                            out.append(e["of"])
                    walk_local(p["l"], depth + 1)
                c_ = (rv.get("a") or {}).get("const") if isinstance(rv.get("a"), dict) else None
                if c_:
                    out.append(c_.get("ty", ""))

    if a is not None:
        p = a.get("copy") or a.get("move")
        if p:
            for e in p.get("pr") or []:
                if isinstance(e, dict) and "of" in e:
                    out.append(e["of"])
            walk_local(p["l"])
    return out


def _uses_static(fn, path):
    for i, k, s in fn.body.stmts():
        if s["k"] == "assign" and path in repr(s["rv"]):
            return True
    for c in fn.body.calls():
        if path in repr(c.t.get("args")):
            return True
    return path in repr(fn.promoted_bodies())


def _callers(ctx):
    """Every caller of set_global_recorder in the workspace's exporters / utilities that branches on its result: where the
    installation FAILED, what the caller returns is an error (an `Err(..)` built there, or the residual of `?`) — never a
    success assembled from some earlier state (an `install` that answers a lost race with Ok(previous handle) reports
    success for a recorder that was not installed, and drops it)."""
    from facts import PredFlow

    chk = ctx.check
    if ctx.config != "default":
        return
    chk.rule("C02.g", "FWD callers: in every workspace function that calls set_global_recorder and branches on the result, each value returned where the call is known to have failed is an Err aggregate or the residual of `?`", floor=1)
    n = 0
    for cn in ("metrics_exporter_prometheus", "metrics_exporter_dogstatsd", "metrics_exporter_tcp", "metrics_util"):
        try:
            cr = ctx.crate(cn)
        except Exception:
            continue
        for f in cr.fns:
            if "::tests::" in f.path or "::test::" in f.path or not f.j.get("mir"):
                continue
            cs = [c for c in f.body.calls() if c.is_("metrics::set_global_recorder", "recorder::set_global_recorder", "set_global_recorder")]
            if not cs:
                continue

            def csw(subj, variant):
                if sym_is_call(subj, "metrics::set_global_recorder", "recorder::set_global_recorder", "set_global_recorder"):
                    return {"Err": "P", "Ok": "N"}.get(variant)
                return None

            pf = PredFlow(f, csw)
            b = f.body
            sy = Sym(f)
            bad = None
            seen_p = False
            for i, k, st in b.stmts():
                if pf.at(i) != "P":
                    continue
                seen_p = True
                if st["k"] == "assign" and st["p"]["l"] == 0 and not st["p"].get("pr"):
                    v = strip_sym(sy.rvalue(st["rv"], 0, frozenset()))
                    if not (v[0] == "agg" and v[2] == "Err"):
                        bad = bad or (i, sym_str(v)[:60])
            for i in range(b.n):
                t = b.term(i)
                if pf.at(i) == "P" and t["k"] == "call" and (t.get("dest") or {}).get("l") == 0 and not (t.get("dest") or {}).get("pr"):
                    seen_p = True
                    nm = strip_generics(t.get("resolved") or t.get("callee") or "").split("::")[-1]
                    if nm not in ("from_residual", "from", "into"):
                        bad = bad or (i, nm)
            n += 1
            chk.ob("C02.g", f"{f.path} [a failed installation is reported as an error]", bad is None, ("every value returned on the failed edge is an error" if seen_p else "the result is passed on unbranched") if bad is None else f"where set_global_recorder failed the function returns {bad[1]} — not an error built there: a caller that lost the installation is told it succeeded (and the rejected recorder is dropped)", f.loc(), nontrivial=seen_p)
    if not n:
        chk.unrecognised("C02.g", "<anchor> callers of set_global_recorder", "none found in the exporter / utility crates")


def run_config(ctx):
    run(ctx)
