"""C04 — Counter, gauge and histogram handles apply every update exactly once."""
from facts import Sym, find, is_local, path_is, peel, strip_generics, strip_sym, sym_arg, sym_is_call, sym_str, sym_through, walk
from props.common import (
    ORDER_RANK,
    arg_syms,
    atomic_ops,
    callee_method_name,
    crate_stats,
    has_panic_path,
    in_cycle,
    loc_of,
    need,
    nonforeign_calls,
    one_method,
    ordering_of,
    trait_calls,
)
from props.witness import witness_rule

KEEP = [  # private helpers the rules name (kept as functions); every other non-exported, non-trait function is spliced into its callers
    "RecorderOnceCell::set",
]
TITLE = "C04 handles apply every update exactly once."
CONFIGS = ["test-profile"]

HANDLES = {
    "Counter": ("CounterFn", {"increment": [1], "absolute": [1]}),
    "Gauge": ("GaugeFn", {"increment": [1], "decrement": [1], "set": [1]}),
    "Histogram": ("HistogramFn", {"record": [1], "record_many": [1, 2]}),
}
ALL_CRATES = ["metrics", "metrics_util", "metrics_tracing_context", "metrics_exporter_dogstatsd", "metrics_exporter_tcp", "metrics_exporter_prometheus"]


def handle_repr(m, ty):
    """(private field, live variant, no-op variant) of a handle type, read from its two constructors: from_arc(a) stores
    <live>(a) and noop() stores <no-op> — `inner: Option<Arc<..>>` with Some/None, or a private two-variant enum."""
    fa = (m.method(f"metrics::handles::{ty}", "from_arc") or [None])[0]
    nf = (m.method(f"metrics::handles::{ty}", "noop") or [None])[0]
    if fa is None or nf is None:
        return "inner", "Some", "None"
    ra, rn = strip_sym(Sym(fa).local(0)), strip_sym(Sym(nf).local(0))
    if ra[0] == "agg" and len(ra[3]) == 1 and rn[0] == "agg" and len(rn[3]) == 1:
        va, vn = strip_sym(ra[3][0]), strip_sym(rn[3][0])
        if va[0] == "agg" and va[2] and len(va[3]) == 1 and "('arg', 0" in repr(va[3][0]) and vn[0] == "agg" and vn[2] and not vn[3] and va[2] != vn[2] and strip_generics(va[1] or "") == strip_generics(vn[1] or ""):
            return (ra[4] or ("inner",))[0], va[2], vn[2]
    return "inner", "Some", "None"


def forward_ok(chk, rule, fn, trait, name, params, through=("IntoF64::into_f64",), need_some=None, live="Some"):
    """fn's region contains exactly one call of a `trait` method; it is `name`; argument i is param i."""
    tcs = [c for c in nonforeign_calls(fn) if (c.t.get("trait") or "").endswith(trait) or any(path_is(n, f"{trait}::{m}") for n in c.names for m in ("increment", "absolute", "decrement", "set", "record", "record_many"))]
    where = f"{fn.path}"
    if len(tcs) != 1:
        return chk.ob(rule, where, False, f"expected exactly one call of a {trait} method, found {[callee_method_name(c) for c in tcs]}", fn.loc())
    c = tcs[0]
    m = callee_method_name(c)
    if m != name:
        return chk.ob(rule, where, False, f"forwards to {trait}::{m}, expected {trait}::{name}", c.loc())
    if in_cycle(c.body, c.bb):
        return chk.ob(rule, where, False, "the forwarding call sits on a loop (may run more than once per update)", c.loc())
    sy = Sym(c.fn)
    for p in params:
        if p >= len(c.args):
            return chk.ob(rule, where, False, f"call has no argument {p}", c.loc())
        s = sym_through(sy.operand(c.args[p]), *through)
        a = sym_arg(s)
        if a is None or a[0] != p:
            return chk.ob(rule, where, False, f"argument {p} of the forwarded call is {sym_str(s)}, expected parameter #{p} unchanged", c.loc())
    if need_some:
        recv = sy.operand(c.args[0])
        txt = repr(recv)
        if f"'{need_some}'" not in txt or f"'{live}'" not in txt:
            return chk.ob(rule, where, False, f"receiver {sym_str(recv)} is not the {live} payload of self.{need_some}", c.loc())
    return chk.ob(rule, where, True, f"{trait}::{name}({', '.join('param#%d' % p for p in params)}) exactly once", c.loc())


def run(ctx):
    chk = ctx.check
    m = ctx.crate("metrics")
    crate_stats(chk, m)
    chk.rule("C04.a", "FWD: each handle method calls the same-named *Fn method exactly once, on the Some payload of `inner`, with the parameters unchanged (through IntoF64::into_f64 only); Arc<T> impls and From<Arc<T>> forward likewise", floor=16)
    chk.rule("C04.b", "ATOM: CounterFn/GaugeFn for AtomicU64 are one RMW per operation (fetch_add / fetch_max / fetch_update(from_bits(cur) +/- value) / swap|store(to_bits(value))); no load->store of self", floor=5)
    chk.rule("C04.c", "ORD: default HistogramFn::record_many is a loop over 0..count calling self.record(value) once per iteration; overriding impls must forward to record_many(value,count) or loop likewise", floor=2)
    chk.rule("C04.d", "TBL: IntoF64 impls are identity / as_secs_f64 / f64::from; GaugeValue::update_value arms Absolute->v, Increment->input+v, Decrement->input-v", floor=12)
    chk.rule("C04.e", "effect: no Assert terminator and no call into panicking machinery in handle/atomic/noop regions", floor=20)
    chk.rule("C04.f", "TYPE: handles are Send+Sync+Clone; from_arc rejects a !Sync handler (E0277)", floor=2)
    chk.trust("core::sync::atomic::Atomic<u64>::{fetch_add,fetch_max,fetch_update,swap,store}", "f64::{from_bits,to_bits}", "<f64 as From<T>>::from", "Duration::as_secs_f64")
    chk.residue.append("nothing beyond trusting std::sync::atomic and f64::from (with those trusted C04.b is sufficient for no-lost-update / sum mod 2^64 / monotone absolute)")

    panic_regions = []
    # ---- C04.a handles
    for ty, (trait, methods) in HANDLES.items():
        FLD, LIVE, NOOP = handle_repr(m, ty)
        for name, params in methods.items():
            f = one_method(chk, "C04.a", m, f"metrics::handles::{ty}", name)
            if f is None:
                continue
            forward_ok(chk, "C04.a", f, trait, name, params, need_some=FLD, live=LIVE)
            panic_regions.append(f)
        nf = one_method(chk, "C04.a", m, f"metrics::handles::{ty}", "noop")
        if nf is not None:
            sy = Sym(nf)
            r = strip_sym(sy.local(0))
            ok = r[0] == "agg" and len(r[3]) == 1 and repr(r[3][0]).find(f"'{NOOP}'") >= 0 and not nonforeign_calls(nf)
            chk.ob("C04.a", nf.path, ok, "noop() builds the handle with inner = None and calls nothing" if ok else f"noop() builds {sym_str(r)}", nf.loc(), nontrivial=False)
            panic_regions.append(nf)
    # Arc<T> impls
    for trait, methods in (("CounterFn", ["increment", "absolute"]), ("GaugeFn", ["increment", "decrement", "set"]), ("HistogramFn", ["record"])):
        for name in methods:
            fs = [f for f in m.method("Arc<T>", name, trait)]
            if len(fs) != 1:
                chk.unrecognised("C04.a", f"<anchor> <Arc<T> as {trait}>::{name}", f"found {len(fs)}")
                continue
            forward_ok(chk, "C04.a", fs[0], trait, name, [1])
            panic_regions.append(fs[0])
    # From<Arc<T>>
    for ty in HANDLES:
        fs = [f for f in m.fns if f.name == "from" and f.j.get("impl_self", "").endswith(f"handles::{ty}") and "Arc<T>" in f.j.get("impl_trait_ref", "")]
        if len(fs) != 1:
            chk.unrecognised("C04.a", f"<anchor> From<Arc<T>> for {ty}", f"found {len(fs)}")
            continue
        f = fs[0]
        cs = [c for c in nonforeign_calls(f)]
        ok = len(cs) == 1 and cs[0].is_(f"{ty}::from_arc") and sym_arg(arg_syms(cs[0])[0]) == (0, "inner") or (len(cs) == 1 and cs[0].is_(f"{ty}::from_arc") and (sym_arg(arg_syms(cs[0])[0]) or (None,))[0] == 0)
        chk.ob("C04.a", f.path, ok, "from(inner) = from_arc(inner)" if ok else f"calls {[c.resolved for c in cs]}", f.loc())
    # from_arc stores Some(arg)
    for ty in HANDLES:
        f = one_method(chk, "C04.a", m, f"metrics::handles::{ty}", "from_arc")
        if f is None:
            continue
        r = strip_sym(Sym(f).local(0))
        txt = repr(r)
        ok = r[0] == "agg" and f"'{handle_repr(m, ty)[1]}'" in txt and "('arg', 0" in txt
        chk.ob("C04.a", f.path, ok, "from_arc(a) stores Some(a)" if ok else f"builds {sym_str(r)}", f.loc())

    # ---- C04.b atomics
    ATOM = "Atomic<u64>"
    inc = one_method(chk, "C04.b", m, ATOM, "increment", "CounterFn")
    if inc:
        ops = atomic_ops(inc)
        ok = len(ops) == 1 and ops[0][1] == "fetch_add" and (sym_arg(ops[0][3][1]) or (None,))[0] == 1 and not in_cycle(ops[0][0].body, ops[0][0].bb)
        chk.ob("C04.b", inc.path, ok, "one fetch_add(value)" if ok else f"atomic ops: {[(o[1], [sym_str(a) for a in o[3][1:]]) for o in ops]}", inc.loc())
        panic_regions.append(inc)
    ab = one_method(chk, "C04.b", m, ATOM, "absolute", "CounterFn")
    if ab:
        ops = atomic_ops(ab)
        ok = len(ops) == 1 and ops[0][1] == "fetch_max" and (sym_arg(ops[0][3][1]) or (None,))[0] == 1
        detail_ = "one fetch_max(value)"
        if not ok and any(o[1].startswith("compare_exchange") for o in ops):
            from props.common import cas_loop

            ok, detail_ = cas_loop(ab, "Max")
        chk.ob("C04.b", ab.path, ok, detail_ if ok else f"atomic ops: {[(o[1], [sym_str(a) for a in o[3][1:]]) for o in ops]} ({detail_})", ab.loc())
        panic_regions.append(ab)
    for name, binop in (("increment", "Add"), ("decrement", "Sub")):
        g = one_method(chk, "C04.b", m, ATOM, name, "GaugeFn")
        if not g:
            continue
        panic_regions.append(g)
        ops = atomic_ops(g)
        if not (len(ops) == 1 and ops[0][1] in ("fetch_update", "try_update", "update")):
            from props.common import cas_loop

            okl, whyl = cas_loop(g, binop) if any(o[1].startswith("compare_exchange") for o in ops) else (False, "")
            chk.ob("C04.b", g.path, okl, whyl if okl else f"expected a single fetch_update RMW or a compare-exchange retry loop that recomputes from the observed value, found {[o[1] for o in ops]}" + (f": {whyl}" if whyl else ""), g.loc())
            continue
        c, _, recv, args = ops[0]
        # the closure passed last
        clos = [a for a in args if strip_sym(a)[0] == "agg" and strip_sym(a)[1] == "closure"]
        if len(clos) != 1:
            chk.unrecognised("C04.b", g.path, "fetch_update argument is not a closure literal", c.loc())
            continue
        cpath = strip_sym(clos[0])[5]
        cf = m.fn(cpath)
        ret = strip_sym(Sym(cf).local(0))
        # expected: Some(to_bits(OP(from_bits(param cur), value)))
        ok, why = False, sym_str(ret)
        if ret[0] == "agg" and ret[2] == "Some" and len(ret[3]) == 1 and sym_is_call(ret[3][0], "f64::to_bits", "to_bits"):
            inner = strip_sym(strip_sym(ret[3][0])[2][0])
            if inner[0] == "bin" and inner[1] in (binop, binop + "Unchecked"):
                a, b = strip_sym(inner[2]), strip_sym(inner[3])
                a_ok = sym_is_call(a, "f64::from_bits", "from_bits") and sym_arg(strip_sym(a)[2][0]) is not None and sym_arg(strip_sym(a)[2][0])[0] == 1
                b_arg = sym_arg(b)
                b_ok = b_arg is not None and b_arg[0] == 1 and b[0] == "arg" and _is_parent_param(inner[3])
                ok = a_ok and b_ok
            elif inner[0] == "bin":
                why = f"closure computes {inner[1]} — expected {binop} (operand order current, value)"
        # retry loop: the fetch_update result decides loop exit via is_ok (a failing closure never happens as it returns Some)
        chk.ob("C04.b", g.path, ok, f"fetch_update(|cur| Some(to_bits(from_bits(cur) {binop} value)))" if ok else f"closure returns {why}", c.loc())
    st = one_method(chk, "C04.b", m, ATOM, "set", "GaugeFn")
    if st:
        panic_regions.append(st)
        ops = atomic_ops(st)
        ok = len(ops) == 1 and ops[0][1] in ("swap", "store") and sym_is_call(ops[0][3][1], "f64::to_bits", "to_bits") and (sym_arg(strip_sym(ops[0][3][1])[2][0]) or (None,))[0] == 1
        chk.ob("C04.b", st.path, ok, "one swap/store(value.to_bits())" if ok else f"atomic ops: {[(o[1], [sym_str(a) for a in o[3][1:]]) for o in ops]}", st.loc())

    # ---- C04.c record_many
    dflt = m.fn("metrics::handles::HistogramFn::record_many")
    if need(chk, "C04.c", "default HistogramFn::record_many", dflt):
        _check_record_many_loop(chk, dflt)
        panic_regions.append(dflt)
    n_impls = 0
    for cn in ALL_CRATES:
        c = ctx.crate(cn)
        if c is None:
            continue
        for imp in c.impls_of("HistogramFn"):
            n_impls += 1
            over = [i for i in imp["items"] if i.endswith("::record_many")]
            if not over:
                chk.ob("C04.c", f"{imp['path']} (impl HistogramFn for {imp['self_ty']})", True, "does not override record_many (default loop applies)", f"{imp['file']}:{imp['ln']}", nontrivial=False)
                continue
            f = c.fn(over[0])
            fw = [cs for cs in nonforeign_calls(f) if callee_method_name(cs) == "record_many"]
            if fw:
                bad = []
                for cs in fw:
                    a = arg_syms(cs)
                    if not ((sym_arg(a[1]) or (None,))[0] == 1 and (sym_arg(a[2]) or (None,))[0] == 2):
                        bad.append(cs)
                chk.ob("C04.c", f.path, not bad, "override forwards record_many(value, count)" if not bad else "override forwards record_many with altered arguments", f.loc())
            else:
                _check_record_many_loop(chk, f)
    chk.analysed["HistogramFn impls"] = n_impls

    # ---- C04.d conversions
    into = [f for f in m.fns if f.name == "into_f64" and (f.j.get("impl_trait") or "").endswith("IntoF64")]
    for f in into:
        st_ = f.j["impl_self"]
        r = strip_sym(Sym(f).local(0))
        if st_ == "f64":
            ok = sym_arg(r) is not None and sym_arg(r)[0] == 0
            want = "identity"
        elif st_.endswith("Duration"):
            ok = sym_is_call(r, "Duration::as_secs_f64") and (sym_arg(r[2][0]) or (None,))[0] == 0
            want = "self.as_secs_f64()"
        else:
            # f64::from(self) or self.into() (the blanket Into goes through the same lossless From impl; the function returns f64)
            ok = (sym_is_call(r, "From::from", "convert::From<T>::from") and (sym_arg(r[2][0]) or (None,))[0] == 0 and "f64" in (r[1] if isinstance(r[1], str) else "") + str(r[3])) or (sym_is_call(r, "Into::into") and (sym_arg(r[2][0]) or (None,))[0] == 0 and not sym_is_call(r, "as_"))
            want = "f64::from(self) (lossless)"
        chk.ob("C04.d", f.path, ok, want if ok else f"returns {sym_str(r)}, expected {want}", f.loc())
        panic_regions.append(f)
    uv = one_method(chk, "C04.d", m, "metrics::common::GaugeValue", "update_value")
    if uv:
        _check_update_value(chk, uv)
        panic_regions.append(uv)
    hf = m.fn("metrics::common::__into_f64")
    if hf:
        r = strip_sym(Sym(hf).local(0))
        ok = sym_is_call(r, "IntoF64::into_f64") and (sym_arg(r[2][0]) or (None,))[0] == 0
        chk.ob("C04.d", hf.path, ok, "__into_f64(v) = v.into_f64()" if ok else sym_str(r), hf.loc())

    # ---- C04.e no panic
    for f in panic_regions:
        bad = has_panic_path(f)
        chk.ob("C04.e", f.path, not bad, "no assert/panic path" if not bad else f"panic path: {bad[0][2]}", f.loc(), nontrivial=False)

    # ---- C04.f witnesses
    witness_rule(ctx, "C04.f", "C04")
    _imports(ctx)


def _is_parent_param(s):
    """value operand inside the CAS closure must be the *parent's* parameter captured by the closure."""
    return "capture" in repr(s)


def _countdown_loop(f, c):
    """`let mut n = count; while n > 0 { self.record(value); n -= 1; }` (also `!= 0`): a variable initialised from the count
    parameter, tested against zero at the loop head, decremented by exactly one and accompanied by exactly one record() on
    every way round the loop."""
    from props.common import value_def, _single_def_of

    b = f.body
    a = arg_syms(c)
    if not ((sym_arg(a[0]) or (None,))[0] == 0 and (sym_arg(a[1]) or (None,))[0] == 1) or not in_cycle(b, c.bb):
        return False
    for N in range(b.argc + 1, len(b.locals)):
        ds = [d for d in b.defs().get(N, []) if d[0] == "assign"]
        if len(ds) != 2 or len(b.defs().get(N, [])) != 2:
            continue
        init = [d for d in ds if not in_cycle(b, d[1])]
        step = [d for d in ds if in_cycle(b, d[1])]
        if len(init) != 1 or len(step) != 1:
            continue
        iv = value_def(b, init[0][3]["rv"]["a"]) if init[0][3]["rv"]["k"] == "use" else None
        if iv is None or iv != ("var", 3):  # parameter #2 (count) is local _3
            continue
        # n = (n - 1), possibly through the overflow-checked pair
        sv = step[0][3]["rv"]
        src = value_def(b, sv["a"]) if sv["k"] == "use" else ("rv", step[0][1], sv)
        if src[0] == "place":
            dd = _single_def_of(b, src[1]["l"])
            src = ("rv", dd[1], dd[3]["rv"]) if dd is not None and dd[0] == "assign" else src
        if not (src[0] == "rv" and src[2]["k"] in ("bin", "checked_bin") and str(src[2].get("op", "")).startswith("Sub") and (src[2]["b"].get("const") or {}).get("int") == 1 and value_def(b, src[2]["a"]) == ("var", N)):
            continue
        D = step[0][1]
        # loop head: a bool switch on `n > 0` / `n != 0`
        for s_ in range(b.n):
            t = b.term(s_)
            if t["k"] != "switch" or t.get("dty") != "bool" or not in_cycle(b, s_):
                continue
            dl = (t["discr"].get("copy") or t["discr"].get("move") or {}).get("l")
            dd = _single_def_of(b, dl) if dl is not None else None
            if dd is None or dd[0] != "assign" or dd[3]["rv"]["k"] != "bin" or dd[3]["rv"]["op"] not in ("Gt", "Ne"):
                continue
            if value_def(b, dd[3]["rv"]["a"]) != ("var", N) or (dd[3]["rv"]["b"].get("const") or {}).get("int") != 0:
                continue
            vals = [x["v"] for x in t["arms"]]
            t_t = next((tg for lab, tg in b.switch_edges(s_) if ((not bool(vals[0]) if len(vals) == 1 else None) if lab == "otherwise" else bool(lab)) is True), None)
            f_t = next((tg for lab, tg in b.switch_edges(s_) if ((not bool(vals[0]) if len(vals) == 1 else None) if lab == "otherwise" else bool(lab)) is False), None)
            if t_t is None or f_t is None:
                continue
            # every way from the true edge back to the head passes the record call and the decrement; the false edge leaves
            if s_ in b.reachable(t_t, cut={c.bb}) or s_ in b.reachable(t_t, cut={D}) or s_ in b.reachable(f_t):
                continue
            # and each exactly once per round
            if c.bb in b.reachable_after(c.bb, cut={s_}) or D in b.reachable_after(D, cut={s_}):
                continue
            return True
    return False


def _check_record_many_loop(chk, f):
    from props.common import iteration_context

    recs = [c for c in nonforeign_calls(f) if callee_method_name(c) == "record"]
    where = f.path
    if len(recs) != 1:
        return chk.ob("C04.c", where, False, f"expected exactly one record() call site in the loop, found {len(recs)}", f.loc())
    c = recs[0]
    rng, why = iteration_context(c)
    if rng is None and _countdown_loop(f, c):
        return chk.ob("C04.c", where, True, "let mut n = count; while n > 0 { self.record(value); n -= 1 } — record once per unit of count", c.loc())
    if rng is None:
        return chk.ob("C04.c", where, False, f"record() is not run once per iteration of a loop over 0..count ({why}): record_many would not record `count` times", c.loc())
    a = arg_syms(c)
    if not ((sym_arg(a[0]) or (None,))[0] == 0 and (sym_arg(a[1]) or (None,))[0] == 1):
        return chk.ob("C04.c", where, False, f"record called with ({sym_str(a[0])}, {sym_str(a[1])}), expected (self, value)", c.loc())
    rng = strip_sym(rng)
    if rng[0] != "agg" or not (rng[5] or "").endswith("Range"):
        return chk.ob("C04.c", where, False, f"loop does not iterate a half-open range: {sym_str(rng)[:80]}", c.loc())
    lo, hi = strip_sym(rng[3][0]), strip_sym(rng[3][1])
    ok = lo[:3] == ("const", "int", 0) and (sym_arg(hi) or (None,))[0] == 2
    return chk.ob("C04.c", where, ok, "for _ in 0..count { self.record(value) }" if ok else f"range is {sym_str(lo)}..{sym_str(hi)}, expected 0..count", c.loc())


def _check_update_value(chk, f):
    h = f.hir
    ms = [n for n in walk(h) if n.get("k") == "Match"]
    if len(ms) != 1:
        return chk.unrecognised("C04.d", f.path, "expected one match on the GaugeValue variant", f.loc())
    want = {"Absolute": None, "Increment": "Add", "Decrement": "Sub"}
    seen = set()
    for arm in ms[0]["arms"]:
        pat = arm["pat"]
        if pat.get("k") != "TupleStruct" or not pat.get("path", "").startswith("metrics::common::GaugeValue::"):
            chk.unrecognised("C04.d", f"{f.path} [arm]", "unrecognised arm pattern", f"{f.file}:{arm['ln']}")
            continue
        var = pat["path"].split("::")[-1]
        seen.add(var)
        bind = pat["pats"][0].get("name")
        body = peel(arm["body"])
        if var == "Absolute":
            ok = is_local(body, bind)
            detail = "Absolute(v) -> v"
        else:
            ok = body.get("k") == "Binary" and body.get("op") == want[var] and is_local(body["a"], "input") and is_local(body["b"], bind)
            detail = f"{var}(v) -> input {'+' if var == 'Increment' else '-'} v"
        chk.ob("C04.d", f"{f.path} [{var}]", ok, detail if ok else f"arm body is {body.get('k')} {body.get('op', '')} — expected {detail}", f"{f.file}:{arm['ln']}")
    for v in want:
        if v not in seen:
            chk.ob("C04.d", f"{f.path} [{v}]", False, "variant has no arm of its own", f.loc())


def _imports(ctx):
    from props.common import import_rules

    import_rules(ctx, "C05", {"C05.a", "C05.b", "C05.c", "C05.d", "C05.e"}, "C04.g", "imported from C05 (AtomicBucket<f64> is the standard histogram storage behind Histogram::record): slot claim/publish protocol, wait-before-read, link-before-publish, claims fenced before a detached block is read — otherwise a recorded value is delivered zero times", floor=10)
    import_rules(ctx, "C16", {"C16.b"}, "C04.i", "imported from C16 (AtomicSamplingReservoir is the HistogramFn storage of a sampled histogram): the two halves are swapped and the previous one drained and reset to empty under the swap mutex — otherwise a recorded value is delivered in two flushes, or wiped before any flush reads it", floor=3)
    import_rules(ctx, "C10", {"C10.a"}, "C04.h", "imported from C10 (the DogStatsD recorder's CounterFn/GaugeFn storage, a sibling implementation behind the same handles): updates are single atomic read-modify-write operations whose retry closure always yields a value — otherwise an update through a handle is lost or panics", floor=3)


def run_config(ctx):
    run(ctx)
