"""C07 — Prometheus output reports exactly what was recorded, each sample once."""
from facts import Sym, path_is, strip_generics, strip_sym, sym_arg, sym_calls, sym_is_call, sym_str, sym_through, sym_walk
from props.common import arg_syms, atomic_ops, callee_method_name, calls_to, crate_stats, gates, in_cycle, kind_consistent, need, nonforeign_calls, one_method, orderings_in, recorder_impls, region_tokens, siblings_isomorphic, RECORDER_METHODS
from props.c06 import guard_drop_blocks

KEEP = [  # private helpers the rules name (kept as functions); every other non-exported, non-trait function is spliced into its callers
    "AtomicBucketInstant::clear_with", "AtomicBucketInstant::new", "Block::new", "Block::push",
    "CompositeKeyName::new", "Generational::new", "Inner::drain_histograms_to_distributions", "Inner::get_recent_metrics",
    "Inner::new", "Inner::render", "MetricKindMask::value",
    "PrometheusRecorder::add_description_if_missing", "Reservoir::drain", "Reservoir::push",
]
TITLE = "C07 Prometheus output reports exactly what was recorded, each sample once."
CONFIGS = ["test-profile", "prom-nodefault"]
INNER = "metrics_exporter_prometheus::recorder::Inner"
RECORDER = "metrics_exporter_prometheus::recorder::PrometheusRecorder"
MUTATING = ("insert", "insert_full", "insert_sorted", "insert_before", "shift_insert", "replace", "replace_full", "push", "extend", "append", "insert_unique_unchecked", "try_insert")


def is_param(s, i):
    a = sym_arg(s)
    return a is not None and a[0] == i


def flat_phi(s):
    s = strip_sym(s)
    out = []
    if s[0] == "phi":
        for x in s[1]:
            out += flat_phi(x)
    elif s[0] == "cast":
        out += flat_phi(s[1])
    else:
        out.append(s)
    return out


def metric_lines(f):
    """write_metric_line call sites of f with their argument syms."""
    out = []
    for c in nonforeign_calls(f):
        if c.fn is f and c.is_("formatting::write_metric_line"):
            a = arg_syms(c)
            suffix = strip_sym(a[2])
            sfx = None
            if suffix[0] == "agg" and suffix[2] == "Some":
                v = strip_sym(suffix[3][0])
                sfx = v[2] if v[:2] == ("const", "str") else "?"
            add = strip_sym(a[4])
            lab = None
            if add[0] == "agg" and add[2] == "Some":
                t = strip_sym(add[3][0])
                if t[0] == "agg" and t[3]:
                    v = strip_sym(t[3][0])
                    lab = v[2] if v[:2] == ("const", "str") else "?"
            out.append({"c": c, "name": a[1], "suffix": sfx, "label": lab, "label_sym": add, "value": a[5], "unit": strip_sym(a[6]) if len(a) > 6 else None})
    return out


def run(ctx):
    chk = ctx.check
    p = ctx.crate("metrics_exporter_prometheus")
    crate_stats(chk, p)
    chk.rule("C07.a", "WMC drain once: the exporter's histogram storage exposes samples only through clear_with; its only caller is drain_histograms_to_distributions; inside the callback the samples go to exactly one Distribution::record_samples; the per-series distribution is created through the entry API under the same write guard that is held across the drain", floor=5)
    chk.rule("C07.b", "TBL aggregation arms: record_samples Histogram arm -> record_many over every sample value; Summary arm -> per sample one add(sample, ts) and sum += sample; render takes _count/_sum from the cumulative counters of the same objects (histogram.count()/sum(), summary.count(), the sum field), never from the windowed snapshot", floor=4)
    chk.rule("C07.c", "provenance scalar snapshots: counter/gauge values written into the snapshot are the atomic load of get_inner() of the handle being visited (gauge through f64::from_bits)", floor=2)
    chk.rule("C07.d", "ORD label merge: key_to_parts starts from the global labels and inserts the key's labels afterwards with an overwriting insert; rendering iterates that map", floor=1)
    chk.rule("C07.e", "TBL first description wins: add_description_if_missing only ever does entry(sanitised name).or_insert((description, unit)); all three describe_* forward to it with (name, description, unit) in the right positions", floor=4)
    chk.rule("C07.f", "FWD+KIND recorder plumbing: register_* -> registry.get_or_create_<kind>(key, ..); render -> Inner::render; run_upkeep -> drain only", floor=8)
    chk.trust("IndexMap::{entry,insert,iter}", "HashMap entry API", "f64/u64 Display (shortest round-trip)", "AtomicU64::load")
    chk.residue.append("numeric equality of f64 sums is not decided; conservation under concurrent record/render/upkeep rests on the bucket (C05), whose premises are decided there")

    # ---------------- C07.a
    abi = [f for f in p.fns if f.dk == "AssocFn" and "registry::AtomicBucketInstant" in f.j.get("impl_self", "") and not f.j.get("derived")]
    exposed = sorted({f.name for f in abi if f.j.get("pub") and f.j.get("impl_trait") is None and f.name != "new"})
    chk.ob("C07.a", "AtomicBucketInstant [read API]", exposed == ["clear_with"], "samples can only be taken out destructively (clear_with)" if exposed == ["clear_with"] else f"AtomicBucketInstant exposes {exposed}: a non-destructive read would let samples be aggregated more than once", "metrics-exporter-prometheus/src/registry.rs")
    cwf = [f for f in abi if f.name == "clear_with"]
    if cwf:
        cs = [c for c in nonforeign_calls(cwf[0]) if c.is_("AtomicBucket<T>::clear_with")]
        ok = len(cs) == 1 and "'inner'" in repr(arg_syms(cs[0])[0]) and is_param(arg_syms(cs[0])[1], 1)
        chk.ob("C07.a", cwf[0].path, ok, "clear_with(f) = self.inner.clear_with(f)" if ok else "AtomicBucketInstant::clear_with does not drain the inner bucket with the caller's callback", cwf[0].loc())
    callers = sorted({(c.fn.parent or c.fn).path if c.fn.dk == "Closure" else c.fn.path for f in p.fns for c in f.body.calls() if c.is_("AtomicBucketInstant<T>::clear_with") and "::tests::" not in f.path})
    drain = (p.method(INNER, "drain_histograms_to_distributions") or [None])[0]
    ok = drain is not None and callers == [drain.path]
    chk.ob("C07.a", "AtomicBucketInstant::clear_with [who-may-call]", ok, "only drain_histograms_to_distributions drains the buckets" if ok else f"buckets are drained from {callers}", drain.loc() if drain else "")
    if drain:
        b = drain.body
        cw = [c for c in nonforeign_calls(drain) if c.fn is drain and c.is_("AtomicBucketInstant<T>::clear_with")]
        rs = [c for c in nonforeign_calls(drain) if c.is_("Distribution::record_samples")]
        ok = len(cw) == 1 and len(rs) == 1 and rs[0].fn is not drain and in_cycle(b, cw[0].bb)
        if ok:
            a = [Sym(rs[0].fn).operand(x) for x in rs[0].args]
            ok = is_param(strip_sym(a[1]), 1) and "capture" in repr(a[0])
        chk.ob("C07.a", f"{drain.path} [callback]", ok, "each drained slice goes to exactly one record_samples on the series' distribution" if ok else "drained samples are not handed to exactly one Distribution::record_samples", drain.loc())
        # entry-API creation under the write guard held across the drain
        locks = [c for c in nonforeign_calls(drain) if c.fn is drain and c.is_("RwLock<T>::write", "RwLock<T>::read")]
        muts = [c for c in nonforeign_calls(drain) if c.fn is drain and strip_generics(c.resolved or "").split("::")[-1] in MUTATING and ("indexmap" in (c.resolved or "") or "hash::map" in (c.resolved or "") or "hashbrown" in (c.resolved or ""))]
        entries = [c for c in nonforeign_calls(drain) if c.fn is drain and strip_generics(c.resolved or "").split("::")[-1] in ("or_insert_with", "or_default", "or_insert")]
        # `match map.entry(k) { Occupied(e) => e.into_mut(), Vacant(e) => e.insert(v) }` is or_insert(v) written out: an insert
        # through the VacantEntry handed out by entry(), on its Vacant edge, cannot replace an existing value
        vac = [c for c in muts if "VacantEntry" in (c.resolved or "") and callee_method_name(c) == "insert" and any(lab == "Vacant" and sym_is_call(dd, "entry") for dd, lab in gates(b, c.bb))]
        muts = [c for c in muts if c not in vac]
        ok = len(locks) == 1 and locks[0].is_("RwLock<T>::write") and not muts and len(entries) + len(vac) >= 2
        held = False
        if ok and cw:
            sy = Sym(drain)
            guard = None
            for c2 in drain.body.calls():
                if c2.is_("Result<T, E>::unwrap_or_else") and sym_is_call(sy.operand(c2.args[0]), "RwLock<T>::write"):
                    guard = c2.t["dest"]["l"]
            if guard is not None:
                dblocks = guard_drop_blocks(b, guard)
                start = locks[0].t.get("target")
                # the drain call is reached from the lock without passing a drop of the guard
                held = cw[0].bb in b.reachable(start, cut=dblocks) and not any(cw[0].bb in b.reachable(d) and not b.dominates(cw[0].bb, d) and not b.blocks[d].get("cleanup") and d in b.reachable(start) and cw[0].bb in b.reachable(d, cut={start}) and False for d in dblocks)
        chk.ob("C07.a", f"{drain.path} [create-or-get under one write guard]", ok and held, "the series' distribution is obtained with entry().or_default()/.or_insert_with() and drained into while the same write guard is held" if ok and held else f"distribution lookup/creation is split from the drain (locks {[callee_method_name(c) for c in locks]}, plain inserts {[callee_method_name(c) for c in muts]}): a racing render/upkeep can replace a distribution that was already drained into", drain.loc())

    # ---------------- C07.b
    rsf = (p.method("metrics_exporter_prometheus::distribution::Distribution", "record_samples") or [None])[0]
    if need(chk, "C07.b", "Distribution::record_samples", rsf):
        b = rsf.body
        sw = [i for i in range(b.n) if b.term(i)["k"] == "switch" and (b.term(i).get("enum") or "").endswith("distribution::Distribution")]
        if len(sw) != 1:
            chk.unrecognised("C07.b", f"{rsf.path}", "no match on the Distribution variant", rsf.loc())
        else:
            edges = {a["variant"]: a["bb"] for a in b.term(sw[0])["arms"]}
            for v in ("Histogram", "Summary"):
                if v not in edges:
                    rest = [x for x in ("Histogram", "Summary") if x not in edges]
                    if len(rest) == 1:
                        edges[rest[0]] = b.term(sw[0])["otherwise"]
            hb = {x for x in b.reachable(edges["Histogram"]) if b.edge_dominates((sw[0], edges["Histogram"]), x)}
            sb = {x for x in b.reachable(edges["Summary"]) if b.edge_dominates((sw[0], edges["Summary"]), x)}
            hc = [c for c in rsf.body.calls() if c.bb in hb and c.is_("Histogram::record_many")]
            okh = len(hc) == 1 and not in_cycle(b, hc[0].bb)
            if okh:
                it = strip_sym(arg_syms(hc[0])[1])
                chain = []
                cur = it
                while cur[0] == "call":
                    chain.append(strip_generics(cur[1]).split("::")[-1])
                    cur = strip_sym(cur[2][0])
                okh = chain[:1] == ["map"] and set(chain[1:]) <= {"iter", "into_iter", "deref"} and is_param(cur, 1)
            chk.ob("C07.b", f"{rsf.path} [Histogram]", okh, "histogram.record_many(every sample value)" if okh else "the Histogram arm does not record every drained sample exactly once", rsf.loc())
            from props.common import iteration_context

            adds = [c for c in nonforeign_calls(rsf) if c.is_("RollingSummary::add")]
            oks = len(adds) == 1
            if oks:
                ad = adds[0]
                in_arm = (ad.bb in sb) if ad.fn is rsf else any(lab == "Summary" for dd, lab in gates(ad.body, ad.bb))
                src, _why = iteration_context(ad)
                src_ok = src is not None and is_param(sym_through(src, "Deref::deref"), 1)
                fb = ad.body
                fsy = Sym(ad.fn)
                sums = []
                for i, k_, st in fb.stmts():
                    if st["k"] == "assign" and st["p"].get("pr") and st["rv"]["k"] == "bin" and st["rv"]["op"].startswith("Add") and not fb.blocks[i].get("cleanup"):
                        if ad.fn is not rsf or (i in sb and in_cycle(fb, i)):
                            sums.append((i, st))
                oks = in_arm and src_ok and len(sums) == 1
                if oks:
                    a = arg_syms(ad)
                    oks = "'0'" in repr(a[1]) and "'1'" in repr(a[2])
                    # ... the timestamp being that SAMPLE's own: not one element's (the batch's last) or the clock's for all
                    oks = oks and not any(isinstance(x, tuple) and x and x[0] == "call" and isinstance(x[1], str) and strip_generics(x[1]).split("::")[-1] in ("last", "first", "get", "max", "min", "max_by_key", "min_by_key", "now", "recent", "last_mut", "nth") for x in sym_walk(a[2]))
                    rv = sums[0][1]["rv"]
                    s_a, s_b = strip_sym(fsy.operand(rv["a"])), strip_sym(fsy.operand(rv["b"]))
                    oks = oks and ("'0'" in repr(s_b) or "'0'" in repr(s_a))
                    # no path through an iteration skips the sum: same block region as the add (both unconditional in the body)
                    oks = oks and not [1 for dd, lab in gates(fb, sums[0][0], up=False) if lab in (True, False) and (dd, lab) not in gates(fb, ad.bb, up=False)]
            chk.ob("C07.b", f"{rsf.path} [Summary]", oks, "per sample: summary.add(sample, ts) and sum += sample" if oks else "the Summary arm does not add every sample to the sketch and to the cumulative sum exactly once", rsf.loc())
    render = (p.method(INNER, "render") or [None])[0]
    if need(chk, "C07.b", "Inner::render", render):
        lines = metric_lines(render)
        for sfx, want, what in (("count", ("RollingSummary::count", "Histogram::count"), "_count"), ("sum", ("Histogram::sum",), "_sum")):
            ls = [l for l in lines if l["suffix"] == sfx]
            if len(ls) != 1:
                chk.unrecognised("C07.b", f"{render.path} [{what} line]", f"expected one {what} line, found {len(ls)}", render.loc())
                continue
            alts = flat_phi(ls[0]["value"])
            bad = []
            for a in alts:
                if sym_is_call(a, *want):
                    continue
                if sfx == "sum" and a[0] == "field" and a[2] == "2" and "Summary" in repr(a):
                    continue
                bad.append(sym_str(a)[:80])
            chk.ob("C07.b", f"{render.path} [{what} source]", not bad and alts, f"{what} comes from the cumulative {'/'.join(w.split('::')[-2] + '.' + w.split('::')[-1] + '()' for w in want)}{' / the Summary variant sum field' if sfx == 'sum' else ''}" if not bad else f"{what} is rendered from {bad}: not the cumulative counter of the distribution (e.g. the windowed snapshot shrinks as samples age out)", ls[0]["c"].loc())
        inf = [l for l in lines if l["suffix"] == "bucket" and "+Inf" in repr(l["label_sym"])]
        ok = len(inf) == 1 and sym_is_call(inf[0]["value"], "Histogram::count")
        chk.ob("C07.b", f"{render.path} [+Inf bucket]", ok, "le=\"+Inf\" carries histogram.count()" if ok else "the +Inf bucket is not the total count", render.loc())

    # ---------------- C07.c
    grm = (p.method(INNER, "get_recent_metrics") or [None])[0]
    if need(chk, "C07.c", "Inner::get_recent_metrics", grm):
        loads = [o for o in atomic_ops(grm) if o[1] == "load" and o[0].fn is grm]
        okc = okg = False
        for o in loads:
            recv = strip_sym(o[2])
            ord_ok = orderings_in(o[3]) and orderings_in(o[3])[0] in ("Acquire", "SeqCst")
            src = any(isinstance(x, tuple) and x and x[0] == "call" and sym_is_call(x, "Generational<T>::get_inner") for x in sym_walk(recv))
            if src and ord_ok:
                # which handle? counter handles come from get_counter_handles
                txt = repr(recv)
                if "get_counter_handles" in txt:
                    okc = True
                if "get_gauge_handles" in txt:
                    okg = True
        fb = [c for c in nonforeign_calls(grm) if c.fn is grm and c.is_("f64::from_bits", "from_bits")]
        okg = okg and len(fb) == 1 and "get_gauge_handles" in repr(arg_syms(fb[0])[0])
        chk.ob("C07.c", f"{grm.path} [counter value]", okc, "counter value = counter.get_inner().load(Acquire) of the visited handle" if okc else "the counter value in the snapshot is not the atomic load of the visited handle", grm.loc())
        chk.ob("C07.c", f"{grm.path} [gauge value]", okg, "gauge value = f64::from_bits(gauge.get_inner().load(Acquire)) of the visited handle" if okg else "the gauge value in the snapshot is not from_bits(load) of the visited handle", grm.loc())

    # scalar series are written as the numbers they are: the counter's u64 goes to write_metric_line as an integer
    # (a detour through f64 rounds totals above 2^53), no scalar value is numerically converted on the way
    rnd = (p.method(INNER, "render") or [None])[0]
    if rnd is not None:
        scal = [m for m in metric_lines(rnd) if m["suffix"] is None and m["label"] is None]
        PRIM = {"u8", "u16", "u32", "u64", "u128", "usize", "i8", "i16", "i32", "i64", "i128", "isize", "f32", "f64"}
        tys = [(m["c"].t.get("gargs") or [None, None])[1] for m in scal]
        casts = [m for m in scal if any(isinstance(x, tuple) and x and x[0] == "cast" for x in sym_walk(m["value"]))]
        ok = bool(scal) and not casts and (not all(t in PRIM for t in tys) or "u64" in tys)
        chk.ob("C07.c", f"{rnd.path} [scalar values written unconverted]", ok, f"{len(scal)} scalar sample line(s), value types {tys}, no numeric conversion between the snapshot and the line" if ok else (f"a scalar series' value is numerically converted before it is written (line {casts[0]['c'].line})" if casts else f"scalar series are written with value types {tys}: the counter total (u64) is not written as an integer"), rnd.loc())

    # ---------------- C07.d
    ktp = p.fn("metrics_exporter_prometheus::formatting::key_to_parts")
    if need(chk, "C07.d", "formatting::key_to_parts", ktp):
        sy = Sym(ktp)
        from props.common import iteration_context

        STR = ("ToString::to_string", "ToOwned::to_owned", "From::from", "Into::into", "String::from", "str::to_string", "<impl str>::to_owned", "Clone::clone", "AsRef::as_ref")
        inserts = [c for c in nonforeign_calls(ktp) if c.is_("IndexMap<K, V, S>::insert", "insert") and "indexmap" in (c.resolved or "")]
        others = [c for c in nonforeign_calls(ktp) if "indexmap" in (c.resolved or "") and strip_generics(c.resolved).split("::")[-1] in ("entry", "or_insert", "or_insert_with", "insert_before", "shift_insert", "extend", "retain", "remove", "swap_remove", "shift_remove", "clear", "pop")]
        ok = len(inserts) == 1 and not others
        why = f"{len(inserts)} insert sites, other mutations {[callee_method_name(c) for c in others]}"
        if ok:
            ins = inserts[0]
            a = [Sym(ins.fn).operand(x) for x in ins.args]
            k_, v_ = strip_sym(sym_through(a[1], *STR)), strip_sym(sym_through(a[2], *STR))
            # the pair comes from one label (how the value is escaped on the way is C08's business, not the merge's)
            vals = [x for x in sym_walk(a[2]) if isinstance(x, tuple) and sym_is_call(x, "Label::value")]
            kv_ok = sym_is_call(k_, "Label::key") and len(vals) == 1 and repr(strip_sym(k_[2][0])) == repr(strip_sym(vals[0][2][0]))
            src, whyit = iteration_context(ins)
            each_ok = src is not None and sym_is_call(strip_sym(src), "Key::labels") and is_param(sym_through(strip_sym(src)[2][0]), 0)
            # the map the labels are inserted into starts from the defaults (clone of parameter 1), whatever the idiom
            mp = sym_through(a[0])
            txt = repr(mp)
            base_ok = "('arg', 1" in txt and any(sym_is_call(x, "Clone::clone", "Option<&T>::cloned", "cloned") for x in sym_walk(mp) if isinstance(x, tuple))
            # rendering iterates that same map after the merge
            anchor = None
            if ins.fn is ktp:
                nx = [c for c in ktp.body.calls() if c.is_("Iterator::next") and ins.bb in ktp.body.reachable(c.bb) and c.bb in ktp.body.reachable(ins.bb)]
                anchor = nx[0].bb if nx else None
            else:
                fe = [c for c in ktp.body.calls() if c.is_("Iterator::for_each")]
                anchor = fe[0].bb if len(fe) == 1 else None
            it = [c for c in nonforeign_calls(ktp) if c.fn is ktp and c.is_("IndexMap<K, V, S>::iter", "IndexMap<K, V, S>::into_iter", "iter", "IntoIterator::into_iter") and ("indexmap" in (c.resolved or "") or "IndexMap" in repr(ktp.body.local_ty((c.args[0].get("move") or c.args[0].get("copy") or {"l": 0})["l"])))]
            it = [c for c in it if anchor is not None and ktp.body.dominates(anchor, c.bb) and c.bb != anchor]
            ok = kv_ok and each_ok and base_ok and bool(it)
            why = f"key/value from one label={kv_ok}, once per key label={each_ok} ({whyit}), map starts from the defaults={base_ok}, rendered after the merge={bool(it)}"
        chk.ob("C07.d", ktp.path, ok, "labels = global labels, then key labels inserted (overwriting), then rendered in map order" if ok else f"label merge is not `defaults first, key labels overwrite` (e.g. entry().or_insert keeps the global label, or key labels are dropped): {why}", ktp.loc())
        nm = strip_sym(strip_sym(sy.local(0))[3][0]) if strip_sym(sy.local(0))[0] == "agg" else None
        okn = nm is not None and sym_is_call(nm, "formatting::sanitize_metric_name") and sym_is_call(strip_sym(nm[2][0]), "Key::name")
        chk.ob("C07.d", f"{ktp.path} [name]", okn, "name = sanitize_metric_name(key.name())" if okn else "series name is not the sanitised key name", ktp.loc(), nontrivial=False)

    # ---------------- C07.e
    adm = (p.method(RECORDER, "add_description_if_missing") or [None])[0]
    adm_slots = {}
    NAME_VIEW = ("KeyName::as_str", "as_str", "Deref::deref", "AsRef::as_ref", "Borrow::borrow")
    if need(chk, "C07.e", "add_description_if_missing", adm):
        sy = Sym(adm)
        ent = [c for c in nonforeign_calls(adm) if strip_generics(c.resolved or "").split("::")[-1] in ("or_insert", "or_insert_with")]
        muts = [c for c in nonforeign_calls(adm) if strip_generics(c.resolved or "").split("::")[-1] in MUTATING and "hash" in (c.resolved or "")]
        writes_through = []
        for i, k, s in adm.body.stmts():
            if s["k"] == "assign" and s["p"].get("pr") and not s.get("exp"):
                base = strip_sym(sy.local(s["p"]["l"]))
                if "or_insert" in repr(base):
                    writes_through.append(s)
        # `if let Entry::Vacant(slot) = map.entry(name) { slot.insert(v) }` is or_insert(v) spelled out: an insert through
        # the VacantEntry handed out by entry(), reachable only on the Vacant edge
        vac = [c for c in muts if "VacantEntry" in (c.resolved or "") and callee_method_name(c) == "insert" and c.fn is adm and any(lab == "Vacant" and sym_is_call(dd, "entry") for dd, lab in gates(adm.body, c.bb))]
        if len(vac) == 1 and not ent and len(muts) == 1:
            slot = strip_sym(arg_syms(vac[0])[0])
            src = next((x for x in sym_walk(slot) if isinstance(x, tuple) and x and x[0] == "call" and sym_is_call(x, "entry")), None)
            ent = [vac[0]]
            muts = []
            _recv_override = src
        else:
            _recv_override = None
        ok = len(ent) == 1 and not muts and not writes_through
        if ok:
            recv = strip_sym(_recv_override) if _recv_override is not None else strip_sym(arg_syms(ent[0])[0])
            ok = sym_is_call(recv, "entry") and sym_is_call(strip_sym(recv[2][1]), "formatting::sanitize_metric_name")
            v = strip_sym(arg_syms(ent[0])[1])
            # which of the helper's own parameters carry the name / the description / the unit (the describe_* callers are
            # held to exactly these positions below, so a private signature change is followed on both sides)
            kp = sym_arg(sym_through(strip_sym(recv[2][1])[2][0], *NAME_VIEW)) if ok else None
            adm_slots["name"] = kp[0] if kp else None
            if v[0] == "agg" and v[3] is not None and len(v[3]) == 2:
                # a tuple or a two-field record (description, unit): both come from the helper's own parameters (which is
                # which is fixed by their types)
                d_, u_ = sym_arg(v[3][0]), sym_arg(v[3][1])
                ok = ok and d_ is not None and u_ is not None and d_[0] != u_[0]
                if ok:
                    adm_slots["both"] = (d_[0], u_[0])
            elif sym_arg(v) is not None:
                adm_slots["pair"] = sym_arg(v)[0]
        chk.ob("C07.e", adm.path, ok, "descriptions.entry(sanitised name).or_insert((description, unit)) and nothing else" if ok else "an existing description can be replaced (write through the entry / insert): HELP would not show the first description", adm.loc())
    # ... and is looked up under the name it was stored under: the key of the descriptions.get() whose result becomes the HELP
    # text is the family's sanitised name as iterated, never a name built afterwards (the unit-suffixed one)
    rnd_ = (p.method(INNER, "render") or [None])[0]
    if rnd_ is not None:
        helps = [c for g_ in rnd_.region() for c in g_.body.calls() if c.is_("formatting::write_help_line")]
        nlook = 0
        for c in helps:
            a = arg_syms(c)
            gets = [x for x in sym_walk(a[2]) if isinstance(x, tuple) and x and x[0] == "call" and isinstance(x[1], str) and strip_generics(x[1]).split("::")[-1] in ("get", "get_key_value") and len(x[2]) == 2]
            if not gets:
                chk.ob("C07.e", f"{rnd_.path} [HELP looked up under the stored name]", False, f"cannot see the descriptions lookup behind the HELP text ({sym_str(a[2])[:80]})", c.loc())
                continue
            nlook += 1
            built = [x for g1 in gets for x in sym_walk(g1[2][1]) if isinstance(x, tuple) and x and x[0] == "call" and isinstance(x[1], str) and strip_generics(x[1]).split("::")[-1] in ("format", "push_str", "concat", "join", "add")]
            chk.ob("C07.e", f"{rnd_.path} [HELP looked up under the stored name]", not built, "the description is fetched under the iterated family name" if not built else "the description is fetched under a name assembled at render time (the unit-suffixed family name): descriptions are stored under the plain sanitised name, so the HELP line is lost, or another metric's text is shown, whenever a suffix is appended", c.loc())
        if not nlook and not helps:
            chk.unrecognised("C07.e", f"{rnd_.path} [HELP looked up under the stored name]", "no write_help_line call in render")
    impls = recorder_impls(p)
    rec = None
    for (self_ty, ip), ms in impls.items():
        if self_ty.endswith("PrometheusRecorder"):
            rec = ms
    if rec is None:
        chk.unrecognised("C07.e", "<anchor> impl Recorder for PrometheusRecorder", "missing")
    else:
        for k in ("counter", "gauge", "histogram"):
            f = rec.get(f"describe_{k}")
            if f:
                cs = [c for c in nonforeign_calls(f) if c.is_("PrometheusRecorder::add_description_if_missing")]
                VIEW = ("Deref::deref", "AsRef::as_ref", "Borrow::borrow", "Arc<T>::deref", "Arc<T, A>::deref")
                ok = len(cs) == 1 and all((c.fn is cs[0].fn and c.bb == cs[0].bb) or c.is_(*VIEW) or c.is_("KeyName::as_str") for c in nonforeign_calls(f))
                if ok:
                    a = arg_syms(cs[0])
                    n_, both_, t_ = (adm_slots.get(x) for x in ("name", "both", "pair"))
                    ok = n_ is not None and n_ < len(a) and is_param(sym_through(a[n_], *VIEW, *NAME_VIEW), 1)
                    if t_ is not None:
                        pv = strip_sym(a[t_]) if t_ < len(a) else ("unknown",)
                        ok = ok and pv[0] == "agg" and pv[3] is not None and len(pv[3]) == 2 and {(sym_arg(x) or (None,))[0] for x in pv[3]} == {2, 3}
                    elif both_ is not None:
                        ok = ok and max(both_) < len(a) and {(sym_arg(a[i_]) or (None,))[0] for i_ in both_} == {2, 3}
                    else:
                        # the stored value is assembled in a way the helper's parameters cannot be read off: the positions as pinned
                        ok = ok and len(a) > 3 and is_param(a[2], 3) and is_param(a[3], 2)
                chk.ob("C07.e", f.path, ok, "add_description_if_missing(&name, description, unit)" if ok else "describe does not pass (name, description, unit) to add_description_if_missing in those positions", f.loc())
            f = rec.get(f"register_{k}")
            if f:
                cs = [c for c in nonforeign_calls(f) if c.fn is f and c.is_(f"Registry<K, S>::get_or_create_{k}")]
                ok = len(cs) == 1 and is_param(arg_syms(cs[0])[1], 1) and "'registry'" in repr(arg_syms(cs[0])[0])
                chk.ob("C07.f", f.path, ok, f"registry.get_or_create_{k}(key, clone-into-handle)" if ok else f"register_{k} does not obtain the handle from registry.get_or_create_{k}(key)", f.loc())
                kind_consistent(chk, "C07.f", f, k)
    hd = "metrics_exporter_prometheus::recorder::PrometheusHandle"
    f = (p.method(hd, "render") or [None])[0]
    if f:
        cs = [c for c in nonforeign_calls(f) if c.is_("Inner::render")]
        chk.ob("C07.f", f.path, len(cs) == 1, "render() = self.inner.render()", f.loc(), nontrivial=False)
    ru = (p.method(hd, "run_upkeep") or [None])[0]
    if ru:
        cs = [c for c in nonforeign_calls(ru) if not c.is_("Deref::deref", "AsRef::as_ref")]
        ok = len(cs) == 1 and cs[0].is_("Inner::drain_histograms_to_distributions")
        chk.ob("C07.f", ru.path, ok, "run_upkeep only drains histograms into distributions" if ok else f"run_upkeep calls {[callee_method_name(c) for c in cs]}", ru.loc())

    _imports(ctx)


def _imports(ctx):
    from props.common import import_rules

    import_rules(ctx, "C05", {"C05.b", "C05.c", "C05.d", "C05.e"}, "C07.g", "imported from C05 (the histogram storage the exporter drains): a detached block is read only after its in-flight writes are waited for, blocks are linked before they are published, claims are fenced before a block is read, one clearer wins the detach — otherwise a sample recorded concurrently with render()/run_upkeep() is counted zero times", floor=6)
    import_rules(ctx, "C04", {"C04.b"}, "C07.h", "imported from C04 (the counter/gauge storage whose value is rendered): counter increment/absolute and gauge updates are single atomic read-modify-write operations — otherwise the rendered total is not the sum of increments / the highest absolute value", floor=5)
    import_rules(ctx, "C06", {"C06.b", "C06.c", "C06.e"}, "C07.i", "imported from C06 (the registry the recorder registers into and render() lists): one hash/shard/key per lookup, check-and-insert in one critical section, every constructed Key carries the hash of its own (name, labels) — otherwise updates through equal keys land in two storages of which render() reports one", floor=12)
    import_rules(ctx, "C15", {"C15.a"}, "C07.l", "imported from C15 (storage::Histogram, what every bucketed series is aggregated into): every sample of a batch enters sum and count, the bound comparison and the cumulative pass are those of single recording — otherwise _sum / _count / bucket counts are not the recorded ones", floor=8)
    import_rules(ctx, "C12", {"C12.b"}, "C07.k", "imported from C12 (every counter/gauge/histogram the recorder hands out is a Generational wrapper): each wrapper method forwards the same-named operation with its arguments and marks the metric as updated after the update — otherwise absolute() adds, or an updated series is expired, and the output is not what was recorded", floor=11)
    import_rules(ctx, "C03", {"C03.a", "C03.c", "C03.d"}, "C07.j", "imported from C03 (Key hash/equality contract behind the registry lookup): same canonical form in hasher, == and cmp; lazily memoised hash published before its flag — otherwise equal keys are split over two series", floor=7)


def run_config(ctx):
    run(ctx)
