"""C03 — Key equality, ordering and hashing agree and ignore how a key was built."""
from facts import (
    Sym,
    call_name,
    calls_in,
    field_chain,
    find,
    is_call_to,
    lit_of,
    path_is,
    peel,
    strip_generics,
    strip_sym,
    sym_arg,
    sym_is_call,
    sym_str,
    sym_through,
    sym_walk,
    walk,
    walk_deep,
)
from props.common import aggregates, arg_syms, atomic_ops, bool_switches, crate_stats, gates, need, nonforeign_calls, one_method, orderings_in

TITLE = "C03 Key ==, cmp and hash agree and ignore how a key was built."
CONFIGS = ["test-profile"]
KEY = "metrics::key::Key"


def is_hash_routine(f):
    """role: the one routine that feeds (name, labels) of a key into a Hasher"""
    sig = f.j.get("sig", "")
    return f.dk == "Fn" and not f.j.get("exported") and not f.j.get("impl_trait") and "fn(&'a mut H" in sig.replace("'_", "'a") and "KeyName" in sig and "Label" in sig


KEEP = [is_hash_routine]
_CRATE = [None]  # crate used by the deep HIR walks of classify()


def dwalk(node):
    return walk_deep(_CRATE[0], node) if _CRATE[0] is not None else walk(node)


def dcalls_in(node):
    return [n for n in dwalk(node) if n.get("k") in ("Call", "MethodCall")]


def key_fields(m):
    """Key's private fields by role (type), so a field rename is invisible."""
    adt = m.adts.get(KEY)
    out = {}
    for f in (adt or {}).get("variants", [{}])[0].get("fields", []):
        ty = f.get("ty", "")
        if ty.endswith("KeyName"):
            out["name"] = f["name"]
        elif "Label" in ty:
            out["labels"] = f["name"]
        elif "Atomic<bool>" in ty or "AtomicBool" in ty:
            out["hashed"] = f["name"]
        elif "Atomic<u64>" in ty or "AtomicU64" in ty:
            out["hash"] = f["name"]
    return out


KF = {"name": "name", "labels": "labels", "hashed": "hashed", "hash": "hash"}
CLASSES = {"0": 0, "1": 1, "2": 2, "3..7": 3, "8+": 8}
SORTS = {"sort_by_key", "sort_by_cached_key", "sort_by", "sort", "sort_unstable", "sort_unstable_by", "sort_unstable_by_key"}


def is_param(s, i):
    a = sym_arg(s)
    return a is not None and a[0] == i


def arm_matches(arm, n):
    """Does this match arm (on labels.len()) take length n?  None = cannot tell."""
    pat = arm["pat"]
    k = pat.get("k")
    if k == "Lit":
        return pat.get("int") == n
    if k == "Or":
        rs = [arm_matches({"pat": p, "guard": None}, n) for p in pat["pats"]]
        return None if None in rs else any(rs)
    if k == "Range":
        lo = pat.get("lo", {}).get("int")
        hi = pat.get("hi", {}).get("int")
        if lo is not None and n < lo:
            return False
        if hi is not None:
            return n <= hi if "Included" in pat.get("end", "") else n < hi
        return True
    if k in ("Wild", "Bind"):
        g = arm.get("guard")
        if g is None:
            return True
        g = peel(g)
        if g.get("k") == "Binary" and pat.get("k") == "Bind":
            a, b = peel(g["a"]), peel(g["b"])
            if a.get("k") == "Path" and a.get("name") == pat.get("name") and b.get("k") == "Lit" and "int" in b:
                v = b["int"]
                return {"Lt": n < v, "Le": n <= v, "Gt": n > v, "Ge": n >= v, "Eq": n == v, "Ne": n != v}.get(g["op"])
        return None
    return None


def label_indexes(node):
    """[(base-description, literal-index or None)] for every Index expression in the subtree."""
    out = []
    for n in dwalk(node):
        if n.get("k") == "Index":
            fc = field_chain(n["e"])
            base = ".".join([str(fc[0])] + fc[1]) if fc else "?"
            idx = lit_of(n["i"])
            out.append((base, idx if isinstance(idx, int) else None, n))
    return out


def classify(body):
    """Canonical form used by one arm of the labels.len() match."""
    sorts = [c for c in dcalls_in(body) if (c.get("name") or "") in SORTS or strip_generics(call_name(c) or "").split("::")[-1] in SORTS]
    if sorts:
        forms = set()
        for s in sorts:
            name = s.get("name") or strip_generics(call_name(s)).split("::")[-1]
            by_key = any(is_call_to(c, "Label::key") for c in calls_in(s))
            if "unstable" in name:
                forms.add("key-unstable-sort" if by_key else "full-unstable-sort")
            elif by_key:
                forms.add("key-stable-sort")
            else:
                forms.add("full-sort")
        return forms.pop() if len(forms) == 1 else "mixed:" + ",".join(sorted(forms))
    idx = label_indexes(body)
    lits = {i for _, i, _ in idx if i is not None}
    if not idx:
        return "none"
    if any(i is None for _, i, _ in idx):
        # `let first = if labels[0] < labels[1] { 0 } else { 1 }; use(labels[first]); use(labels[1 - first])`: the positions are
        # computed, but what decides them is the comparison of the two whole labels
        if lits and lits <= {0, 1}:
            for n in dwalk(body):
                if n.get("k") == "Binary" and n.get("op") in ("Lt", "Le", "Gt", "Ge"):
                    pa, pb = peel(n["a"]), peel(n["b"])
                    if pa.get("k") == "Index" and pb.get("k") == "Index" and {lit_of(pa["i"]), lit_of(pb["i"])} == {0, 1}:
                        return "pair-unordered"
        return "positional-loop"
    if lits == {0}:
        return "single"
    if lits == {0, 1}:
        # a comparison whose two operands are different literal positions (same or different side)
        for n in dwalk(body):
            ops = None
            if n.get("k") == "Binary" and n.get("op") in ("Lt", "Le", "Gt", "Ge", "Eq", "Ne"):
                ops = (n["a"], n["b"])
            elif n.get("k") in ("MethodCall", "Call") and is_call_to(n, "Ord::cmp", "PartialOrd::partial_cmp", "PartialEq::eq", "PartialOrd::lt", "PartialOrd::le", "PartialOrd::gt", "PartialOrd::ge"):
                from facts import call_args

                a = call_args(n)
                if len(a) == 2:
                    ops = (a[0], a[1])
            if ops:
                ia = [i for _, i, _ in label_indexes(ops[0])]
                ib = [i for _, i, _ in label_indexes(ops[1])]
                if len(ia) == 1 and len(ib) == 1 and ia[0] != ib[0]:
                    # what is compared: the whole labels, or a projection of them (only the name, ...)?
                    pa, pb = peel(ops[0]), peel(ops[1])
                    if pa.get("k") == "Index" and pb.get("k") == "Index":
                        return "pair-unordered"
                    proj = sorted({(c.get("name") or strip_generics(call_name(c) or "?").split("::")[-1]) for o in ops for c in calls_in(o)})
                    return "pair-ordered-by-" + "+".join(proj) if proj else "pair-ordered-by-projection"
        return "positional"
    return "positional"


_DISPATCH = {}
_ARM8 = {}


_LETS = {}


def _unalias(e, depth=0):
    """`let mine = &self.labels; let n = mine.len();` — a local bound once by a plain `let` stands for its initialiser"""
    while e.get("k") == "Path" and e.get("res") == "local" and e.get("name") not in ("self", "other") and depth < 6:
        init = _LETS.get((e.get("name"), e.get("id")))
        if init is None:
            break
        e = peel(init)
        while e.get("k") in ("AddrOf",) and isinstance(e.get("e"), dict):
            e = peel(e["e"])
        depth += 1
    return e


def _mirror(a, b):
    """Are a and b the same projection, a of `self` and b of `other` (or the reverse)?  Returns the projection's description."""
    a, b = _unalias(peel(a)), _unalias(peel(b))
    if a.get("k") != b.get("k"):
        return None
    k = a.get("k")
    if k == "Path":
        return "" if {a.get("name"), b.get("name")} == {"self", "other"} else None
    if k == "Field":
        if a.get("f") != b.get("f"):
            return None
        r = _mirror(a["e"], b["e"])
        return None if r is None else r + "." + a["f"]
    if k == "MethodCall" and not a.get("args") and not b.get("args"):
        if a.get("name") != b.get("name"):
            return None
        r = _mirror(a["recv"], b["recv"])
        return None if r is None else r + "." + a["name"] + "()"
    if k in ("AddrOf", "Unary") and isinstance(a.get("e"), dict) and isinstance(b.get("e"), dict):
        return _mirror(a["e"], b["e"])
    return None


def early_exits(fn, dispatch):
    """[(Ret node, innermost enclosing `if` condition or None, in-then?)] for every `return` of fn outside the dispatch match."""
    out = []

    def go(n, cond):
        if n is dispatch:
            return
        if isinstance(n, dict):
            if n.get("k") == "Ret":
                out.append((n, cond))
            if n.get("k") == "If":
                go(n.get("cond"), cond)
                go(n.get("then"), (n["cond"], True))
                go(n.get("else"), (n["cond"], False))
                return
            for key, v in n.items():
                if key != "sp":
                    go(v, cond)
        elif isinstance(n, list):
            for v in n:
                go(v, cond)

    go(fn.hir, None)
    return out


def _differs(cond):
    """cond is a disjunction of `p(self) != p(other)` for projections that equal keys share; returns their names or None."""
    c = peel(cond)
    if c.get("k") == "Binary" and c.get("op") == "Or":
        a, b = _differs(c["a"]), _differs(c["b"])
        return None if a is None or b is None else a + b
    if c.get("k") == "Unary" and c.get("op") in ("Not", "!"):
        e = peel(c.get("e") or c.get("a"))
        if e.get("k") == "Binary" and e.get("op") == "Eq":
            r = _mirror(e["a"], e["b"])
            return [r] if r is not None else None
        return None
    if c.get("k") == "Binary" and c.get("op") == "Ne":
        r = _mirror(c["a"], c["b"])
        return [r] if r is not None else None
    if c.get("k") == "MethodCall" and c.get("name") == "ne" and len(c.get("args") or []) == 1:
        r = _mirror(c["recv"], c["args"][0])
        return [r] if r is not None else None
    return None


def forms_of(fn):
    """{class-name: form} from the `match labels.len()` of fn (None if not recognised)."""
    ms = []
    for n in dwalk(fn.hir):
        if n.get("k") == "Match" and n.get("src", "").startswith("Normal"):
            sc = peel(n["scrut"])
            if sc.get("k") == "Path" and sc.get("res") == "local":
                # `let n = labels.len(); match n {..}`: look through the binding
                for st in dwalk(fn.hir):
                    if st.get("k") in ("Let", "Local") and isinstance(st.get("pat"), dict) and st["pat"].get("k") == "Bind" and st["pat"].get("name") == sc.get("name") and st.get("init"):
                        sc = peel(st["init"])
                        break
            if sc.get("k") == "MethodCall" and sc.get("name") == "len":
                recv = peel(sc["recv"])
                if recv.get("k") == "Path" and recv.get("res") == "local":
                    # `let mine = &self.labels; match mine.len() {..}`: look through the alias
                    nm_ = recv.get("name")
                    for st in dwalk(fn.hir):
                        if st.get("k") not in ("Let", "Local") or not isinstance(st.get("pat"), dict) or not st.get("init"):
                            continue
                        init = None
                        if st["pat"].get("k") == "Bind" and st["pat"].get("name") == nm_:
                            init = peel(st["init"])
                        elif st["pat"].get("k") in ("Tuple", "Tup"):
                            # `let (mine, his) = (&self.labels, &other.labels);`
                            pats = st["pat"].get("pats") or st["pat"].get("elems") or st["pat"].get("fields") or []
                            ini = peel(st["init"])
                            elems = ini.get("elems") or ini.get("es") or ini.get("fields") or []
                            for pi, pp in enumerate(pats):
                                if isinstance(pp, dict) and pp.get("k") == "Bind" and pp.get("name") == nm_ and pi < len(elems):
                                    init = peel(elems[pi])
                        if init is not None:
                            recv = init
                            while recv.get("k") in ("AddrOf", "Unary") and isinstance(recv.get("e") or recv.get("a"), dict):
                                recv = peel(recv.get("e") or recv.get("a"))
                            break
                if "label" in repr(field_chain(recv)).lower():
                    ms.append(n)
    if len(ms) != 1:
        return None, f"expected one `match labels.len()`, found {len(ms)}"
    _DISPATCH[fn.path] = ms[0]
    # `if labels.len() == 0 { return .. }` ahead of the match is the arm of the empty class
    _LETS.clear()
    for st in dwalk(fn.hir):
        if st.get("k") in ("Let", "Local") and isinstance(st.get("pat"), dict) and st["pat"].get("k") == "Bind" and st.get("init") and "Mut" not in str(st["pat"].get("mode", "")).split(",")[-1]:
            _LETS[(st["pat"].get("name"), st["pat"].get("id"))] = st["init"]
    empty_first = None
    for ret, cond in early_exits(fn, ms[0]):
        if cond is None or not cond[1]:
            continue
        c_ = peel(cond[0])
        if c_.get("k") == "Binary" and c_.get("op") == "Eq":
            sides = [_unalias(peel(c_["a"])), _unalias(peel(c_["b"]))]
            if any(x.get("k") == "Lit" and x.get("int") == 0 for x in sides) and any(x.get("k") == "MethodCall" and x.get("name") == "len" and "label" in repr(field_chain(peel(x["recv"]))).lower() or (x.get("k") == "MethodCall" and x.get("name") == "len" and "label" in str(_unalias(peel(x["recv"])).get("name", "")).lower()) for x in sides):
                empty_first = ret
        elif c_.get("k") == "MethodCall" and c_.get("name") == "is_empty" and "label" in (repr(field_chain(peel(c_["recv"]))) + str(_unalias(peel(c_["recv"])).get("name", ""))).lower():
            empty_first = ret
    out = {}
    for cname, n in CLASSES.items():
        if cname == "0" and empty_first is not None:
            out[cname] = classify(empty_first.get("e") or {"k": "Tup"})
            continue
        # all lengths of the class must take the same arm
        reps = {0: [0], 1: [1], 2: [2], 3: [3, 5, 7], 8: [8, 9, 1000]}[n]
        arms = set()
        for r in reps:
            chosen = None
            for i, arm in enumerate(ms[0]["arms"]):
                m = arm_matches(arm, r)
                if m is None:
                    return None, f"cannot evaluate the pattern/guard of arm {i}"
                if m:
                    chosen = i
                    break
            arms.add(chosen)
        if len(arms) != 1 or None in arms:
            out[cname] = "split-class"
            continue
        arm = ms[0]["arms"][arms.pop()]
        if cname == "8+":
            _ARM8[fn.path] = arm
        out[cname] = classify(arm["body"])
    return out, ""


def run(ctx):
    chk = ctx.check
    m = ctx.crate("metrics")
    u = ctx.crate("metrics_util")
    crate_stats(chk, m, u)
    chk.rule("C03.a", "SIB canonical-form agreement: for each label-count class {0,1,2,3..7,8+} the canonical form used by the hasher, by == and by cmp (none / single / unordered pair / stable sort by label name) is the same, so a == b <=> cmp == Equal and a == b => same hash", floor=5)
    chk.rule("C03.b", "WMC one hashing routine (helpers spliced in): Hash for Key, get_hash and every pre-hashing constructor feed a hasher through the same routine over (name, labels); every construction of a Key either starts un-hashed or stores the hash of exactly the (name, labels) it is built with; Clone copies all four fields from self", floor=6)
    chk.rule("C03.c", "ORD+ATOM memoisation: get_hash stores hash before hashed (both >= Release), loads hashed (>= Acquire) before hash; the stored value is the hashing routine applied to self; Clone loads hashed before hash", floor=5)
    chk.rule("C03.d", "FWD representation independence: Hash/PartialEq/PartialOrd/Ord for Cow delegate to the target through deref() only; Label and KeyName derive their impls over (key, value) / the name in declaration order", floor=8)
    chk.rule("C03.e", "FWD util side: <Key as Hashable>::hashable returns self.get_hash()", floor=1)
    chk.trust("slice::sort_by_key is stable", "derived PartialEq/Ord/Hash compare fields in declaration order", "str Hash/Eq/Ord")
    chk.residue.append("that sorting + lexicographic comparison yields a total order / equivalence once all three use one canonical form is the standard argument and is not re-proved")

    # ---------------- C03.a
    _CRATE[0] = m
    KF.update(key_fields(m))
    routines = m.role(is_hash_routine)
    hasher = routines[0] if len(routines) == 1 else None
    if hasher is None:
        chk.unrecognised("C03.a", "<anchor> hashing routine of Key", f"expected one non-exported fn(&mut H: Hasher, &KeyName, labels), found {[f.path for f in routines]}")
    hash_impl = (m.method(KEY, "hash", "Hash") or [None])[0]
    eqf = (m.method(KEY, "eq", "PartialEq") or [None])[0]
    cmpf = (m.method(KEY, "cmp", "Ord") or [None])[0]
    tables = {}
    for nm, f in (("hash", hasher), ("eq", eqf), ("cmp", cmpf)):
        if f is None:
            chk.unrecognised("C03.a", f"<anchor> Key {nm}", "missing")
            continue
        t, why = forms_of(f)
        if t is None:
            chk.unrecognised("C03.a", f"{f.path} [labels.len() match]", why, f.loc())
            continue
        tables[nm] = t
    if len(tables) == 3:
        want = {"0": {"none"}, "1": {"single"}, "2": {"pair-unordered", "key-stable-sort"}, "3..7": {"key-stable-sort"}, "8+": {"key-stable-sort"}}
        for cname in CLASSES:
            got = {nm: tables[nm][cname] for nm in ("hash", "eq", "cmp")}
            same = len(set(got.values())) == 1
            allowed = set(got.values()) <= want[cname]
            ok = same and allowed
            if ok:
                d = f"all three use `{got['eq']}`"
            elif not same:
                d = f"hash uses `{got['hash']}`, == uses `{got['eq']}`, cmp uses `{got['cmp']}`: keys of this class can be == yet compare unequal / hash differently"
            else:
                d = f"all use `{got['eq']}`, which is not a canonical form for this class (label order / representation would matter)"
            chk.ob("C03.a", f"{KEY} [canonical form class {cname}]", ok, d, cmpf.loc() if cmpf else "")
    # the unbounded class: positions are never squeezed through a type narrower than the label count
    NARROW = {"u8", "u16", "u32", "i8", "i16", "i32"}
    for nm, f in (("hash", hasher), ("eq", eqf), ("cmp", cmpf)):
        if f is None or f.path not in _ARM8:
            continue
        casts = [n for n in dwalk(_ARM8[f.path]["body"]) if n.get("k") == "Cast" and n.get("ty") in NARROW and (n.get("e") or {}).get("ty") in ("usize", "u64", "u128")]
        chk.ob("C03.a", f"{f.path} [class 8+ positions at full width]", not casts, "no label count / position of the unbounded class is narrowed" if not casts else f"the arm taken by every count >= 8 casts a {casts[0]['e'].get('ty')} to {casts[0].get('ty')}: positions wrap from {2 ** {'u8': 8, 'i8': 7, 'u16': 16, 'i16': 15}.get(casts[0].get('ty'), 32)} labels on, so the canonical form is no longer the stable sort of all labels", f"{f.j.get('file', '')}:{(casts[0] if casts else {}).get('ln', '')}", nontrivial=False)
    # every permutation that is sorted starts as the identity: the stable sort then breaks ties between labels of one name by
    # their position in *that* key, in hasher, == and cmp alike (a map seeded with the other side's permutation does not)
    for nm, f in (("hash", hasher), ("eq", eqf), ("cmp", cmpf)):
        if f is None or not f.hir:
            continue
        lets = {}
        for st in dwalk(f.hir):
            if st.get("k") in ("Let", "Local") and isinstance(st.get("pat"), dict) and st["pat"].get("k") == "Bind" and st.get("init"):
                lets[(st["pat"].get("name"), st["pat"].get("id"))] = st["init"]
        seeded = []
        nsort = 0
        for n in dwalk(f.hir):
            if n.get("k") == "MethodCall" and (n.get("name") or "") in SORTS:
                r = peel(n.get("recv") or {})
                while r.get("k") in ("Index", "AddrOf", "Unary", "MethodCall") and isinstance(r.get("e") or r.get("recv"), dict):
                    r = peel(r.get("e") or r.get("recv"))
                if r.get("k") != "Path" or r.get("res") != "local":
                    continue
                init = peel(lets.get((r.get("name"), r.get("id"))) or {})
                # `let in_use = &mut map[..n]; in_use.sort_by_key(..)`: a view of the map — look at the map's own initialiser
                for _ in range(3):
                    v_ = init
                    while v_.get("k") in ("Index", "AddrOf", "Unary", "MethodCall") and isinstance(v_.get("e") or v_.get("recv"), dict):
                        v_ = peel(v_.get("e") or v_.get("recv"))
                    if v_ is not init and v_.get("k") == "Path" and v_.get("res") == "local" and (v_.get("name"), v_.get("id")) in lets:
                        init = peel(lets[(v_.get("name"), v_.get("id"))])
                    else:
                        break
                if not init:
                    continue
                if init.get("k") == "Path" and init.get("res") == "def" and str(init.get("dk", "")).startswith("Const"):
                    # a named constant (`const IDENTITY_SORT_MAP: [u8; 8] = [0, 1, ..]`): its body
                    cf_ = (getattr(m, "raw_by_path", None) or m.by_path).get(init.get("path"))
                    hb_ = cf_.j.get("hir") if cf_ is not None else None
                    while isinstance(hb_, dict) and hb_.get("k") == "Block" and not hb_.get("stmts") and isinstance(hb_.get("expr"), dict):
                        hb_ = hb_["expr"]
                    if isinstance(hb_, dict):
                        init = peel(hb_)
                nsort += 1
                ident = False
                if init.get("k") == "Array":
                    ident = all(peel(e).get("k") == "Lit" and peel(e).get("int") == i for i, e in enumerate(init.get("elems") or []))
                elif init.get("k") == "MethodCall" and init.get("name") == "collect":
                    rg = peel(init.get("recv") or {})
                    ident = rg.get("k") == "Struct" and "Range" in (rg.get("path") or "") and any(peel(fl.get("e") or {}).get("int") == 0 for fl in rg.get("fields") or [] if fl.get("f") == "start")
                elif init.get("k") == "Call" and is_call_to(init, "array::from_fn", "from_fn"):
                    ident = True
                if not ident:
                    seeded.append((r.get("name"), n.get("ln")))
        if nsort:
            chk.ob("C03.a", f"{f.path} [sorted permutations start as the identity]", not seeded, f"{nsort} sorted index map(s), each initialised 0, 1, 2, .." if not seeded else f"`{seeded[0][0]}` is sorted starting from something other than the identity permutation: ties between labels of one name are broken by another key's order, so two keys can be cmp-Equal one way round and not the other, or == keys hash apart", f"{f.j.get('file', '')}:{seeded[0][1] if seeded else ''}", nontrivial=False)
    # concatenation order of with_extra_labels: the key's own labels first, then the extra ones — the same list from_parts
    # would be given (with a repeated label name the stable sort keeps list order, so the order is observable)
    wel = (m.method(KEY, "with_extra_labels") or [None])[0]
    if wel is not None:
        joins = [c for c in nonforeign_calls(wel) if c.fn is wel and strip_generics(c.resolved or c.callee or "").split("::")[-1] in ("extend", "append", "extend_from_slice", "chain") and len(c.args) == 2]
        for c in joins:
            a = arg_syms(c)
            first_own = f"'{KF['labels']}'" in repr(a[0]) and "('arg', 1" not in repr(a[0])
            then_extra = "('arg', 1" in repr(a[1]) and f"'{KF['labels']}'" not in repr(a[1])
            if (f"'{KF['labels']}'" in repr(a[0]) + repr(a[1])) and ("('arg', 1" in repr(a[0]) + repr(a[1])):
                chk.ob("C03.b", f"{wel.path} [own labels, then the extra ones]", first_own and then_extra, "labels = self.labels ++ extra_labels" if first_own and then_extra else "with_extra_labels puts the extra labels in front of the key's own: with a repeated label name the result is not the key from_parts builds from the same list (==, cmp and both hashes differ)", c.loc(), nontrivial=False)
    # early exits of == ahead of the per-class comparison: `false` only where a projection that equal keys share differs
    # (name, label count, hash), `true` only for one and the same key; anything else decides equality outside the canonical form
    if eqf is not None and eqf.path in _DISPATCH:
        _LETS.clear()
        for st in dwalk(eqf.hir):
            if st.get("k") in ("Let", "Local") and isinstance(st.get("pat"), dict) and st["pat"].get("k") == "Bind" and st.get("init") and "Mut" not in str(st["pat"].get("mode", "")).split(",")[-1]:
                _LETS[(st["pat"].get("name"), st["pat"].get("id"))] = st["init"]
        shared = {"." + KF["name"], "." + KF["labels"] + ".len()", ".get_hash()", "." + KF["labels"] + ".is_empty()"}
        for ret, cond in early_exits(eqf, _DISPATCH[eqf.path]):
            val = peel(ret.get("e") or {})
            where = f"{eqf.path} [early exit]"
            loc = f"{eqf.j.get('file', '')}:{ret.get('ln')}"
            if val.get("k") == "Lit" and val.get("bool") is False and cond is not None and cond[1]:
                d = _differs(cond[0])
                ok = d is not None and set(d) <= shared
                chk.ob("C03.a", where, ok, f"false where {' / '.join(d)} differ" if ok else "returns false under a condition that does not imply the keys differ (not a comparison of name, label count or hash of the two sides): a key can be != itself or its equal", loc)
            elif val.get("k") == "Lit" and val.get("bool") is True and cond is not None and cond[1]:
                c = peel(cond[0])
                ok = c.get("k") == "Call" and (call_name(c) or "").endswith("ptr::eq") and all(peel(a).get("k") == "Path" and peel(a).get("name") in ("self", "other") for a in (c.get("args") or [])) and len(c.get("args") or []) == 2
                chk.ob("C03.a", where, ok, "true for one and the same key" if ok else "returns true ahead of the canonical comparison under a condition other than `the two are the same key`: unequal keys (different label count / labels) can compare equal while their hashes and cmp differ", loc)
            else:
                chk.ob("C03.a", where, False, "== returns a computed result ahead of the per-class canonical comparison: label order / count can matter for this exit while hash and cmp ignore it", loc)

    # == and cmp must consult the key names and the label counts besides the labels themselves
    def mentions_field(sym, role):
        return f"'{KF[role]}'" in repr(sym)

    if eqf is not None:
        cs = [c for c in nonforeign_calls(eqf) if c.is_("PartialEq::ne", "PartialEq::eq") and mentions_field(arg_syms(c)[0], "name") and mentions_field(arg_syms(c)[1], "name")]
        chk.ob("C03.a", f"{eqf.path} [name compared]", bool(cs), "== compares the names" if cs else "== does not compare the key names", eqf.loc(), nontrivial=False)
    if cmpf is not None:
        cmps = [c for c in nonforeign_calls(cmpf) if c.is_("Ord::cmp", "PartialOrd::partial_cmp")]
        def both(c, role):
            a = arg_syms(c)
            return len(a) >= 2 and mentions_field(a[0], role) and mentions_field(a[1], role)
        names = [c for c in cmps if both(c, "name")]
        lens = [c for c in cmps if both(c, "labels") and any(sym_is_call(x, "len") for a in arg_syms(c) for x in sym_walk(a) if isinstance(x, tuple))]
        ok = bool(names) and bool(lens)
        chk.ob("C03.a", f"{cmpf.path} [name and length first]", ok, "cmp orders by name and label count besides the labels" if ok else "cmp does not compare (name, label count)", cmpf.loc(), nontrivial=False)

    # ---------------- C03.b
    routine = hasher.path if hasher else None
    if hash_impl is not None and routine:
        cs = [c for c in nonforeign_calls(hash_impl) if c.resolved == routine or c.callee == routine]
        others = [c for c in nonforeign_calls(hash_impl) if c not in cs and not c.is_("Deref::deref", "AsRef::as_ref", "Borrow::borrow")]
        ok = len(cs) == 1 and not [o for o in others if o.bb != cs[0].bb]
        if ok:
            a = arg_syms(cs[0])
            ok = is_param(a[0], 1) and _self_field(a[1], KF["name"]) and _self_field(a[2], KF["labels"])
        chk.ob("C03.b", hash_impl.path, ok, "Hash for Key = the shared routine over (self.name, self.labels)" if ok else "Hash for Key does not use the shared hashing routine over (self.name, self.labels)", hash_impl.loc())
    n_aggs = check_key_constructions(chk, "C03.b", m)
    chk.analysed["Key constructions"] = n_aggs

    # ---------------- C03.c
    gh = one_method(chk, "C03.c", m, KEY, "get_hash")
    if gh:
        b = gh.body
        ops = [o for o in atomic_ops(gh) if _self_field(o[2], KF["hashed"]) or _self_field(o[2], KF["hash"])]
        loads = [o for o in ops if o[1] == "load"]
        stores = [o for o in ops if o[1] in ("store", "swap")]
        lh = [o for o in loads if _self_field(o[2], KF["hashed"])]
        lv = [o for o in loads if _self_field(o[2], KF["hash"])]
        sh = [o for o in stores if _self_field(o[2], KF["hashed"])]
        sv = [o for o in stores if _self_field(o[2], KF["hash"])]
        shape = len(lh) == 1 and len(lv) == 1 and len(sh) == 1 and len(sv) == 1 and len(ops) == 4
        chk.ob("C03.c", f"{gh.path} [protocol shape]", shape, "one load of hashed, one load of hash, one write of each" if shape else f"unexpected atomic operations {[(o[1], sym_str(o[2])[-20:]) for o in ops]}", gh.loc())
        if shape:
            o1 = orderings_in(lh[0][3]) + orderings_in(lv[0][3])
            ok = all(x in ("Acquire", "AcqRel", "SeqCst") for x in o1) and len(o1) == 2
            chk.ob("C03.c", f"{gh.path} [consume orderings]", ok, f"loads are {o1}" if ok else f"loads are {o1}: must be >= Acquire to see the hash published by another thread", lh[0][0].loc())
            o2 = orderings_in(sv[0][3]) + orderings_in(sh[0][3])
            ok = all(x in ("Release", "AcqRel", "SeqCst") for x in o2) and len(o2) == 2
            chk.ob("C03.c", f"{gh.path} [publish orderings]", ok, f"writes are {o2}" if ok else f"writes are {o2}: must be >= Release", sv[0][0].loc())
            ok = b.dominates(sv[0][0].bb, sh[0][0].bb) and sv[0][0].bb != sh[0][0].bb
            chk.ob("C03.c", f"{gh.path} [hash before flag]", ok, "the hash write dominates the flag write" if ok else "hashed is set before the hash value is stored: a racing reader can observe hashed == true with a stale hash", sh[0][0].loc())
            # the hash load is reachable only when the flag load returned true
            from facts import PredFlow

            def cbool(x):
                x = strip_sym(x)
                if sym_is_call(x, "load") and _self_field(x[2][0], KF["hashed"]):
                    return ("P", "N")
                return None

            fl = PredFlow(gh, lambda subj, v: None, cbool)
            ok = fl.at(lv[0][0].bb) == "P" and b.dominates(lh[0][0].bb, lv[0][0].bb)
            chk.ob("C03.c", f"{gh.path} [flag before hash]", ok, "hash.load is reachable only after hashed.load returned true" if ok else "the cached hash is read without first seeing hashed == true", lv[0][0].loc())
            pair = hash_of_pair(gh, sv[0][3][1], routine)
            ok = pair is not None and _self_field(pair[0], KF["name"]) and _self_field(pair[1], KF["labels"])
            chk.ob("C03.c", f"{gh.path} [stored value]", ok, "stores finish() of a hasher fed by the shared routine over (&self.name, &self.labels)" if ok else f"stores {sym_str(strip_sym(sv[0][3][1]))[:100]}", sv[0][0].loc())
    cl = (m.method(KEY, "clone", "Clone") or [None])[0]
    if cl:
        ops = atomic_ops(cl)
        lh = [o for o in ops if o[1] == "load" and _self_field(o[2], KF["hashed"])]
        lv = [o for o in ops if o[1] == "load" and _self_field(o[2], KF["hash"])]
        ok = len(lh) == 1 and len(lv) == 1 and cl.body.dominates(lh[0][0].bb, lv[0][0].bb) and lh[0][0].bb != lv[0][0].bb and all(x in ("Acquire", "AcqRel", "SeqCst") for x in orderings_in(lh[0][3]) + orderings_in(lv[0][3]))
        chk.ob("C03.c", f"{cl.path} [flag before hash]", ok, "clone loads hashed (Acquire) before hash" if ok else "clone may copy hashed == true together with a hash that is not yet published", cl.loc())

    # ---------------- C03.d
    COW = "metrics::cow::Cow"
    for trait, meth, inner in (("Hash", "hash", "Hash::hash"), ("PartialEq", "eq", "PartialEq::eq"), ("PartialOrd", "partial_cmp", "PartialOrd::partial_cmp"), ("Ord", "cmp", "Ord::cmp")):
        f = (m.method(COW, meth, trait) or [None])[0]
        if f is None:
            chk.unrecognised("C03.d", f"<anchor> <Cow as {trait}>::{meth}", "missing")
            continue
        cs = [c for c in nonforeign_calls(f) if c.is_(inner)]
        derefs = [c for c in nonforeign_calls(f) if c.is_("Deref::deref")]
        ok = len(cs) == 1 and all(sym_is_call(a, "Deref::deref") for a in arg_syms(cs[0])[: (1 if meth == "hash" else 2)])
        # no direct look at the representation, and the result is exactly the delegated call's result
        from props.common import region_tokens

        direct = any(tok in (".ptr", ".metadata") for tok, _ in region_tokens(f))
        if meth != "hash":
            r0 = strip_sym(Sym(f).local(0))
            ok = ok and sym_is_call(r0, inner)
        chk.ob("C03.d", f.path, ok and not direct, f"{meth}() delegates to the target's {inner} through deref() only" if ok and not direct else f"{meth}() looks at the representation (ptr/metadata) or does not delegate through deref()", f.loc())
    for ty, fields in (("metrics::label::Label", ["0", "1"]), ("metrics::key::KeyName", ["0"])):
        adt = m.adts.get(ty)
        if adt is None:
            chk.unrecognised("C03.d", f"<anchor> {ty}", "missing")
            continue
        got = [f["name"] for f in adt["variants"][0]["fields"]]
        derived = {i["trait"].split("::")[-1] for i in m.impls if i.get("derived") and i["self_ty"] == ty and i.get("trait")}
        need_t = {"PartialEq", "Eq", "Hash", "PartialOrd", "Ord"}
        ok = got == fields and need_t <= derived
        chk.ob("C03.d", f"{ty} [derived relations]", ok, f"derives {sorted(need_t)} over fields {got}" if ok else f"{ty}: derived {sorted(derived)}, fields {got} — hand-written relations could disagree", f"{adt['file']}:{adt['ln']}")
    for meth, fld in (("key", "0"), ("value", "1")):
        f = (m.method("metrics::label::Label", meth) or [None])[0]
        if f:
            r = sym_through(Sym(f).local(0), "AsRef::as_ref", "Deref::deref")
            ok = r[0] == "field" and r[2] == fld and is_param(r[1], 0)
            chk.ob("C03.d", f.path, ok, f"Label::{meth}() reads field {fld}" if ok else f"Label::{meth}() returns {sym_str(r)[:80]}", f.loc())

    # ---------------- C03.e
    if u is not None:
        f = [x for x in u.fns if x.name == "hashable" and x.j.get("impl_self") == KEY]
        if len(f) != 1:
            chk.unrecognised("C03.e", "<anchor> <Key as Hashable>::hashable", f"found {len(f)}")
        else:
            r = strip_sym(Sym(f[0]).local(0))
            ok = sym_is_call(r, "Key::get_hash") and is_param(r[2][0], 0)
            chk.ob("C03.e", f[0].path, ok, "hashable() = self.get_hash()" if ok else f"hashable() returns {sym_str(r)[:100]}: registry shard/lookup hash differs from the key's own hash", f[0].loc())


def hash_of_pair(fn, h, routine):
    """If h is `hasher.finish()` of a hasher that (in fn's body, helpers spliced in) is fed by exactly one call of the
    shared hashing routine and nothing else, returns that call's (name-sym, labels-sym); else None."""
    h = strip_sym(h)
    if not sym_is_call(h, "Hasher::finish") or routine is None:
        return None
    hasher = strip_sym(h[2][0])
    feeds, others = [], []
    for f in fn.region():
        for c in nonforeign_calls(f):
            a = arg_syms(c)
            if not a or strip_sym(a[0]) != hasher:
                continue
            if c.resolved == routine or c.callee == routine:
                feeds.append(a)
            elif not c.is_("Hasher::finish"):
                others.append(c)
    if len(feeds) != 1 or others:
        return None
    return feeds[0][1], feeds[0][2]


def _same_value(a, b):
    t = ("Deref::deref", "AsRef::as_ref", "Borrow::borrow")
    return repr(sym_through(a, *t)) == repr(sym_through(b, *t))


def check_key_constructions(chk, rule, m):
    """Every construction of a Key stores a hash that belongs to the (name, labels) it is built with."""
    KF.update(key_fields(m))
    routines = m.role(is_hash_routine)
    routine = routines[0].path if len(routines) == 1 else None
    n_aggs = 0
    for f in m.fns:
        if f.dk not in ("Fn", "AssocFn") or "::tests::" in f.path:
            continue
        for ff, bb, k, s in aggregates(f, "metrics::key::Key") if f.parent is None else []:
            if s["rv"].get("adt") != KEY:
                continue
            n_aggs += 1
            sy = Sym(ff)
            fields = dict(zip(s["rv"]["fields"], [strip_sym(sy.operand(o)) for o in s["rv"]["ops"]]))
            where = f"{ff.path} [Key construction]"
            loc = f"{ff.file}:{s['ln']}"
            hashed, hashv = fields.get(KF["hashed"]), fields.get(KF["hash"])
            if hashed is None or hashv is None:
                chk.unrecognised(rule, where, "Key has no hashed/hash fields", loc)
                continue
            is_clone = ff.name == "clone" and (ff.j.get("impl_trait") or "").endswith("Clone")
            if is_clone:
                ok = all(sym_is_call(fields[KF[x]], "Clone::clone") and _self_field(strip_sym(fields[KF[x]])[2][0], KF[x]) for x in ("name", "labels"))
                ok = ok and sym_is_call(hashed, "Atomic<bool>::new", "AtomicBool::new") and sym_is_call(strip_sym(hashed[2][0]), "load") and _self_field(strip_sym(hashed[2][0])[2][0], KF["hashed"])
                ok = ok and sym_is_call(hashv, "Atomic<u64>::new", "AtomicU64::new") and sym_is_call(strip_sym(hashv[2][0]), "load") and _self_field(strip_sym(hashv[2][0])[2][0], KF["hash"])
                chk.ob(rule, where, ok, "clone copies name, labels, hashed and hash from self" if ok else "clone does not copy (name, labels, hashed, hash) from the same key", loc)
                continue
            flag = strip_sym(hashed[2][0]) if sym_is_call(hashed, "Atomic<bool>::new", "AtomicBool::new") else None
            if flag is not None and flag[:3] == ("const", "bool", False):
                chk.ob(rule, where, True, "starts un-hashed (hash computed lazily from its own fields)", loc)
            elif flag is not None and flag[:3] == ("const", "bool", True) and sym_is_call(hashv, "Atomic<u64>::new", "AtomicU64::new"):
                hv = strip_sym(hashv[2][0])
                pair = hash_of_pair(ff, hv, routine)
                ok = pair is not None and _same_value(pair[0], fields[KF["name"]]) and _same_value(pair[1], fields[KF["labels"]])
                chk.ob(rule, where, ok, "pre-hashed by the shared routine over exactly the name and labels it stores" if ok else f"stored hash is {sym_str(hv)[:100]} — not the hash of the (name, labels) this key is built with", loc)
            else:
                chk.ob(rule, where, False, f"hashed/hash fields are taken from {sym_str(hashed)[:70]} / {sym_str(hashv)[:70]}: a key built from another key's cached hash keeps a stale hash when its labels differ", loc)
    # a Key's identity fields are never modified in place (that would leave the memoised hash behind)
    touched = []
    for f in m.fns:
        if "::tests::" in f.path or f.j.get("derived"):
            continue
        for i, k, st in f.body.stmts():
            if st["k"] != "assign":
                continue
            places = [(st["p"], True)]
            rv = st["rv"]
            if rv["k"] in ("ref", "rawptr") and rv.get("mut"):
                places.append((rv["p"], True))
            for pl, _w in places:
                for e in pl.get("pr") or []:
                    if isinstance(e, dict) and e.get("f") in (KF["name"], KF["labels"]) and strip_generics(e.get("of", "")) == KEY:
                        touched.append((f, st.get("ln")))
        for blk_i in range(f.body.n):
            t = f.body.term(blk_i)
            if t["k"] == "drop" and any(isinstance(e, dict) and e.get("f") in (KF["name"], KF["labels"]) and strip_generics(e.get("of", "")) == KEY for e in (t["p"].get("pr") or [])) and not f.body.blocks[blk_i].get("cleanup"):
                pass  # field-wise drop of a moved-from key (into_parts): not a modification
    chk.ob(rule, f"{KEY} [identity fields never modified in place]", not touched, "name and labels are only ever set by constructing a Key" if not touched else f"{sorted({x[0].path for x in touched})} write or mutably borrow a Key's name/labels in place: the memoised (hashed, hash) pair is not invalidated, so the key keeps the hash of its old identity", f"{touched[0][0].file}:{touched[0][1]}" if touched else "")
    return n_aggs


def _self_field(s, field):
    s = sym_through(s, "Deref::deref", "AsRef::as_ref")
    return isinstance(s, tuple) and s and s[0] == "field" and s[2] == field and is_param(s[1], 0)


def run_config(ctx):
    run(ctx)
