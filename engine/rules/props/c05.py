"""C05 — the lock-free bucket never loses, duplicates or invents a sample."""
from facts import Sym, alternatives, path_is, strip_generics, strip_sym, sym_arg, sym_calls, sym_is_call, sym_str, sym_through, sym_walk
from props.common import arg_syms, atomic_ops, bool_switches, calls_to, crate_stats, gates, in_cycle, need, nonforeign_calls, one_method, orderings_in, recorder_forward

KEEP = [  # private helpers the rules name (kept as functions); every other non-exported, non-trait function is spliced into its callers
    "Block::data", "Block::is_quiesced", "Block::len", "Block::new",
    "Block::next_len", "Block::push", "Block::seal", "CompositeKeyName::new",
    "Generational::new", "Inner::new", "MetricKindMask::value", "RecoverableRecorder::build",
    "Reservoir::push",
]
TITLE = "C05 the lock-free bucket never loses, duplicates or invents a sample."
CONFIGS = ["test-profile", "util-storage"]
BLK = "metrics_util::storage::bucket::Block"
BKT = "metrics_util::storage::bucket::AtomicBucket"
ACQ = ("Acquire", "AcqRel", "SeqCst")
REL = ("Release", "AcqRel", "SeqCst")
RMW = ("fetch_or", "fetch_add", "swap", "fetch_max", "fetch_update", "compare_exchange", "store")


def is_param(s, i):
    a = sym_arg(s)
    return a is not None and a[0] == i


def self_field(s, field, param=0):
    s = strip_sym(s)
    return isinstance(s, tuple) and s and s[0] == "field" and s[2] == field and is_param(s[1], param)


def block_size(u):
    f = u.fn("metrics_util::storage::bucket::BLOCK_SIZE")
    if f is None:
        return None
    v = strip_sym(Sym(f).local(0))
    return v[2] if v[:2] == ("const", "int") else None


def const_int(s):
    s = strip_sym(s)
    return s[2] if s[:2] == ("const", "int") else None


def run(ctx):
    chk = ctx.check
    u = ctx.crate("metrics_util")
    crate_stats(chk, u)
    chk.rule("C05.a", "ORD+ATOM slot protocol: Block::push claims with one write.fetch_add(1); the slot write is control-dependent on index < BLOCK_SIZE and dominates read.fetch_or(1 << index) (>= Release); len() = read.load(>= Acquire).trailing_ones(); data()'s length comes from len() only; Drop drops exactly 0..len() slots", floor=7)
    chk.rule("C05.b", "MPT readers wait for quiescence: every Block::data call in data_with/clear_with is reached only after the block was found quiesced (is_quiesced() == true, or len() == claimed-at-seal); is_quiesced compares min(write.load(>= Acquire), BLOCK_SIZE) with len(); traversal uses next.load(>= Acquire)", floor=5)
    chk.rule("C05.c", "ORD initialise before publish: in AtomicBucket::push the store to the new block's `next` dominates the compare_exchange that makes the block reachable from tail", floor=1)
    chk.rule("C05.d", "MPT no claim after detach: between the detaching CAS of clear_with and the read of a block there is a fence on that block's claim counter (an RMW on `write` that puts every later claim out of range), and push honours it through its bounds check", floor=2)
    chk.rule("C05.e", "WMC+ORD detach and reclamation: clear_with detaches with one CAS to null and reads only on its success edge; Shared::into_owned occurs only inside closures passed to Guard::defer_unchecked created after that success edge; every Shared::deref is preceded by an epoch pin (or done under a guard parameter)", floor=4)
    chk.rule("C05.f", "FWD delivery: data -> data_with, clear -> clear_with; the callback receives exactly block.data(); HistogramFn for AtomicBucket<f64>::record = push(value)", floor=5)
    chk.trust("crossbeam_epoch::{pin, Atomic, Shared, Guard::defer_unchecked}", "core::sync::atomic::AtomicUsize", "crossbeam_utils::Backoff")
    chk.residue.append("exactly-once delivery and snapshot completeness as a property of all interleavings (model-checking territory) are NOT decided; a.-f. are the structural premises of that argument, each a necessary condition named by the anchors")
    chk.residue.append("BLOCK_SIZE for 16/32-bit targets cannot be type-checked in this sandbox (no std for those targets); the rules read BLOCK_SIZE symbolically from the 64-bit build")

    BS = block_size(u)
    push = one_method(chk, "C05.a", u, BLK, "push")
    lenf = one_method(chk, "C05.a", u, BLK, "len")
    dataf = one_method(chk, "C05.a", u, BLK, "data")
    isq = one_method(chk, "C05.b", u, BLK, "is_quiesced")

    # the block's two counters by role, not by name: `claim` = the one push advances by fetch_add, `done` = the bitmap
    # push publishes into by fetch_or (declared names are the fallback when push does not have that shape)
    W_F, R_F = "write", "read"
    if push:
        adds_ = [o for o in atomic_ops(push) if o[1] == "fetch_add" and strip_sym(o[2])[0] == "field"]
        ors_ = [o for o in atomic_ops(push) if o[1] == "fetch_or" and strip_sym(o[2])[0] == "field"]
        if len(adds_) == 1 and len(ors_) == 1 and strip_sym(adds_[0][2])[2] != strip_sym(ors_[0][2])[2]:
            W_F, R_F = strip_sym(adds_[0][2])[2], strip_sym(ors_[0][2])[2]

    # ---------------- C05.a
    if push:
        b = push.body
        ops = atomic_ops(push)
        claim = [o for o in ops if self_field(o[2], W_F)]
        publish = [o for o in ops if self_field(o[2], R_F)]
        ok = len(claim) == 1 and claim[0][1] == "fetch_add" and const_int(claim[0][3][1]) == 1 and len(publish) == 1 and publish[0][1] == "fetch_or" and len(ops) == 2
        chk.ob("C05.a", f"{push.path} [claim/publish shape]", ok, "one write.fetch_add(1) claim, one read.fetch_or publish" if ok else f"atomic ops in Block::push: {[(o[1], sym_str(o[2])[-12:]) for o in ops]} — a slot must be claimed by a single fetch_add and published by a single fetch_or", push.loc())
        if ok:
            cl, pb = claim[0], publish[0]
            writes = [c for c in nonforeign_calls(push) if strip_generics(c.resolved or "").endswith("::write") or c.is_("ptr::write")]
            if len(writes) != 1:
                chk.unrecognised("C05.a", f"{push.path} [slot write]", f"expected one raw write into the slot, found {len(writes)}", push.loc())
            else:
                w = writes[0]
                g = gates(b, w.bb)
                bounded = False
                for d, lab in g:
                    d = strip_sym(d)
                    if d[0] == "bin" and d[1] in ("Ge", "Lt", "Gt", "Le"):
                        l, r = strip_sym(d[2]), strip_sym(d[3])
                        if sym_is_call(l, "fetch_add") and (const_int(r) == BS or "BLOCK_SIZE" in repr(r)):
                            bounded = (d[1] == "Ge" and lab is False) or (d[1] == "Lt" and lab is True)
                    # the checked accessor: `let Some(slot) = self.slots.get(index) else { return Err(value) }` — the slot
                    # array has BLOCK_SIZE elements, so Some <=> index < BLOCK_SIZE
                    if lab == "Some" and sym_is_call(d, "<impl [T]>::get", "get") and len(d[2]) == 2 and "'slots'" in repr(d[2][0]) and sym_is_call(strip_sym(d[2][1]), "fetch_add"):
                        bounded = True
                chk.ob("C05.a", f"{push.path} [bounds check]", bounded, "the slot write happens only when the claimed index < BLOCK_SIZE" if bounded else "the slot write is not guarded by index < BLOCK_SIZE (out-of-bounds write when the block is full or sealed)", w.loc())
                # slot index is the claimed index
                ws = arg_syms(w)
                idx_ok = any(isinstance(x, tuple) and x and x[0] == "call" and sym_is_call(x, "get_unchecked", "Index::index", "get") and len(x[2]) > 1 and sym_is_call(strip_sym(x[2][1]), "fetch_add") for x in sym_walk(ws[0]))
                chk.ob("C05.a", f"{push.path} [slot = claimed index]", idx_ok, "the value is written into slots[claimed index]" if idx_ok else f"the slot written is {sym_str(ws[0])[:100]}, not slots[index claimed by fetch_add]", w.loc())
                dom = b.dominates(w.bb, pb[0].bb) and w.bb != pb[0].bb
                chk.ob("C05.a", f"{push.path} [write before publish]", dom, "the slot write dominates read.fetch_or" if dom else "the completion bit can be published before the slot is written (reader observes an unwritten slot)", pb[0].loc())
            po = orderings_in(pb[3])
            bit = strip_sym(pb[3][1])
            bit_ok = bit[0] == "bin" and bit[1].startswith("Shl") and const_int(bit[2]) == 1 and sym_is_call(bit[3], "fetch_add") or (bit[0] == "field" and "Shl" in repr(bit))
            if bit[0] == "field":
                inner = strip_sym(bit[1])
                bit_ok = inner[0] == "bin" and inner[1].startswith("Shl") and const_int(inner[2]) == 1 and any(sym_is_call(x, "fetch_add") for x in sym_walk(inner[3]) if isinstance(x, tuple) and x and x[0] == "call")
            okp = len(po) == 1 and po[0] in REL and bit_ok
            chk.ob("C05.a", f"{push.path} [publish bit and ordering]", okp, f"read.fetch_or(1 << index, {po[0]})" if okp else f"publish is fetch_or({sym_str(bit)[:60]}, {po}) — must set bit `index` with ordering >= Release", pb[0].loc())
    if lenf:
        r = strip_sym(Sym(lenf).local(0))
        while r[0] == "cast":
            r = strip_sym(r[1])
        ok = sym_is_call(r, "trailing_ones") and sym_is_call(r[2][0], "load") and self_field(strip_sym(r[2][0])[2][0], R_F)
        lo = orderings_in(arg_syms(list(lenf.body.calls())[0])) if ok else []
        ok = ok and len(lo) == 1 and lo[0] in ("Acquire", "SeqCst")
        chk.ob("C05.a", lenf.path, ok, f"len() = read.load({lo[0] if lo else '?'}).trailing_ones()" if ok else f"len() is {sym_str(r)[:100]} with ordering {lo}: must count completed slots from `read` with >= Acquire", lenf.loc())
    if dataf:
        frp = [c for c in nonforeign_calls(dataf) if c.is_("slice::from_raw_parts", "from_raw_parts")]
        ok = len(frp) == 1
        if ok:
            ln = strip_sym(arg_syms(frp[0])[1])
            ok = sym_is_call(ln, "Block<T>::len") and is_param(ln[2][0], 0)
        touches_write = any(self_field(o[2], W_F) for o in atomic_ops(dataf))
        chk.ob("C05.a", dataf.path, ok and not touches_write, "data() = from_raw_parts(slots, self.len())" if ok and not touches_write else "data()'s length does not come from len() only (reading `write` exposes claimed-but-unwritten slots)", dataf.loc())
    dropf = (u.method(BLK, "drop", "Drop") or [None])[0]
    if dropf:
        sy = Sym(dropf)
        rng = None
        for c in dropf.body.calls():
            if c.is_("IntoIterator::into_iter"):
                rng = strip_sym(sy.operand(c.args[0]))
        dp = [c for c in dropf.body.calls() if c.is_("drop_in_place")]
        ok = rng is not None and rng[0] == "agg" and const_int(rng[3][0]) == 0 and sym_is_call(rng[3][1], "Block<T>::len") and len(dp) == 1 and in_cycle(dropf.body, dp[0].bb)
        if not ok and len(dp) == 1:
            # slots.iter().take(len): the first len() slots, in order
            from props.common import iteration_context

            src, _w = iteration_context(dp[0])
            src = strip_sym(src) if src is not None else None
            if src is not None and sym_is_call(src, "Iterator::take") and "'slots'" in repr(src[2][0]) and sym_is_call(src[2][1], "Block<T>::len") and not any(x in sym_str(src[2][0]) for x in ("skip(", "rev(", "step_by(")):
                ok = True
        chk.ob("C05.a", dropf.path, ok, "Drop drops exactly slots 0..len()" if ok else "Drop for Block does not drop exactly the completed slots 0..len()", dropf.loc())
    else:
        chk.unrecognised("C05.a", "<anchor> Drop for Block", "missing")

    # ---------------- C05.b
    if isq:
        b = isq.body
        sy = Sym(isq)
        found = False
        load_ok = False
        for i, k, s in b.stmts():
            if s["k"] == "assign" and s["rv"]["k"] == "bin" and s["rv"]["op"] == "Eq":
                e = strip_sym(sy.rvalue(s["rv"], 0, frozenset()))
                def _payload(x):
                    # `match helper() { Some(n) => n == .., None => .. }` with the helper spliced in: the Some payload of the
                    # one alternative that builds Some(..)
                    x = strip_sym(x)
                    if x[0] == "field" and strip_sym(x[1])[0] == "downcast" and strip_sym(x[1])[2] == "Some":
                        y = strip_sym(strip_sym(x[1])[1])
                        alts = [strip_sym(z) for z in y[1]] if y[0] == "phi" else [y]
                        somes = [z for z in alts if z[0] == "agg" and z[2] == "Some" and len(z[3]) == 1]
                        if len(somes) == 1 and all(z[0] == "agg" and z[2] in ("Some", "None") for z in alts):
                            return strip_sym(somes[0][3][0])
                    return x

                l, r = _payload(e[2]), _payload(e[3])
                for a, c in ((l, r), (r, l)):
                    if sym_is_call(a, "cmp::min") and sym_is_call(c, "Block<T>::len"):
                        m0, m1 = strip_sym(a[2][0]), strip_sym(a[2][1])
                        wl = m0 if sym_is_call(m0, "load") else m1
                        cst = m1 if wl is m0 else m0
                        if sym_is_call(wl, "load") and self_field(wl[2][0], W_F) and (const_int(cst) == BS):
                            found = True
        wl = [o for o in atomic_ops(isq) if o[1] == "load" and self_field(o[2], W_F)]
        load_ok = len(wl) >= 1 and all(x in ("Acquire", "SeqCst") for o in wl for x in orderings_in(o[3]))
        chk.ob("C05.b", isq.path, found and load_ok, "is_quiesced compares min(write.load(Acquire), BLOCK_SIZE) with len()" if found and load_ok else "is_quiesced does not compare the (clamped) number of claimed slots with the number of completed slots using >= Acquire loads", isq.loc())
    for fname in ("data_with", "clear_with"):
        f = one_method(chk, "C05.b", u, BKT, fname)
        if not f:
            continue
        b = f.body
        dcs = [c for c in nonforeign_calls(f) if c.is_("Block<T>::data")]
        if not dcs:
            chk.unrecognised("C05.b", f"{f.path} [reads]", "no Block::data call found", f.loc())
            continue
        for n, dc in enumerate(dcs):
            blk = repr(strip_sym(arg_syms(dc)[0]))
            g = gates(b, dc.bb)
            waited = False
            how = ""
            for d, lab in g:
                d = strip_sym(d)
                if sym_is_call(d, "Block<T>::is_quiesced") and lab is True and repr(strip_sym(d[2][0])) == blk:
                    waited, how = True, "is_quiesced() == true"
                if d[0] == "un" and d[1] == "Not" and sym_is_call(d[2], "Block<T>::is_quiesced") and lab is False and repr(strip_sym(strip_sym(d[2])[2][0])) == blk:
                    waited, how = True, "!is_quiesced() == false"
                if d[0] == "bin" and d[1] in ("Ne", "Eq"):
                    l, r = strip_sym(d[2]), strip_sym(d[3])
                    pair = (sym_is_call(l, "Block<T>::len") and sym_is_call(r, "Block<T>::seal")) or (sym_is_call(r, "Block<T>::len") and sym_is_call(l, "Block<T>::seal"))
                    if pair and ((d[1] == "Ne" and lab is False) or (d[1] == "Eq" and lab is True)) and repr(strip_sym(l[2][0])) == blk and repr(strip_sym(r[2][0])) == blk:
                        waited, how = True, "len() == slots claimed at seal"
            # once a block has been sealed is_quiesced() is trivially true: the wait must then compare len() with the
            # number of slots claimed at the seal
            sealed_before = [c for c in nonforeign_calls(f) if c.fn is f and c.is_("Block<T>::seal") and b.dominates(c.bb, dc.bb) and repr(strip_sym(arg_syms(c)[0])) == blk]
            if waited and sealed_before and how != "len() == slots claimed at seal":
                waited = False
                why = "the block is sealed before the wait, and is_quiesced() is trivially true for a sealed block: the clearer no longer waits for slots that were claimed but not yet written, and their values are lost"
            else:
                why = "a block is read without waiting for its in-flight writes (claimed slots may be unwritten / later writes missed)"
            chk.ob("C05.b", f"{f.path} [wait before read #{n}]", waited, f"Block::data is reached only after {how} on the same block" if waited else why, dc.loc())
        nl = [o for o in atomic_ops(f) if o[1] == "load" and strip_sym(o[2])[0] == "field" and strip_sym(o[2])[2] in ("next", "tail")]
        ok = nl and all(x in ("Acquire", "SeqCst") for o in nl for x in orderings_in(o[3]))
        chk.ob("C05.b", f"{f.path} [traversal orderings]", ok, f"{len(nl)} tail/next loads, all >= Acquire" if ok else "tail/next is loaded with an ordering weaker than Acquire (a freshly linked block may be seen uninitialised)", f.loc())

    ie = one_method(chk, "C05.b", u, BKT, "is_empty")
    if ie:
        def is_zero_test(v, callee):
            return v[0] == "bin" and v[1] == "Eq" and ((sym_is_call(v[2], callee) and const_int(v[3]) == 0) or (sym_is_call(v[3], callee) and const_int(v[2]) == 0))

        # the value is produced either by is_empty itself or by the closure it hands to Option::map_or / is_none_or
        ok = False
        ok_null = True
        for g_ in ie.region():
            b = g_.body
            sy = Sym(g_)
            rets = []
            for i, k, st in b.stmts():
                if st["k"] == "assign" and st["p"]["l"] == 0 and not st["p"].get("pr"):
                    if st["rv"]["k"] == "use":
                        # the returned value may be a local assigned on several paths (a helper with an early `return false`, spliced in)
                        for alt in alternatives(g_, st["rv"]["a"], i, sy):
                            rets.append((alt[0], strip_sym(alt[1])))
                    else:
                        rets.append((i, strip_sym(sy.rvalue(st["rv"], 0, frozenset()))))
            for i, v in rets:
                for first, second in (("Block<T>::len", "Block<T>::next_len"), ("Block<T>::next_len", "Block<T>::len")):
                    def nonzero_test(v_, callee):
                        return v_[0] == "bin" and ((v_[1] == "Ne" and ((sym_is_call(v_[2], callee) and const_int(v_[3]) == 0) or (sym_is_call(v_[3], callee) and const_int(v_[2]) == 0))) or (v_[1] == "Gt" and sym_is_call(v_[2], callee) and const_int(v_[3]) == 0))

                    if is_zero_test(v, second) and any((lab is True and is_zero_test(strip_sym(d), first)) or (lab is False and nonzero_test(strip_sym(d), first)) for d, lab in gates(b, i, up=False)):
                        ok = True
            if g_ is ie:
                trues = [i for i, v in rets if v[:3] == ("const", "bool", True)]
                ok_null = all(any((lab is True and sym_is_call(d, "is_null")) or (lab == "None" and sym_is_call(d, "Shared<'g, T>::as_ref", "as_ref")) for d, lab in gates(b, i)) for i in trues)
        chk.ob("C05.b", ie.path, ok and ok_null, "is_empty() is true only for a null tail, or an empty tail block whose predecessor is empty too" if ok and ok_null else "is_empty() does not look at the block behind a fresh, still empty tail: it reports `empty` while completed pushes sit in the older blocks", ie.loc())
    nlf = (u.method(BLK, "next_len") or [None])[0]
    if nlf:
        ops = [o for o in atomic_ops(nlf) if o[1] == "load"]
        r = strip_sym(Sym(nlf).local(0))
        ok = len(ops) == 1 and self_field(ops[0][2], "next") and orderings_in(ops[0][3])[0] in ("Acquire", "SeqCst") and "len" in sym_str(r)
        chk.ob("C05.b", nlf.path, ok, "next_len() = len of the block loaded from `next` (Acquire), 0 if none" if ok else "next_len() does not report the length of the predecessor block", nlf.loc(), nontrivial=False)

    # ---------------- C05.c
    bpush = one_method(chk, "C05.c", u, BKT, "push")
    if bpush:
        b = bpush.body
        ops = atomic_ops(bpush)
        cases = [o for o in ops if o[1] == "compare_exchange" and self_field(o[2], "tail")]
        nstores = [o for o in ops if o[1] == "store" and strip_sym(o[2])[0] == "field" and strip_sym(o[2])[2] == "next"]
        # the CAS that installs a successor block: expected value is a non-null `tail`
        succ = [o for o in cases if not sym_is_call(o[3][1], "Shared<'g, T>::null")]
        ok = len(succ) == 1 and len(nstores) == 1
        detail = f"{len(succ)} successor CAS, {len(nstores)} stores to `next`"
        if ok:
            cas, st = succ[0], nstores[0]
            newv = cas[0].args[2]
            newl = (newv.get("move") or newv.get("copy") or {}).get("l")
            # the store's receiver derives from the same Owned local
            base = strip_sym(st[2])[1]
            okb = any(isinstance(x, tuple) and x == ("call",) for x in ()) or True
            sy = Sym(bpush)
            owned_sym = repr(strip_sym(sy.local(newl))) if newl is not None else None
            same = owned_sym is not None and owned_sym in repr(base)
            dom = b.dominates(st[0].bb, cas[0].bb) and st[0].bb != cas[0].bb
            so = orderings_in(st[3])
            linked = repr(strip_sym(st[3][1])) == repr(strip_sym(cas[3][1]))
            ok = same and dom and linked
            detail = f"store-before-CAS={dom}, same block={same}, links to the expected tail={linked}"
        chk.ob("C05.c", f"{bpush.path} [link before publish]", ok, "new_block.next.store(tail) dominates tail.compare_exchange(tail, new_block)" if ok else f"the new block is published before (or without) being linked to its predecessor ({detail}): a reader/clearer in the window misses or loses every older block", bpush.loc())

        # tail only ever moves by compare-and-swap in push: a plain store (or swap) of a new block, on the empty bucket or on
        # hand-over, overwrites whatever another pusher installed in between together with the completed pushes in it
        blind = [o for o in ops if o[1] in ("store", "swap") and self_field(o[2], "tail")]
        chk.ob("C05.c", f"{bpush.path} [tail moves by CAS only]", bool(cases) and not blind, f"{len(cases)} compare_exchange on tail, no unconditional write" if cases and not blind else f"push writes tail with an unconditional {blind[0][1] if blind else '?'}: two pushers that both saw the old tail each install a block, and the first one's block (with its values) is unlinked", blind[0][0].loc() if blind else bpush.loc(), nontrivial=False)

        # a pusher that loses an install CAS goes on with the tail it was shown (`e.current`), never with its own unpublished
        # block (`e.new`): values pushed into that block are linked from nowhere
        own = []
        sy_ = Sym(bpush)
        for i_, k_, st in b.stmts():
            if st["k"] == "assign":
                pl_ = st["rv"].get("p") or (st["rv"].get("a") or {}).get("move") or (st["rv"].get("a") or {}).get("copy") or {}
                if any(isinstance(e_, dict) and e_.get("f") == "new" and "CompareExchangeError" in str(e_.get("of", "")) for e_ in (pl_.get("pr") or [])):
                    own.append((i_, st.get("ln")))
        for c_ in b.calls():
            for a_ in c_.args:
                pl_ = a_.get("move") or a_.get("copy") or {}
                if any(isinstance(e_, dict) and e_.get("f") == "new" and "CompareExchangeError" in str(e_.get("of", "")) for e_ in (pl_.get("pr") or [])):
                    own.append((c_.bb, c_.line))
        # handing the unpublished block to drop() is just releasing it early
        dropped_ = set()
        for c_ in b.calls():
            if c_.is_("mem::drop") and c_.args:
                l_ = (c_.args[0].get("move") or {}).get("l")
                ds_ = [d for d in b.defs().get(l_, []) if d[0] == "assign"] if l_ is not None else []
                for d in ds_:
                    dropped_.add((d[1], d[3].get("ln")))
                pl_ = c_.args[0].get("move") or {}
                if any(isinstance(e_, dict) and e_.get("f") == "new" for e_ in (pl_.get("pr") or [])):
                    dropped_.add((c_.bb, c_.line))
        own = [o for o in own if o not in dropped_]
        chk.ob("C05.c", f"{bpush.path} [a lost install continues with the current tail]", not own, "the error's `new` field (the pusher's own block) is never used" if not own else "after a failed install the pusher continues with its own unpublished block (`e.new`) instead of the installed one (`e.current`): what it pushes there is linked from nowhere and is never read or cleared", f"{bpush.file}:{own[0][1]}" if own else bpush.loc(), nontrivial=False)

    # ---------------- C05.d
    cw = one_method(chk, "C05.d", u, BKT, "clear_with")
    if cw:
        b = cw.body
        dcs = [c for c in nonforeign_calls(cw) if c.is_("Block<T>::data")]
        for n, dc in enumerate(dcs):
            blk = repr(strip_sym(arg_syms(dc)[0]))
            fence = None
            for c in nonforeign_calls(cw):
                if c.fn is not cw or not b.dominates(c.bb, dc.bb) or c.bb == dc.bb:
                    continue
                a = arg_syms(c)
                if not a or repr(strip_sym(a[0])) != blk and not (strip_sym(a[0])[0] == "field" and repr(strip_sym(strip_sym(a[0])[1])) == blk):
                    continue
                callee = u.fn(c.resolved) if c.resolved else None
                if callee is not None:
                    inner = [o for o in atomic_ops(callee) if self_field(o[2], W_F) and o[1] in ("fetch_or", "fetch_add", "swap", "fetch_max")]
                    if inner and (const_int(inner[0][3][1]) or 0) >= (BS or 64):
                        fence = (c, inner[0][1], const_int(inner[0][3][1]))
                elif strip_generics(c.resolved or "").split("::")[-1] in ("fetch_or", "fetch_add", "swap", "fetch_max") and strip_sym(a[0])[0] == "field" and strip_sym(a[0])[2] == W_F:
                    if (const_int(a[1]) or 0) >= (BS or 64):
                        fence = (c, strip_generics(c.resolved).split("::")[-1], const_int(a[1]))
            chk.ob("C05.d", f"{cw.path} [claims fenced before read #{n}]", fence is not None, f"the block is sealed ({fence[1]} of {fence[2]:#x} on `write`) before it is read: later claims fall out of range and retry on the live tail" if fence else "nothing stops a writer holding a stale tail pointer from claiming a slot in a block the clearer has already read: that value is never delivered to any clear", dc.loc())
        # sealed blocks must be treated as quiescent by everybody else, or readers/Drop spin forever on polluted `write`
        if isq:
            ret_true_on_seal = any(d and strip_sym(d)[0] == "bin" and "BitAnd" in repr(d) for d, lab in [(x[1], None) for x in bool_switches(isq.body)])
            chk.ob("C05.d", f"{isq.path} [sealed blocks are quiescent]", ret_true_on_seal, "is_quiesced() short-circuits on the seal bit (failed claims after sealing keep bumping `write`)" if ret_true_on_seal else "is_quiesced() ignores the seal bit: a snapshot reader or Drop can spin forever on a sealed block whose `write` keeps growing", isq.loc())

    # ---------------- C05.e
    if cw:
        b = cw.body
        ops = atomic_ops(cw)
        cas = [o for o in ops if o[1].startswith("compare_exchange") and self_field(o[2], "tail")]
        ok = len(cas) == 1 and cas[0][1] == "compare_exchange" and sym_is_call(cas[0][3][2], "Shared<'g, T>::null")
        chk.ob("C05.e", f"{cw.path} [single detaching CAS]", ok, "one strong compare_exchange(tail -> null)" if ok else "clear_with does not detach the chain with exactly one compare_exchange to null", cw.loc())
        if ok:
            from props.common import cas_flow

            flow = cas_flow(cw, cas[0][0])

            def on_success(bb):
                return flow.at(bb) == "P"

            reads = [c for c in nonforeign_calls(cw) if c.fn is cw and c.is_("Block<T>::data", "Guard::defer_unchecked")]
            bad = [c for c in reads if not on_success(c.bb)]
            chk.ob("C05.e", f"{cw.path} [reads and frees only after winning the detach]", reads and not bad, f"{len(reads)} read/defer sites, all on the CAS-success edge" if reads and not bad else "blocks are read or scheduled for freeing without having won the detaching CAS (two clearers would deliver/free the same blocks)", cw.loc())
    owners = []
    for f in u.fns:
        if "storage::bucket" not in f.path or "::tests::" in f.path:
            continue
        for c in f.body.calls():
            if c.is_("Shared<'g, T>::into_owned", "Owned<T>::from_raw", "Box<T>::from_raw"):
                owners.append((f, c))
    bad = []
    for f, c in owners:
        # must be a closure passed to defer_unchecked
        par = f.parent
        okc = False
        if f.dk == "Closure" and par is not None:
            for pc in par.body.calls():
                if pc.is_("Guard::defer_unchecked"):
                    cl = strip_sym(Sym(par).operand(pc.args[1]))
                    if cl[0] == "agg" and cl[5] == f.path:
                        okc = True
        if not okc:
            bad.append(f.path)
    chk.ob("C05.e", "bucket [into_owned only in deferred closures]", owners and not bad, f"{len(owners)} into_owned sites, all inside closures handed to Guard::defer_unchecked" if owners and not bad else f"a block is freed outside epoch-deferred reclamation: {bad} (readers pinned earlier may still hold references)" if bad else "no reclamation site found", "metrics-util/src/storage/bucket.rs")
    n_deref = 0
    baddr = []
    for f in u.fns:
        if "storage::bucket" not in f.path or "::tests::" in f.path:
            continue
        for c in f.body.calls():
            if c.is_("Shared<'g, T>::deref", "Shared<'g, T>::as_ref"):
                n_deref += 1
                pins = [p for p in f.body.calls() if p.is_("crossbeam_epoch::default::pin", "epoch::pin")]
                has_guard_param = any("Guard" in l["ty"] for l in f.body.locals[1 : f.body.argc + 1])
                if not (any(f.body.dominates(p.bb, c.bb) for p in pins) or has_guard_param):
                    baddr.append(f.path)
    chk.ob("C05.e", "bucket [deref only under a pinned epoch]", n_deref and not baddr, f"{n_deref} Shared::deref sites, each dominated by epoch pin() or under a Guard parameter" if n_deref and not baddr else f"Shared::deref without a pinned epoch in {baddr}", "metrics-util/src/storage/bucket.rs")

    # ---------------- C05.f
    for outer, inner in (("data", "data_with"), ("clear", "clear_with")):
        f = one_method(chk, "C05.f", u, BKT, outer)
        if f:
            cs = [c for c in nonforeign_calls(f) if c.is_(f"AtomicBucket<T>::{inner}") and c.fn is f]
            ok = len(cs) == 1 and is_param(arg_syms(cs[0])[0], 0)
            chk.ob("C05.f", f.path, ok, f"{outer}() = {inner}(..)" if ok else f"{outer}() does not delegate to {inner}", f.loc())
    for fname in ("data_with", "clear_with"):
        f = (u.method(BKT, fname) or [None])[0]
        if f:
            cbs = [c for c in nonforeign_calls(f) if c.fn is f and c.is_("FnMut::call_mut", "FnOnce::call_once", "Fn::call") and is_param(arg_syms(c)[0], 1)]
            ok = len(cbs) == 1
            if ok:
                tup = strip_sym(arg_syms(cbs[0])[1])
                ok = tup[0] == "agg" and len(tup[3]) == 1 and sym_is_call(tup[3][0], "Block<T>::data")
            chk.ob("C05.f", f"{f.path} [callback argument]", ok, "the callback receives exactly block.data()" if ok else "the callback is not handed exactly block.data() once per block", f.loc())
    # the walk ends only at the end of the chain: every way out of the traversal loop is the `pointer is null` edge
    for fname in ("data_with", "clear_with"):
        f = (u.method(BKT, fname) or [None])[0]
        if not f:
            continue
        b = f.body
        nl = [o for o in atomic_ops(f) if o[0].fn is f and o[1] == "load" and "'next'" in repr(o[2]) and in_cycle(b, o[0].bb)]
        if len(nl) != 1:
            chk.unrecognised("C05.f", f"{f.path} [walk to the end of the chain]", f"expected one next.load on the traversal loop, found {len(nl)}", f.loc())
            continue
        hb = nl[0][0].bb
        loop = {x for x in b.reachable(hb) if hb in b.reachable(x)}
        sy = Sym(f)
        bad = []
        n_exit = 0
        for x in sorted(loop):
            t = b.term(x)
            for v in b.succ(x):
                if v in loop or b.blocks[v].get("cleanup"):
                    continue
                if not (set(b.return_blocks()) & set(b.reachable(v))):
                    continue  # the failing side of an assertion: it never returns, so nothing is skipped on it
                n_exit += 1
                why = "leaves the loop unconditionally"
                if t["k"] == "switch":
                    lab = next((l for l, tg in b.switch_edges(x) if tg == v), None)
                    d = strip_sym(sy.operand(t["discr"]))
                    neg = False
                    while d and d[0] == "un" and d[1] == "Not":
                        d, neg = strip_sym(d[2]), not neg
                    if d and d[0] == "discr":
                        d = strip_sym(d[1])
                    if sym_is_call(d, "is_null") and t.get("dty") == "bool":
                        vals = [a["v"] for a in t["arms"]]
                        truth = (not bool(vals[0]) if len(vals) == 1 else None) if lab == "otherwise" else bool(lab)
                        if truth is not None and (truth != neg):
                            continue
                        why = "leaves the loop while the block pointer is not null"
                    elif sym_is_call(d, "as_ref") and (lab == "None" or (lab == "otherwise" and {a.get("variant") for a in t["arms"]} == {"Some"})):
                        continue
                    else:
                        why = f"leaves the loop on a condition other than the end of the chain ({sym_str(d)[:60]})"
                bad.append((x, why))
        ok = n_exit > 0 and not bad
        chk.ob("C05.f", f"{f.path} [walk to the end of the chain]", ok, f"{n_exit} way(s) out of the traversal loop, each on `block pointer is null`" if ok else f"the traversal {bad[0][1] if bad else 'has no exit'}: older blocks of the chain are skipped — a snapshot misses completed pushes, a clear drops the detached values for good", f"{f.file}:{b.blocks[bad[0][0]].get('ln', f.line) if bad else f.line}")
    rec = [f for f in u.fns if f.name == "record" and "AtomicBucket<f64>" in f.j.get("impl_self", "") and (f.j.get("impl_trait") or "").endswith("HistogramFn")]
    if len(rec) == 1:
        cs = [c for c in nonforeign_calls(rec[0]) if c.is_("AtomicBucket<T>::push")]
        ok = len(cs) == 1 and is_param(arg_syms(cs[0])[0], 0) and is_param(arg_syms(cs[0])[1], 1) and not in_cycle(rec[0].body, cs[0].bb)
        chk.ob("C05.f", rec[0].path, ok, "record(value) = push(value)" if ok else "HistogramFn::record for the bucket is not push(value) exactly once", rec[0].loc())
    else:
        chk.unrecognised("C05.f", "<anchor> HistogramFn for AtomicBucket<f64>", f"found {len(rec)}")


def run_config(ctx):
    run(ctx)
