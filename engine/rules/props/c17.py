"""C17 — span fields become labels with metric > inner span > outer span precedence."""
from facts import Sym, path_is, strip_generics, strip_sym, sym_arg, sym_calls, sym_is_call, sym_str, sym_through, sym_walk
from props.common import RECORDER_METHODS, arg_syms, callee_method_name, crate_stats, gates, in_cycle, kind_consistent, need, nonforeign_calls, one_method, recorder_forward, recorder_impls, siblings_isomorphic

# helper functions named by the rules; Labels::{extend, extend_from_labels, extend_from_labels_overwrite}, the Visit
# helpers and the parts enhance_key may be split into are spliced into their callers
KEEP = ["from_record", "enhance_key", "with_labels", "get_pool"]
TITLE = "C17 span fields become labels with metric > inner span > outer span precedence."
CONFIGS = ["test-profile"]
TC = "metrics_tracing_context"
LB = f"{TC}::tracing_integration::Labels"
ML = f"{TC}::tracing_integration::MetricsLayer"


def is_param(s, i):
    a = sym_arg(s)
    return a is not None and a[0] == i


def region_callnames(f):
    return [callee_method_name(c) for c in nonforeign_calls(f)]


def run(ctx):
    chk = ctx.check
    t = ctx.crate("metrics_tracing_context")
    crate_stats(chk, t)
    chk.rule("C17.a", "TBL span bookkeeping: on_new_span reads the span's own fields, then merges its REGISTERED parent's labels through the non-overwriting extension; on_record merges through the overwriting one; extend visits every entry of the other map; every Visit::record_* inserts under field.name() the value formatted at its own type", floor=9)
    chk.rule("C17.b", "ORD enhance_key: the filter sees each span label with its real name and value and is applied to span labels only, before the metric's own labels are inserted (overwriting); the key is rebuilt from the map (unique names); None when there is no current span, no layer or no labels", floor=5)
    chk.rule("C17.c", "FWD recorder plumbing: register_* use the enhanced key else the original; describe_* forward unchanged; Allowlist decides on label.key()", floor=11)
    chk.trust("tracing_subscriber span registry (parent links, extensions)", "IndexMap::{insert,entry,retain,extend}", "itoa::Buffer::format")
    chk.residue.append("tracing's own span bookkeeping (which span is current on which thread) is not decided")

    # ---------------- C17.a
    def _narrowed(src):
        """name of an adapter on the iteration source that selects or truncates (take, skip, filter, ...), or None"""
        for x in sym_walk(src):
            if isinstance(x, tuple) and x and x[0] == "call" and isinstance(x[1], str) and "iter" in x[1] and strip_generics(x[1]).split("::")[-1] in ("take", "skip", "step_by", "filter", "take_while", "skip_while", "filter_map", "nth"):
                return strip_generics(x[1]).split("::")[-1]
        return None

    def _own(txt):
        """the freshly built Labels of this callback: Labels::from_record(..), or Labels::default() filled by
        attrs/values.record(&mut labels)"""
        return "from_record" in txt or "default()" in txt

    def _recorded_from(f, param):
        """call sites that fill a fresh Labels from the callback's `param`-th argument (Labels::from_record(..) or
        <param>.record(&mut Labels::default()))"""
        out = []
        for c in nonforeign_calls(f):
            if c.fn is not f:
                continue
            if c.is_("Labels::from_record"):
                a0 = arg_syms(c)[0]
                if f"param#{param}" in sym_str(a0) or is_param(_root_arg(a0), param):
                    out.append(c)
            elif callee_method_name(c) == "record" and "tracing_core::span::" in (c.resolved or ""):
                a = arg_syms(c)
                if (is_param(_root_arg(a[0]), param) or f"param#{param}" in sym_str(a[0])) and "default()" in sym_str(a[1]):
                    out.append(c)
        return out

    ons = [f for f in t.fns if f.name == "on_new_span" and f.j.get("impl_self", "").endswith("MetricsLayer")]
    if len(ons) != 1:
        chk.unrecognised("C17.a", "<anchor> MetricsLayer::on_new_span", f"found {len(ons)}")
    else:
        f = ons[0]
        b = f.body
        from props.common import iteration_context

        MUT = ("entry", "or_insert_with", "or_insert", "insert", "or_default", "extend", "insert_full", "or_insert_with_key")
        muts = [c for c in nonforeign_calls(f) if "indexmap" in (c.resolved or "") and callee_method_name(c) in MUT]
        par = [c for c in nonforeign_calls(f) if c.is_("SpanRef<'a, R>::parent", "parent")]
        spn = [c for c in nonforeign_calls(f) if c.is_("Context<'a, S>::span", "span") and "Context" in (c.resolved or "")]
        # `if !map.contains_key(k) { map.insert(k, v) }` is entry(k).or_insert(v): an insert reached only where the same map
        # was found not to contain the same key
        def _guarded(c):
            if callee_method_name(c) != "insert":
                return False
            a_ = [strip_sym(x) for x in arg_syms(c)]
            for dd, lab in gates(c.fn.body, c.bb):
                d_, neg = strip_sym(dd), False
                while isinstance(d_, tuple) and d_ and d_[0] == "un" and d_[1] == "Not":
                    d_, neg = strip_sym(d_[2]), not neg
                if sym_is_call(d_, "contains_key") and isinstance(lab, bool) and (lab != neg) is False:
                    k_ = [strip_sym(x) for x in d_[2]]
                    if repr(k_[0]) == repr(a_[0]) and repr(sym_through(k_[1], "Clone::clone", "Deref::deref", "AsRef::as_ref")) == repr(sym_through(a_[1], "Clone::clone", "Deref::deref", "AsRef::as_ref")):
                        return True
            return False

        guarded = [c for c in muts if _guarded(c)]
        names = {callee_method_name(c) for c in muts if c not in guarded}
        ok = (bool(names) or bool(guarded)) and names <= {"entry", "or_insert_with", "or_insert"} and ("entry" in names or bool(guarded))
        chk.ob("C17.a", f"{f.path} [parent merge is non-overwriting]", ok, "child fields win over inherited ones (inherited labels only through entry(k).or_insert..)" if ok else f"on_new_span merges the parent's labels with an overwriting operation ({sorted(names)}): an outer span's field would beat the inner span's", f.loc())
        okp = bool(muts) and len(par) == 1 and len(spn) >= 1
        detail = ""
        merges = ([c for c in muts if callee_method_name(c) == "entry"] + guarded) if okp else []
        for m0 in merges:
            # (decided for EVERY merging site: a second merge in the other direction — the parent's map copied and the
            # span's own fields offered to it — lets the outer value survive)
            if not okp:
                break
            # every inherited entry is visited: the merging operation runs once per element of the parent's label map,
            # and that map is found in the extensions of cx.span(id).parent()
            m_it = m0
            if m0 in guarded:
                # the per-element step of a guarded insert is its (unconditional) membership test
                tests = [c for c in nonforeign_calls(f) if c.fn is m0.fn and callee_method_name(c) == "contains_key" and m0.fn.body.dominates(c.bb, m0.bb)]
                if tests:
                    m_it = tests[-1]
            src, why = iteration_context(m_it)
            if src is not None and _narrowed(src):
                src, why = None, f"only part of the other map is visited ({_narrowed(src)}(..) on the iteration): labels beyond it are not inherited"
            okp = src is not None and any(isinstance(x, tuple) and x and x[0] == "call" and sym_is_call(x, "parent") and "SpanRef" in str(x[1]) for x in sym_walk(src))
            detail = why or "the merged map is not the parent's"
            # ... of the direct parent itself: its labels are already the merged view of the whole ancestry (nearest wins);
            # walking further (scope(), from_root(), parent().parent()) re-merges in another order
            def _payload(x):
                x = strip_sym(x)
                for _ in range(6):
                    if x[0] == "field" and strip_sym(x[1])[0] == "downcast" and strip_sym(x[1])[2] == "Some":
                        x = strip_sym(strip_sym(x[1])[1])
                    elif sym_is_call(x, "Option<T>::expect", "Option<T>::unwrap"):
                        x = strip_sym(x[2][0])
                    else:
                        break
                return x

            if okp:
                exts = [x for x in sym_walk(src) if isinstance(x, tuple) and x and x[0] == "call" and sym_is_call(x, "extensions") and "SpanRef" in str(x[1])]
                direct = len(exts) == 1 and sym_is_call(_payload(exts[0][2][0]), "parent") and "SpanRef" in str(_payload(exts[0][2][0])[1])
                if not direct:
                    okp = False
                    detail = "the inherited labels are collected from spans other than the direct parent (a walk over the ancestry): with the same field on two ancestors the farther one can win"
            pr = strip_sym(arg_syms(par[0])[0])
            okp = okp and sym_is_call(sym_through(pr, "Option<T>::expect", "Option<T>::unwrap"), "span") and is_param(strip_sym(sym_through(pr, "Option<T>::expect", "Option<T>::unwrap"))[2][1], 2)
            from props.common import actual_of

            dst = actual_of(m0.fn, Sym(m0.fn).operand(m0.args[0]))
            if okp and not _own(sym_str(dst)):
                okp = False
                detail = "a merge whose destination is not the new span's own freshly recorded labels"
        if not merges:
            detail = f"parent lookups: {[callee_method_name(c) for c in nonforeign_calls(f) if 'parent' in callee_method_name(c) or 'lookup' in callee_method_name(c) or 'current' in callee_method_name(c)]}"
        chk.ob("C17.a", f"{f.path} [inherits from the registered parent]", okp, "every label of cx.span(id).parent()'s extensions is offered to the new span's own labels" if okp else f"inherited labels do not come (all) from the new span's registered parent ({detail}): with explicit parents (span!(parent: ..)) the thread's current span is a different span", f.loc())
        ins = [c for c in nonforeign_calls(f) if c.is_("ExtensionsMut<'a>::insert", "insert") and "Extensions" in (c.resolved or "")]
        fr = _recorded_from(f, 1)
        oki = len(ins) == 1 and len(fr) == 1 and _own(sym_str(arg_syms(ins[0])[1]))
        chk.ob("C17.a", f"{f.path} [own fields stored]", oki, "labels = from_record(attrs.values()) stored in the span's extensions" if oki else "the span's own fields are not recorded into its extensions", f.loc(), nontrivial=False)
    # the layer observes every span: it does not take part in callsite / span filtering (a `never` interest from one layer
    # disables the callsite for the whole stack — such spans are not created at all and their ancestry is lost)
    hooks = sorted({f.name for f in t.fns if f.j.get("impl_self", "").endswith("MetricsLayer") and (f.j.get("impl_trait") or "").split("<")[0].endswith("Layer") and f.name in ("register_callsite", "enabled", "event_enabled", "max_level_hint")})
    chk.ob("C17.a", "MetricsLayer [no filtering hooks]", not hooks, "the Layer impl defines none of register_callsite / enabled / event_enabled / max_level_hint" if not hooks else f"MetricsLayer overrides {hooks}: the layer can switch spans off for every layer of the subscriber, so fields of (and inherited through) those spans never reach the metrics", "metrics-tracing-context/src/tracing_integration.rs", nontrivial=False)
    onr = [f for f in t.fns if f.name == "on_record" and f.j.get("impl_self", "").endswith("MetricsLayer")]
    if len(onr) == 1:
        f = onr[0]
        from props.common import iteration_context

        MUT = ("entry", "or_insert_with", "or_insert", "insert", "or_default", "extend", "insert_full", "or_insert_with_key")
        muts = [c for c in nonforeign_calls(f) if "indexmap" in (c.resolved or "") and callee_method_name(c) in MUT]
        names = {callee_method_name(c) for c in muts}
        ok = names == {"insert"} and len(muts) == 1
        if ok:
            src, why = iteration_context(muts[0])
            if src is not None and _narrowed(src):
                src = None
            from props.common import actual_of

            dst = actual_of(muts[0].fn, Sym(muts[0].fn).operand(muts[0].args[0]))
            ok = src is not None and _own(sym_str(src)) and "get_mut" in repr(dst) and len(_recorded_from(f, 2)) == 1
        if ok:
            # ... for every span the values are recorded on: no way through on_record returns before the span's stored
            # labels are fetched (a record() on a span that is not the current one — before enter(), on an outer span,
            # from another thread — counts like any other)
            gm = [c for c in nonforeign_calls(f) if c.fn is f and callee_method_name(c) == "get_mut"]
            if len(gm) == 1 and [r for r in f.body.return_blocks() if r in f.body.reachable(0, cut={gm[0].bb})]:
                ok = False
                names = {"early return before the span's labels are looked up"}
        chk.ob("C17.a", f"{f.path} [later record overwrites]", ok, "every newly recorded value is insert()ed over the span's existing labels" if ok else f"a later record() does not replace the span's earlier value (map operations {sorted(names)})", f.loc())
    else:
        chk.unrecognised("C17.a", "<anchor> MetricsLayer::on_record", f"found {len(onr)}")
    for mn, ty in (("record_str", None), ("record_bool", None), ("record_i64", "i64"), ("record_u64", "u64"), ("record_debug", None)):
        fs = [f for f in t.fns if f.name == mn and f.j.get("impl_self", "").endswith("Labels") and (f.j.get("impl_trait") or "").endswith("Visit")]
        if len(fs) != 1:
            chk.unrecognised("C17.a", f"<anchor> <Labels as Visit>::{mn}", f"found {len(fs)}")
            continue
        f = fs[0]
        ins = [c for c in nonforeign_calls(f) if c.is_("IndexMap<K, V, S>::insert", "insert") and "indexmap" in (c.resolved or "")]
        sib = [c for c in nonforeign_calls(f) if callee_method_name(c).startswith("record_")]
        ok = len(ins) == 1 and not sib
        detail = f"calls sibling {[callee_method_name(c) for c in sib]}" if sib else ""
        if ok:
            a = arg_syms(ins[0])
            ok = any(isinstance(x, tuple) and x and x[0] == "call" and sym_is_call(x, "Field::name") and is_param(strip_sym(x[2][0]), 1) for x in sym_walk(a[1]))
            if ty:
                fm = [c for c in nonforeign_calls(f) if "Buffer::format" in (c.resolved or "")]
                ga = [g for g in (fm[0].t.get("gargs") or []) if isinstance(g, str)] if fm else []
                concrete = [g for g in ga if g in ("i8", "i16", "i32", "i64", "i128", "isize", "u8", "u16", "u32", "u64", "u128", "usize")]
                # the value reaches the formatter unchanged (no cast), at its own type or through a generic helper
                ok = ok and len(fm) == 1 and (ty in ga or not concrete) and is_param(arg_syms(fm[0])[1], 2)
                detail = f"formatted as {fm[0].t.get('gargs') if fm else None}"
        if ok and ins[0].fn is f:
            # ... for every value: no path through the visitor returns without the insert (an empty string is a value too —
            # skipping it lets an outer span's or an earlier value show through)
            skip_ = [r for r in f.body.return_blocks() if r in f.body.reachable(0, cut={ins[0].bb})]
            if skip_:
                ok, detail = False, "a path returns without inserting (some values are dropped, e.g. an empty string)"
        chk.ob("C17.a", f.path, ok, f"{mn}: insert(field.name(), value{' formatted as ' + ty if ty else ''})" if ok else f"{mn} does not insert the value under field.name() formatted at its own type ({detail}): e.g. a u64 above i64::MAX would be rendered negative", f.loc())

    # ---------------- C17.b
    ek = one_method(chk, "C17.b", t, f"{TC}::TracingContext", "enhance_key")
    if ek:
        region = ek.region()
        calls = nonforeign_calls(ek)
        ret = [c for c in calls if c.is_("IndexMap<K, V, S>::retain", "retain")]
        ext = [c for c in calls if c.is_("Extend::extend", "IndexMap<K, V, S>::extend", "extend") and c.fn is (ret[0].fn if ret else None)]
        flt = [c for c in calls if c.is_("LabelFilter::should_include_label")]
        ok = len(ret) == 1 and len(flt) == 1 and flt[0].fn.parent is ret[0].fn
        detail = ""
        if ok:
            a = [Sym(flt[0].fn).operand(x) for x in flt[0].args]
            lab = strip_sym(a[2])
            # label = Label::new(key.clone(), value.clone()) with key/value the retain closure's parameters
            okl = sym_is_call(lab, "Label::new") and sym_is_call(strip_sym(lab[2][0]), "Clone::clone") and sym_is_call(strip_sym(lab[2][1]), "Clone::clone") and is_param(strip_sym(strip_sym(lab[2][0])[2][0]), 1) and is_param(strip_sym(strip_sym(lab[2][1])[2][0]), 2)
            okf = "'label_filter'" in repr(a[0])
            okn = "into_parts" in sym_str(a[1])
            ok = okl and okf and okn
            detail = f"filter is given {sym_str(lab)[:100]}"
        chk.ob("C17.b", f"{ek.path} [filter sees the real label]", ok, "should_include_label(name, Label::new(span key, span value)) for every span label" if ok else f"the label filter is not shown the span label's real name and value ({detail}): filters that decide on the value admit/reject the wrong fields", ek.loc())
        own = []
        if len(ret) == 1:
            rf = ret[0].fn
            for c in nonforeign_calls(rf):
                if c.fn is rf and "indexmap" in (c.resolved or "") and callee_method_name(c) in ("extend", "insert"):
                    if any("into_parts" in sym_str(Sym(rf).operand(x)) for x in c.args[1:]):
                        own.append(c)
        ok2 = len(ret) == 1 and len(own) == 1 and ret[0].body.dominates(ret[0].bb, own[0].bb) and ret[0].bb != own[0].bb
        if ok2:
            # ... and that is the only merge: no second map is filled from either side (span labels extended INTO a map
            # built from the metric's labels make the span's value win)
            other = [c for c in nonforeign_calls(ret[0].fn) if c.fn is ret[0].fn and c.bb != own[0].bb and "indexmap" in (c.resolved or "") and callee_method_name(c) in ("extend", "insert", "insert_full", "from_iter", "entry", "append")]
            ok2 = not other
        if ok2:
            same_map = repr(_root_arg(Sym(own[0].fn).operand(own[0].args[0]))) == repr(_root_arg(Sym(ret[0].fn).operand(ret[0].args[0])))
            ok2 = same_map
        chk.ob("C17.b", f"{ek.path} [metric labels after the filter]", ok2, "span labels are filtered first; the metric's own labels are inserted afterwards and overwrite" if ok2 else "the metric's own labels are inserted before filtering (they would be filtered / overwritten by span fields)", ek.loc())
        kp = [c for c in calls if c.is_("Key::from_parts")]
        ok3 = len(kp) == 1 and "collect" in sym_str(Sym(kp[0].fn).operand(kp[0].args[1])) and "into_iter" in sym_str(Sym(kp[0].fn).operand(kp[0].args[1]))
        if not ok3 and len(kp) == 1:
            # spelled as a loop: for (k, v) in map { vec.push(Label::new(k, v)) }
            from props.common import iteration_context

            for c in nonforeign_calls(kp[0].fn):
                if c.fn is kp[0].fn and c.is_("Vec<T, A>::push") and sym_is_call(Sym(c.fn).operand(c.args[1]), "Label::new"):
                    src, _w = iteration_context(c)
                    if src is not None and len(ret) == 1 and repr(_root_arg(src)) == repr(_root_arg(Sym(ret[0].fn).operand(ret[0].args[0]))):
                        ok3 = True
        if not ok3 and len(kp) == 1 and len(ret) == 1:
            # spelled as a pre-sized vector: v = Vec::with_capacity(n); v.extend(map.into_iter().map(Label::new))
            for c in nonforeign_calls(kp[0].fn):
                if c.fn is kp[0].fn and callee_method_name(c) == "extend" and "Vec<" in (c.resolved or ""):
                    a1 = Sym(c.fn).operand(c.args[1])
                    if "into_iter" in sym_str(a1) and repr(_root_arg(Sym(c.fn).operand(c.args[0]))) == repr(_root_arg(Sym(kp[0].fn).operand(kp[0].args[1]))):
                        ok3 = True
        chk.ob("C17.b", f"{ek.path} [key rebuilt from the map]", ok3, "Key::from_parts(name, labels collected from the map) — names are unique by construction" if ok3 else "the enhanced key is not rebuilt from the merged map", ek.loc())
        names = region_callnames(ek)
        ok4 = "current_span" in names and "downcast_ref" in names and "is_empty" in names and names.count("id") >= 1
        chk.ob("C17.b", f"{ek.path} [None cases]", ok4, "None without a current span id, without the MetricsLayer, or with no span labels" if ok4 else "enhance_key lost one of its None cases (no span / no layer / no labels)", ek.loc(), nontrivial=False)
        wl = [c for c in calls if c.is_("MetricsLayer::with_labels")]
        ok5 = len(wl) == 1 and "id" in sym_str(Sym(wl[0].fn).operand(wl[0].args[2]))
        chk.ob("C17.b", f"{ek.path} [labels of the current span]", ok5, "labels are read from the dispatcher's current span id" if ok5 else "labels are not read for the current span id", ek.loc(), nontrivial=False)

    # the labels handed to the key builder are read from the span's extensions in this very call: inside with_labels the callback
    # is invoked only from the closure given to the registry lookup, never directly with a map kept from an earlier call
    wlf = (t.method("MetricsLayer", "with_labels") or [None])[0]
    if wlf is not None:
        direct = []
        for g_ in wlf.region():
            gs = Sym(g_)
            for c in g_.body.calls():
                if c.is_("FnMut::call_mut", "Fn::call", "FnOnce::call_once") and c.args:
                    tgt = strip_sym(gs.operand(c.args[0]))
                    if g_ is wlf and sym_arg(tgt) is not None and sym_arg(tgt)[0] == 3:
                        direct.append(c)
        chk.ob("C17.b", f"{wlf.path} [labels read per call]", not direct, "the key-building callback is reached only through the span lookup" if not direct else "with_labels can invoke the callback directly, with labels that were not read from the span's extensions in this call (a cache): a record() made on another thread in between is not seen", direct[0].loc() if direct else wlf.loc(), nontrivial=False)

    # ---------------- C17.c
    impls = recorder_impls(t)
    for (self_ty, ip), ms in impls.items():
        if not strip_generics(self_ty).endswith("TracingContext"):
            continue
        for name in RECORDER_METHODS:
            f = ms.get(name)
            if not f:
                chk.unrecognised("C17.c", f"<anchor> <TracingContext as Recorder>::{name}", "missing")
                continue
            kind_consistent(chk, "C17.c", f, name.split("_")[1])
            if name.startswith("describe"):
                recorder_forward(chk, "C17.c", f, expect_sites=1)
            else:
                from facts import PredFlow
                from props.common import opt_alts

                inner = [c for c in nonforeign_calls(f) if (c.t.get("trait") or "").endswith("recorder::Recorder")]
                eks = [c for c in nonforeign_calls(f) if c.is_("TracingContext<R, F>::enhance_key")]
                ok = len(inner) in (1, 2) and all(callee_method_name(c) == name for c in inner) and len(eks) == 1 and is_param(arg_syms(eks[0])[1], 1)
                if ok:
                    # the key handed to the inner recorder is the enhanced key when there is one, else the original
                    pf = PredFlow(f, lambda subj, v: {"Some": "P", "None": "N"}.get(v) if sym_is_call(subj, "enhance_key") else None)
                    seen_kinds = set()
                    for c in inner:
                        a = arg_syms(c)
                        ok = ok and is_param(a[2], 2)
                        for alt, note in opt_alts(t, a[1]):
                            alt = strip_sym(alt)
                            if "enhance_key" in sym_str(alt) and "Some" in repr(alt):
                                seen_kinds.add("enhanced")
                                if len(inner) == 2 and pf.at(c.bb) != "P":
                                    ok = False
                            elif is_param(sym_through(alt), 1):
                                seen_kinds.add("original")
                                if len(inner) == 2 and pf.at(c.bb) != "N":
                                    ok = False
                                if len(inner) == 1 and note != "if-none":
                                    ok = False
                            else:
                                ok = False
                    ok = ok and seen_kinds == {"enhanced", "original"}
                chk.ob("C17.c", f.path, ok, f"{name}(enhance_key(key).unwrap_or(key), metadata)" if ok else f"{name} does not register under the enhanced key (else the original) with the metadata unchanged", f.loc())
        for grp in ("describe", "register"):
            fk = {k: ms.get(f"{grp}_{k}") for k in ("counter", "gauge", "histogram")}
            if all(fk.values()):
                siblings_isomorphic(chk, "C17.c", fk, f"<TracingContext as Recorder>::{grp}_*")
    al = [f for f in t.fns if f.name == "should_include_label" and f.j.get("impl_self", "").endswith("Allowlist")]
    if len(al) == 1:
        r = strip_sym(Sym(al[0]).local(0))
        ok = sym_is_call(r, "HashSet<T, S>::contains", "contains") and "'label_names'" in repr(r[2][0]) and sym_is_call(sym_through(r[2][1]), "Label::key") and is_param(strip_sym(sym_through(r[2][1]))[2][0], 2)
        chk.ob("C17.c", al[0].path, ok, "Allowlist admits a label iff its name is listed" if ok else "Allowlist does not test label.key() against its list", al[0].loc())
    else:
        chk.unrecognised("C17.c", "<anchor> Allowlist::should_include_label", f"found {len(al)}")
    from props.common import collected_unchanged

    an = [f for f in t.fns if f.name == "new" and f.j.get("impl_self", "").endswith("label_filter::Allowlist")]
    if len(an) == 1:
        r = strip_sym(Sym(an[0]).local(0))
        ok, why = (False, "does not build the list from its parameter")
        if r[0] == "agg" and len(r[3]) == 1:
            ok, why = collected_unchanged(t, r[3][0], 0, fn=an[0])
        chk.ob("C17.c", an[0].path, ok, "the allow-list holds the configured names as given" if ok else f"Allowlist::new does not keep the configured names as given ({why}): a listed field is not admitted under its own name", an[0].loc())
    else:
        chk.unrecognised("C17.c", "<anchor> Allowlist::new", f"found {len(an)}")
    # the pooled label maps come back empty: whatever resets a map before it is handed out again clears it on every path
    pools = [(f, c) for f in t.fns if "::tests::" not in f.path for c in f.body.calls() if "LinearObjectPool" in (c.resolved or "") and (c.resolved or "").endswith("::new") and len(c.args) == 2]
    if len(pools) == 1:
        f, c = pools[0]
        rs = strip_sym(arg_syms(c)[1])
        okr, whyr = False, f"reset is {sym_str(rs)[:60]}"
        if rs[:2] == ("const", "fn"):
            body = next((g for g in (getattr(t, "raw_fns", None) or t.fns) if g.path == rs[2] or g.path == strip_generics(rs[2])), None)
            if body is None:
                okr = strip_generics(rs[2]).split("::")[-1] == "clear" and "indexmap" in rs[2]
            else:
                rs = ("agg", "closure", None, (), (), body.path)
        if rs[0] == "agg" and rs[1] == "closure":
            cf = next((g for g in (list(getattr(t, "raw_fns", None) or []) + list(t.fns)) if g.path == rs[5]), None)
            if cf is not None:
                cl = [x for x in cf.body.calls() if callee_method_name(x) == "clear" and "indexmap" in (x.resolved or "") and is_param(_root_arg(Sym(cf).operand(x.args[0])), cf.body.argc - 1)]
                skip = [r_ for r_ in cf.body.return_blocks() if not cf.body.blocks[r_].get("cleanup") and r_ in cf.body.reachable(0, cut={x.bb for x in cl})]
                okr = bool(cl) and not skip
                whyr = "some path hands the map back without clearing it" if cl else "the reset function never clears the map"
        chk.ob("C17.a", f"{f.path} [pooled maps are reset]", okr, "a map returned to the pool is cleared before it is handed out again" if okr else f"a pooled label map can be handed out again with a dead span's labels still in it ({whyr}): an unrelated span on any thread starts with them", c.loc(), nontrivial=False)
    else:
        chk.unrecognised("C17.a", "<anchor> LinearObjectPool::new", f"found {len(pools)} pool constructions")


def _root_arg(s):
    s = strip_sym(s)
    while isinstance(s, tuple) and s:
        if s[0] in ("field", "downcast"):
            s = strip_sym(s[1])
        elif s[0] == "call" and s[2]:
            s = strip_sym(s[2][0])
        else:
            break
    return s


def run_config(ctx):
    run(ctx)
