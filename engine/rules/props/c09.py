"""C09 — DogStatsD payloads are valid, within the size limit, and account for every point."""
from facts import Sym, path_is, strip_generics, strip_sym, sym_arg, sym_calls, sym_is_call, sym_str, sym_through, sym_walk
from props.common import arg_syms, bool_switches, callee_method_name, calls_to, crate_stats, enum_arms, gates, in_cycle, need, nonforeign_calls, one_method

KEEP = [  # private helpers the rules name (kept as functions); every other non-exported, non-trait function is spliced into its callers
    "AtomicCounter::flush", "AtomicCounter::new", "AtomicGauge::flush", "AtomicGauge::new",
    "AtomicHistogram::flush", "AtomicHistogram::new", "AtomicHistogram::record", "ClientSideAggregatedStorage::new",
    "DogStatsDRecorder::new", "Forwarder::new", "PayloadWriter::commit", "PayloadWriter::current_len",
    "PayloadWriter::last_offset", "PayloadWriter::new", "PayloadWriter::payloads", "PayloadWriter::prepare_for_write",
    "PayloadWriter::write_counter", "PayloadWriter::write_distribution", "PayloadWriter::write_gauge", "PayloadWriter::write_hist_dist_inner",
    "PayloadWriter::write_histogram", "PayloadWriter::write_trailing", "Payloads::len", "State::flush",
    "State::new", "Telemetry::new", "TelemetryUpdate::clear", "WriteResult::failure",
    "WriteResult::new", "WriteResult::payloads_written",
    "WriteResult::points_dropped", "WriteResult::success", "writer::write_metric_trailer",
]
TITLE = "C09 DogStatsD payloads are valid, bounded, and account for every point."
CONFIGS = ["test-profile"]
D = "metrics_exporter_dogstatsd"
PW = f"{D}::writer::PayloadWriter"


def is_param(s, i):
    a = sym_arg(s)
    return a is not None and a[0] == i


def self_field(s, field):
    s = strip_sym(s)
    return isinstance(s, tuple) and s and s[0] == "field" and s[2] == field and is_param(s[1], 0)


def const_int(s):
    s = strip_sym(s)
    return s[2] if s[:2] == ("const", "int") else None


def add_terms(s):
    """Flatten a chain of (overflow-checked) additions into its terms."""
    s = strip_sym(s)
    if s[0] == "field" and s[2] == "0":
        inner = strip_sym(s[1])
        if inner[0] == "bin" and inner[1].startswith("Add"):
            return add_terms(inner[2]) + add_terms(inner[3])
    if s[0] == "bin" and s[1].startswith("Add"):
        return add_terms(s[2]) + add_terms(s[3])
    return [s]


def buf_ops(fn, field="buf"):
    """calls whose receiver is self.<field> (the Vec<u8>)"""
    out = []
    for c in nonforeign_calls(fn):
        if c.fn is not fn or not c.args:
            continue
        a = strip_sym(arg_syms(c)[0])
        if a[0] == "field" and a[2] == field:
            out.append(c)
    return out


def byte(c):
    v = const_int(arg_syms(c)[1])
    return chr(v) if v is not None and 0 <= v < 256 else None


def _root_local(b, op):
    """The local a bare copy/move operand ultimately copies (through single-definition temporaries)."""
    p_ = op.get("copy") or op.get("move")
    if p_ is None or [e for e in (p_.get("pr") or []) if e != "*"]:
        return None
    l = p_["l"]
    for _ in range(6):
        ds = b.defs().get(l, [])
        if len(ds) == 1 and ds[0][0] == "assign" and ds[0][3]["rv"]["k"] == "use":
            q = ds[0][3]["rv"]["a"].get("copy") or ds[0][3]["rv"]["a"].get("move")
            if q is not None and not q.get("pr"):
                l = q["l"]
                continue
        break
    return l


def run(ctx):
    chk = ctx.check
    d = ctx.crate("metrics_exporter_dogstatsd")
    crate_stats(chk, d)
    chk.rule("C09.a", "MPT placeholder invariant (length-prefixed mode): every operation that shrinks the writer's buffer (truncate / clear) is followed on all paths to return by re-adding the 4-byte placeholder; new() and a successful commit() prepare the next payload", floor=4)
    chk.rule("C09.b", "SHAPE shadow-length coverage in write_hist_dist_inner: every segment written per payload (prefix, '.', name, ':value'..., '|', type, trailer) has a term in the length the splitter reasons with", floor=3)
    chk.rule("C09.c", "provenance limit and header: commit compares the measured length with max_payload_len (> -> truncate, false); the header is u32::to_le_bytes of that same length written at the payload's start offset; new asserts the limit fits u32", floor=3)
    chk.rule("C09.d", "pairing accounting: every successful commit in the histogram writer is followed by increment_payloads_written; every skipped value by increment_points_dropped; the early rejection returns failure(values.len()); counter/gauge return success(1)/failure(1) on the commit result; the final flush happens exactly when uncommitted message bytes exist", floor=6)
    chk.rule("C09.e", "SHAPE+TBL message grammar: name region = [prefix '.'] name; type tokens |c, |g, h, d per writer; trailer order sample rate, tags (global labels then the key's), timestamp, newline; values via ryu/itoa full-range formatters", floor=7)
    chk.trust("ryu::Buffer::format (round-trip, handles non-finite)", "itoa::Buffer::format", "Vec<u8>::{extend_from_slice,push,truncate,clear}")
    chk.residue.append("the arithmetic proof that with a complete shadow length the assert!(self.commit()) is unreachable is not carried out; spelling of non-finite values is ryu's")

    commit = one_method(chk, "C09.a", d, PW, "commit")
    pfw = one_method(chk, "C09.a", d, PW, "prepare_for_write")
    newf = one_method(chk, "C09.a", d, PW, "new")

    # ---------------- C09.a
    if pfw:
        ext = [c for c in buf_ops(pfw) if c.is_("extend_from_slice")]
        ok = len(ext) == 1 and any(lab is True and self_field(dd, "with_length_prefix") for dd, lab in gates(pfw.body, ext[0].bb))
        if ok:
            arr = strip_sym(arg_syms(ext[0])[1])
            ok = arr[0] == "agg" and len(arr[3]) == 4 and all(const_int(x) == 0 for x in arr[3]) or "[0, 0, 0, 0]" in sym_str(arr) or (arr[0] == "const") or (arr[0] == "repeat" and const_int(arr[1]) == 0 and str(arr[2]) in ("4", "4_usize"))
        chk.ob("C09.a", pfw.path, ok, "prepare_for_write appends the 4-byte placeholder exactly in length-prefixed mode" if ok else "prepare_for_write does not append a 4-byte placeholder under with_length_prefix", pfw.loc())
    if commit:
        b = commit.body
        shr = [c for c in buf_ops(commit) if c.is_("truncate", "clear")]
        prep = [c for c in nonforeign_calls(commit) if c.fn is commit and c.is_("PayloadWriter::prepare_for_write")]
        bad = []
        for t in shr:
            start = t.t.get("target")
            reach = b.reachable(start, cut={p_.bb for p_ in prep})
            if any(b.term(x)["k"] == "return" for x in reach):
                bad.append(t)
        ok = shr and not bad
        chk.ob("C09.a", f"{commit.path} [placeholder after truncate]", ok, f"{len(shr)} truncation site(s), each followed by prepare_for_write on every path to return" if ok else "commit() truncates the buffer (removing the placeholder of the abandoned payload) and can return without re-adding it: the next payload's first 4 bytes are overwritten by its length", commit.loc())
        # success path prepares the next payload: offsets.push dominates a prepare_for_write
        offp = [c for c in nonforeign_calls(commit) if c.fn is commit and c.is_("Vec<T, A>::push") and "'offsets'" in repr(arg_syms(c)[0])]
        ok = len(offp) == 1 and bool(prep) and not [r for r in b.return_blocks() if r in b.reachable(offp[0].bb, cut={p_.bb for p_ in prep})]
        chk.ob("C09.a", f"{commit.path} [placeholder after commit]", ok, "a successful commit prepares the next payload" if ok else "a successful commit does not prepare the placeholder of the next payload", commit.loc())
    if newf:
        prep = [c for c in nonforeign_calls(newf) if c.is_("PayloadWriter::prepare_for_write")]
        ok = len(prep) == 1 and not [r for r in newf.body.return_blocks() if r in newf.body.reachable(0, cut={prep[0].bb})]
        if not prep:
            # prepare_for_write() written out in the constructor: the four zero bytes are appended to the buffer that becomes
            # the writer's, exactly when length prefixes are on (parameter with_length_prefix), on every path
            nb = newf.body
            nsy = Sym(newf)
            ph = []
            for c in nonforeign_calls(newf):
                if c.fn is newf and c.is_("extend_from_slice"):
                    arr = strip_sym(arg_syms(c)[1])
                    zeros = (arr[0] == "agg" and len(arr[3]) == 4 and all(const_int(x) == 0 for x in arr[3])) or _bytes_consts(arr) == ["\x00\x00\x00\x00"] or (arr[0] == "repeat" and const_int(arr[1]) == 0 and str(arr[2]) in ("4", "4_usize"))
                    gated = any(lab is True and sym_arg(strip_sym(dd)) is not None and "prefix" in str(sym_arg(strip_sym(dd))[1]) for dd, lab in gates(nb, c.bb))
                    if zeros and gated:
                        ph.append(c)
            if len(ph) == 1:
                # no return on the prefixed edge without it
                ok = True
                for bb_, dd, t_t, f_t in bool_switches(nb):
                    if sym_arg(strip_sym(dd)) is not None and "prefix" in str(sym_arg(strip_sym(dd))[1]):
                        ok = ok and not any(nb.term(x)["k"] == "return" for x in nb.reachable(t_t, cut={ph[0].bb}))
        chk.ob("C09.a", f"{newf.path} [initial placeholder]", ok, "new() prepares the first payload" if ok else "new() does not prepare the first payload's placeholder", newf.loc())
    pdrop = [f for f in d.fns if f.name == "drop" and "writer::Payloads" in f.j.get("impl_self", "") and (f.j.get("impl_trait") or "").endswith("Drop")]
    if len(pdrop) != 1:
        chk.unrecognised("C09.a", "<anchor> Drop for Payloads", f"found {len(pdrop)}")
    else:
        f = pdrop[0]
        b = f.body
        shr = [c for c in buf_ops(f) if c.is_("truncate", "clear")]
        ext = [c for c in buf_ops(f) if c.is_("extend_from_slice")]
        # `buf.resize(4, 0)` on the just-cleared buffer is the same four zero bytes
        rsz = [c for c in buf_ops(f) if c.is_("Vec<T, A>::resize", "resize") and len(c.args) == 3 and const_int(arg_syms(c)[2]) == 0 and (const_int(arg_syms(c)[1]) == 4 or (sym_is_call(strip_sym(arg_syms(c)[1]), "size_of") and any(c2.t.get("gargs") in (["u32"], ["i32"], ["[u8; 4]"]) for c2 in c.fn.body.calls() if (c2.resolved or "").endswith("mem::size_of") and c.fn.body.dominates(c2.bb, c.bb))))]
        resized = False
        if len(shr) == 1 and not ext and len(rsz) == 1 and shr[0].bb != rsz[0].bb and rsz[0].bb in b.reachable_after(shr[0].bb) and not [c for c in buf_ops(f) if c not in shr and c not in rsz and c.bb in b.reachable_after(shr[0].bb) and rsz[0].bb in b.reachable_after(c.bb)]:
            ext, resized = rsz, True
        ok = len(shr) == 1 and len(ext) == 1 and b.dominates(shr[0].bb, ext[0].bb)
        if ok:
            g = gates(b, ext[0].bb)
            flag_edges = []
            for dd, lab in g:
                if "with_length_prefix" not in repr(dd) or not isinstance(lab, bool):
                    continue
                d_ = strip_sym(dd)
                while isinstance(d_, tuple) and d_ and d_[0] == "un" and d_[1] == "Not":
                    d_, lab = strip_sym(d_[2]), not lab  # `if !flag { return }`
                flag_edges.append((d_, lab))
            ok = any(lab is True for dd, lab in flag_edges)
            if not flag_edges:
                # the placeholder is chosen first and appended unconditionally:
                # `let ph: &[u8] = if self.with_length_prefix { &[0; 4] } else { &[] }; buf.clear(); buf.extend_from_slice(ph)`
                from facts import alternatives

                on_true, other_true = False, False
                for bb_a, alt, *_g in alternatives(f, ext[0].args[1], ext[0].bb, Sym(f)):
                    lab_ = next((lab for dd, lab in gates(b, bb_a) if "with_length_prefix" in repr(dd) and isinstance(lab, bool)), None)
                    if lab_ is True:
                        a_ = strip_sym(alt)
                        while isinstance(a_, tuple) and a_ and a_[0] in ("ref", "deref", "cast"):
                            a_ = strip_sym(a_[1])
                        four_zeros = isinstance(a_, tuple) and a_ and a_[0] == "agg" and a_[1] == "array" and len(a_[3]) == 4 and all(strip_sym(x)[:3] == ("const", "int", 0) for x in a_[3])
                        if _bytes_consts(alt) == ["\x00\x00\x00\x00"] or four_zeros or (isinstance(a_, tuple) and a_ and a_[0] == "repeat" and "4" in repr(a_) and "0" in repr(a_)):
                            on_true = True
                        else:
                            other_true = True
                ok = on_true and not other_true
            # no return on the prefixed edge without the extend
            for bb, dd, t_t, f_t in bool_switches(b):
                if "with_length_prefix" in repr(dd):
                    d_, neg_ = strip_sym(dd), False
                    while isinstance(d_, tuple) and d_ and d_[0] == "un" and d_[1] == "Not":
                        d_, neg_ = strip_sym(d_[2]), not neg_
                    ok = ok and not any(b.term(x)["k"] == "return" for x in b.reachable(f_t if neg_ else t_t, cut={ext[0].bb}))
        chk.ob("C09.a", f"{f.path} [placeholder after clear]", ok, "dropping the drained payloads clears the buffer and, in length-prefixed mode, re-adds the placeholder" if ok else "Drop for Payloads clears the writer's buffer without restoring the length-prefix placeholder: the first payload of the next flush cycle loses 4 bytes and its length", f.loc())

    # ---------------- C09.b / C09.d on the histogram writer
    hw = one_method(chk, "C09.b", d, PW, "write_hist_dist_inner")
    if hw:
        b = hw.body
        sy = Sym(hw)
        mins = [i for i, l in enumerate(b.locals) if l.get("name") == "minimum_payload_len"]
        # robust: the value compared against max_payload_len in the early rejection
        min_sym = None
        for bb, dd, t_t, f_t in bool_switches(b):
            dd = strip_sym(dd)
            if dd[0] == "bin" and dd[1] in ("Gt", "Ge", "Lt", "Le") and ("max_payload_len" in repr(dd[2]) or "max_payload_len" in repr(dd[3])):
                other = dd[2] if "max_payload_len" in repr(dd[3]) else dd[3]
                terms = add_terms(other)
                if not any("format" in sym_str(t) or "cycle" in repr(t) for t in terms) and min_sym is None:
                    min_sym = terms
        if min_sym is None:
            chk.unrecognised("C09.b", f"{hw.path} [minimum length]", "no comparison of a summed minimum length with max_payload_len found", hw.loc())
        else:
            def has(pred):
                return any(pred(strip_sym(t)) for t in min_sym)
            name_ok = has(lambda t: sym_is_call(t, "len") and "Key::name" in repr(t) or (sym_is_call(t, "len") and sym_is_call(strip_sym(t[2][0]), "Key::name")))
            trailer_ok = has(lambda t: sym_is_call(t, "len") and "trailer_buf" in repr(t))
            def _array_len(t):
                # `[b'|', metric_type].len()`: the length of a fixed array that is itself a written segment
                t = strip_sym(t)
                if sym_is_call(t, "len") and len(t[2]) == 1:
                    a_ = strip_sym(t[2][0])
                    if isinstance(a_, tuple) and a_ and a_[0] == "agg" and a_[1] == "array":
                        return len(a_[3])
                return None

            consts = sum(const_int(t) or 0 for t in min_sym if const_int(t) is not None) + sum(_array_len(t) or 0 for t in min_sym)
            # prefix term: map_or(prefix, 0, |p| p.len() + 1) or an if-let phi
            pre = [t for t in min_sym if is_param(_root(t), 5) or "('arg', 5" in repr(t)]
            pre_ok = False
            dot_ok = False
            for t in pre:
                t = strip_sym(t)
                if sym_is_call(t, "map_or", "map_or_else", "map"):
                    cl = [x for x in t[2] if strip_sym(x)[0] == "agg" and strip_sym(x)[1] == "closure"]
                    cf = d.fn(strip_sym(cl[0])[5]) if cl else None
                    if cf is not None:
                        rt = add_terms(Sym(cf).local(0))
                        pre_ok = any(sym_is_call(strip_sym(x), "len") for x in rt)
                        dot_ok = sum(const_int(x) or 0 for x in rt if const_int(x) is not None) == 1
                elif t[0] == "phi":
                    alts = [add_terms(x) for x in t[1]]
                    pre_ok = any(any(sym_is_call(strip_sym(x), "len") for x in a) for a in alts)
                    dot_ok = any(sum(const_int(x) or 0 for x in a if const_int(x) is not None) == 1 and any(sym_is_call(strip_sym(x), "len") for x in a) for a in alts)
            writes_prefix = any(c.is_("extend_from_slice") and is_param(_root(arg_syms(c)[1]), 5) for c in buf_ops(hw))
            writes_dot = any(c.is_("Vec<T, A>::push") and byte(c) == "." for c in buf_ops(hw))
            ok = name_ok and trailer_ok and consts == 4 and (not writes_prefix or pre_ok) and (not writes_dot or dot_ok)
            missing = [n for n, v in (("name", name_ok), ("trailer", trailer_ok), ("'|'+type and ':0' constants (2+2)", consts == 4), ("prefix", not writes_prefix or pre_ok), ("'.' after the prefix", not writes_dot or dot_ok)) if not v]
            chk.ob("C09.b", f"{hw.path} [minimum length terms]", ok, "minimum length = [prefix + 1] + name + trailer + 2 (+2 for the smallest value): every fixed segment written is counted" if ok else f"the length the splitter reasons with has no term for: {missing} — a payload can exceed the limit, commit() fails and assert!(self.commit()) panics", hw.loc())
        # per-value accounting
        cl_ = [i for i, l in enumerate(b.locals) if l.get("name") == "current_len"]
        okv = False
        if cl_:
            v = strip_sym(sy.local(cl_[0]))
            alts = v[1] if v[0] == "phi" else [v]
            for a in alts:
                ts = add_terms(a)
                if any("cycle" in repr(t) for t in ts):
                    rest = [t for t in ts if "cycle" not in repr(t)]
                    okv = any(sym_is_call(strip_sym(t), "len") and "format" in sym_str(t) for t in rest) and sum(const_int(t) or 0 for t in rest if const_int(t) is not None) == 1
        chk.ob("C09.b", f"{hw.path} [per-value term]", okv, "each value adds value_str.len() + 1 (the ':' separator) to the shadow length" if okv else "the shadow length does not grow by value_str.len() + 1 per written value", hw.loc())
        # splitting test uses the same quantities
        split = False
        for bb, dd, t_t, f_t in bool_switches(b):
            dd = strip_sym(dd)
            if dd[0] == "bin" and dd[1] == "Gt" and "max_payload_len" in repr(dd[3]):
                ts = add_terms(dd[2])
                if any("cycle" in repr(t) or "phi" in repr(t)[:8] for t in ts) and any("format" in sym_str(t) for t in ts):
                    split = sum(const_int(t) or 0 for t in ts if const_int(t) is not None) == 1
        chk.ob("C09.b", f"{hw.path} [split test]", split, "a payload is closed when current_len + value_str.len() + 1 > max_payload_len" if split else "the split test does not compare current_len + value_str.len() + 1 with the limit (strictly greater)", hw.loc())

        # ---------------- C09.d
        from props.common import field_increments

        commits = [c for c in nonforeign_calls(hw) if c.fn is hw and c.is_("PayloadWriter::commit")]
        incs = field_increments(hw, "payloads_written")
        if incs is None:
            chk.unrecognised("C09.d", f"{hw.path} [commit -> payloads_written]", "cannot trace the returned payloads_written to one counter", hw.loc())
        else:
            ok = len(commits) == 2 and len(incs) == len(commits) and all(ln > 0 for _bb, ln in incs)
            if ok:
                for cm in commits:
                    mine = [i_ for i_ in incs if b.dominates(cm.bb, i_[0])]
                    nearest = min(mine, key=lambda i_: len(b.dominators()[i_[0]])) if mine else None
                    if nearest is None or any(b.dominates(o.bb, nearest[0]) and b.dominates(cm.bb, o.bb) and o.bb != cm.bb for o in commits):
                        ok = False
            chk.ob("C09.d", f"{hw.path} [commit -> payloads_written]", ok, f"{len(commits)} commit sites, each followed by payloads_written + 1" if ok else "a committed payload is not counted (or counted without a commit): reported payloads_written differs from what was emitted", hw.loc())
        drops = field_increments(hw, "points_dropped")
        if drops is None:
            chk.unrecognised("C09.d", f"{hw.path} [skipped value -> points_dropped]", "cannot trace the returned points_dropped to one counter", hw.loc())
        else:
            ok = len(drops) == 1 and drops[0][1] > 0 and in_cycle(b, drops[0][0])
            if ok:
                dbb = drops[0][0]
                g = gates(b, dbb)
                ok = any(strip_sym(dd)[0] == "bin" and "max_payload_len" in repr(dd) and "format" in sym_str(dd) and ((strip_sym(dd)[1] == "Gt" and lab is True and "max_payload_len" in repr(strip_sym(dd)[3])) or (strip_sym(dd)[1] == "Le" and lab is False and "max_payload_len" in repr(strip_sym(dd)[3])) or (strip_sym(dd)[1] == "Lt" and lab is True and "max_payload_len" in repr(strip_sym(dd)[2])) or (strip_sym(dd)[1] == "Ge" and lab is False and "max_payload_len" in repr(strip_sym(dd)[2]))) for dd, lab in g)
                # the skipped value is not written: no ':' push reachable in the same iteration
                heads = [c.bb for c in nonforeign_calls(hw) if c.fn is hw and c.is_("Iterator::next")]
                colon = [c for c in buf_ops(hw) if c.is_("Vec<T, A>::push") and byte(c) == ":"]
                ok = ok and all(c.bb not in b.reachable_after(dbb, cut=set(heads)) and c.bb != dbb for c in colon)
            chk.ob("C09.d", f"{hw.path} [skipped value -> points_dropped]", ok, "a value that cannot fit even alone is counted as dropped and not written" if ok else "a skipped value is not reported as dropped (or is also written)", hw.loc())
        fails = [c for c in nonforeign_calls(hw) if c.fn is hw and c.is_("WriteResult::failure")]
        ok = len(fails) == 1 and sym_is_call(sym_through(arg_syms(fails[0])[0]), "len") or (len(fails) == 1 and "len(" in sym_str(arg_syms(fails[0])[0]))
        ok = ok and not in_cycle(b, fails[0].bb)
        chk.ob("C09.d", f"{hw.path} [early rejection]", ok, "a metric that can never fit returns failure(values.len())" if ok else "the early rejection does not report all of the metric's values as dropped", hw.loc())
        # final flush condition
        if len(commits) == 2:
            finals = [c for c in commits if not in_cycle(b, c.bb)]
            last = finals[0] if finals else commits[-1]
            g = gates(b, last.bb)
            okf = any(strip_sym(dd)[0] == "bin" and ((strip_sym(dd)[1] in ("Ne", "Gt") and lab is True) or (strip_sym(dd)[1] == "Eq" and lab is False)) and sym_is_call(strip_sym(strip_sym(dd)[2]), "PayloadWriter::current_len") and const_int(strip_sym(dd)[3]) == 0 for dd, lab in g)
            chk.ob("C09.d", f"{hw.path} [final flush condition]", okf, "the remaining payload is finalised exactly when current_len() != 0 (bytes beyond the placeholder)" if okf else "the final flush is not conditioned on current_len() != 0: in length-prefixed mode the placeholder alone makes the buffer non-empty, and a payload without name or values is emitted", last.loc())
        # every payload of a split histogram starts with the name: after the commit inside the loop the flag that makes
        # the next value write the (prefixed) name first is set again on every way to the next value
        names_ = [c for c in buf_ops(hw) if c.is_("extend_from_slice") and ("Key::name" in repr(arg_syms(c)[1]) or "KeyName::as_str" in repr(arg_syms(c)[1]))]
        loop_commits = [c for c in commits if in_cycle(b, c.bb)]
        flag, sw_bb = None, None
        for nc in names_:
            if not in_cycle(b, nc.bb):
                continue
            for x in range(b.n):
                t_ = b.term(x)
                if t_["k"] == "switch" and t_.get("dty") == "bool" and nc.bb in b.reachable(x) and any(tg != nc.bb and nc.bb not in b.reachable(tg, cut={x}) for _l, tg in b.switch_edges(x)):
                    l_ = _root_local(b, t_["discr"])
                    if l_ is not None and b.local_name(l_) and any(d_[0] == "assign" and d_[3]["rv"]["k"] == "use" and (d_[3]["rv"]["a"].get("const") or {}).get("bool") is True for d_ in b.defs().get(l_, [])):
                        flag, sw_bb = l_, x
        if flag is not None and loop_commits:
            sets = {d_[1] for d_ in b.defs().get(flag, []) if d_[0] == "assign" and d_[3]["rv"]["k"] == "use" and (d_[3]["rv"]["a"].get("const") or {}).get("bool") is True}
            okn = all(sw_bb not in b.reachable_after(c.bb, cut=sets) for c in loop_commits)
            chk.ob("C09.e", f"{hw.path} [continuation payloads start with the name]", okn, f"`{b.local_name(flag)} = true` on every way from the mid-loop commit to the next value" if okn else f"after the commit inside the loop `{b.local_name(flag)}` is not set again: every continuation payload of a split histogram starts with `:value` — no prefix, no name", loop_commits[0].loc(), nontrivial=False)
    # the separator belongs to the prefix: wherever a prefix is written the '.' follows under the same conditions, in every
    # writer (a separator written only `if !prefix.ends_with('.')` in one writer sends the same key under two names)
    for f in [g_ for g_ in d.fns if strip_generics(g_.j.get("impl_self", "")).endswith("PayloadWriter") and g_.j.get("mir")]:
        b_ = f.body
        dots = [c for c in buf_ops(f) if c.is_("Vec<T, A>::push") and byte(c) == "."]
        exts = [c for c in buf_ops(f) if c.is_("extend_from_slice")]
        for dp in dots:
            gd = repr([(repr(strip_sym(dd)), lab) for dd, lab in gates(b_, dp.bb)])
            same = [e for e in exts if b_.dominates(e.bb, dp.bb) and repr([(repr(strip_sym(dd)), lab) for dd, lab in gates(b_, e.bb)]) == gd]
            chk.ob("C09.e", f"{f.path} [separator follows the prefix unconditionally]", bool(same), "'.' is pushed under exactly the conditions the prefix is written under" if same else "the '.' after the prefix is written under a further condition: for some prefixes this writer emits `<prefix><name>` where the others emit `<prefix>.<name>`", dp.loc(), nontrivial=False)
    for wname, tok in (("write_counter", "|c"), ("write_gauge", "|g")):
        f = one_method(chk, "C09.d", d, PW, wname)
        if not f:
            continue
        b = f.body
        cm = [c for c in nonforeign_calls(f) if c.fn is f and c.is_("PayloadWriter::commit")]
        su = [c for c in nonforeign_calls(f) if c.fn is f and c.is_("WriteResult::success")]
        fa = [c for c in nonforeign_calls(f) if c.fn is f and c.is_("WriteResult::failure")]
        ok = len(cm) == 1 and len(su) == 1 and len(fa) == 1 and const_int(arg_syms(su[0])[0]) == 1 and const_int(arg_syms(fa[0])[0]) == 1
        if ok:
            ok = any(lab is True and sym_is_call(dd, "PayloadWriter::commit") for dd, lab in gates(b, su[0].bb)) and any(lab is False and sym_is_call(dd, "PayloadWriter::commit") for dd, lab in gates(b, fa[0].bb))
        chk.ob("C09.d", f"{f.path} [result]", ok, "success(1) iff commit() succeeded, else failure(1)" if ok else "the reported result does not follow the commit result", f.loc())
        # ---------------- C09.e  segments in order
        ops = [c for c in buf_ops(f) if c.is_("extend_from_slice", "Vec<T, A>::push")]
        ops.sort(key=lambda c: (len(b.dominators()[c.bb])))
        seq = []
        for c in ops:
            a = strip_sym(arg_syms(c)[1])
            if c.is_("Vec<T, A>::push"):
                seq.append(byte(c))
            elif is_param(_root(a), 4) or "('arg', 4" in repr(a):
                seq.append("<prefix>")
            elif sym_is_call(sym_through(a, "str::as_bytes", "Deref::deref"), "Key::name"):
                seq.append("<name>")
            elif "format" in sym_str(a):
                fm = [x for x in sym_walk(a) if isinstance(x, tuple) and x and x[0] == "call" and isinstance(x[1], str) and "Buffer::format" in x[1]]
                conv = bool(fm) and any(isinstance(x, tuple) and x and x[0] == "cast" for x in sym_walk(fm[0][2][-1]))
                seq.append("<value:" + (strip_generics(fm[0][1]).split("::")[0] + "::" + strip_generics(fm[0][1]).split("::")[-1] if fm else "?") + ("(converted)" if conv else "") + ">")
            else:
                s_ = _bytes_const(a)
                seq.append(s_ if s_ is not None else sym_str(strip_sym(a))[:20])
        tr = [c for c in nonforeign_calls(f) if c.fn is f and c.is_("PayloadWriter::write_trailing", "writer::write_metric_trailer")]
        fmtname = "ryu::format" if wname == "write_gauge" else "itoa::format"
        want = ["<prefix>", ".", "<name>", ":", f"<value:{fmtname}>"]
        got = seq[:5]
        tok_ok = any(tok in str(x) for x in seq[5:]) or any(_bytes_const(arg_syms(c)[1]) == tok for c in ops)
        ok = got == want and tok_ok and len(tr) == 1 and all(tr[0].bb in b.reachable(c.bb) and c.bb not in b.reachable(tr[0].bb) for c in ops) and b.dominates(tr[0].bb, cm[0].bb if cm else 0)
        chk.ob("C09.e", f"{f.path} [message shape]", ok, f"[prefix '.'] name ':' value '{tok}' trailer, value through {fmtname}" if ok else f"message segments are {seq} (type token {tok!r} present={tok_ok}); expected {want} + '{tok}' + trailer, value via the full-range formatter", f.loc())
    for wname, tb in (("write_histogram", "h"), ("write_distribution", "d")):
        f = one_method(chk, "C09.e", d, PW, wname)
        if f:
            cs = [c for c in nonforeign_calls(f) if c.is_("PayloadWriter::write_hist_dist_inner")]
            ok = len(cs) == 1
            if ok:
                a = arg_syms(cs[0])
                ok = const_int(a[3]) == ord(tb) and all(is_param(a[i], j) for i, j in ((1, 1), (2, 2), (4, 3), (5, 4), (6, 5)))
            chk.ob("C09.e", f.path, ok, f"{wname} = write_hist_dist_inner(.., b'{tb}', ..)" if ok else f"{wname} does not pass type byte '{tb}' and its arguments unchanged", f.loc())
    if hw:
        fm = [c for c in nonforeign_calls(hw) if c.fn is hw and "Buffer::format" in (c.resolved or "")]
        ok = len(fm) == 1 and fm[0].is_("ryu::buffer::Buffer::format", "Buffer::format") and not fm[0].is_("Buffer::format_finite")
        # every payload the splitter closes carries the type it was called with: a write of the metric-type parameter
        # dominates each commit (a literal token would make continuation payloads another metric type)
        cms_ = [c for c in nonforeign_calls(hw) if c.fn is hw and c.is_("PayloadWriter::commit")]
        tps_ = [c for c in buf_ops(hw) if c.fn is hw and c.is_("Vec<T, A>::push", "extend_from_slice") and any(isinstance(x, tuple) and x[:2] == ("arg", 3) for x in sym_walk(arg_syms(c)[1]))]
        untyped = [c for c in cms_ if not any(hw.body.dominates(t.bb, c.bb) and not (in_cycle(hw.body, c.bb) and not in_cycle(hw.body, t.bb)) for t in tps_)]
        chk.ob("C09.e", f"{hw.path} [type token per payload]", bool(cms_) and not untyped, f"{len(cms_)} commit site(s), each after a write of the metric_type parameter" if cms_ and not untyped else "a payload is closed without writing the metric_type parameter: it goes out under a fixed type token, whatever metric was written", untyped[0].loc() if untyped else hw.loc())
        # commit() does the framing work (offset, length prefix, next placeholder): it is evaluated in every build, never only
        # as the condition of a debug assertion; and the trailer every payload ends with is rendered for this very call
        dbg_ = [c for c in cms_ if "debug_assert" in str(c.t.get("expc") or "")]
        if hw.hir:
            from facts import walk as _hwalk

            dbg_lines = {x.get("ln") for n in _hwalk(hw.hir) if n.get("k") == "If" and "debug_assert" in str(n.get("exp") or "") for x in _hwalk(n) if x.get("k") == "MethodCall" and x.get("name") == "commit"}
            dbg_ += [c for c in cms_ if c.line in dbg_lines and c not in dbg_]
        chk.ob("C09.d", f"{hw.path} [commit in every build]", not dbg_, f"{len(cms_)} commit call(s), none inside a debug-only assertion" if not dbg_ else "commit() is the condition of a debug_assert!: release builds never close the payload — a split histogram is glued into one over-long frame and the final assert panics", dbg_[0].loc() if dbg_ else hw.loc(), nontrivial=False)
        trs_ = [c for c in nonforeign_calls(hw) if c.fn is hw and c.is_("writer::write_metric_trailer", "PayloadWriter::write_trailing")]
        stale = [c for c in cms_ if not any(hw.body.dominates(t.bb, c.bb) for t in trs_)]
        if trs_:
            chk.ob("C09.e", f"{hw.path} [trailer rendered per call]", not stale, "the trailer is rendered on every path before a payload is closed" if not stale else "a payload can be closed with a trailer that was not rendered in this call (kept from an earlier write): sample rate and tags of another write are sent", stale[0].loc() if stale else hw.loc(), nontrivial=False)
        chk.ob("C09.e", f"{hw.path} [value formatter]", ok, "histogram values through ryu::Buffer::format" if ok else "histogram values are not rendered with ryu::Buffer::format (format_finite prints garbage for NaN/inf)", hw.loc())
    wt = d.fn(f"{D}::writer::write_metric_trailer")
    if need(chk, "C09.e", "write_metric_trailer", wt):
        b = wt.body
        sy = Sym(wt)
        lits = []
        for c in nonforeign_calls(wt):
            if c.fn is wt and c.is_("extend_from_slice", "Vec<T, A>::push") and is_param(_root(arg_syms(c)[0]), 2):
                vs = _bytes_consts(arg_syms(c)[1]) if c.is_("extend_from_slice") else [byte(c)]
                for v in vs:
                    if v is not None:
                        lits.append((v, c))
        order = {v: c for v, c in lits}
        need_l = ["|@", "|#", "|T", "\n"]
        ok = all(x in order for x in need_l)
        if ok:
            seq = [order[x] for x in need_l]
            # each later token is not reachable-before the earlier: token i+1's block must be reachable from token i's, not vice versa
            ok = all(seq[i + 1].bb in b.reachable(seq[i].bb) and seq[i].bb not in b.reachable(seq[i + 1].bb) for i in range(3))
            ok = ok and not in_cycle(b, order["\n"].bb) and not [r for r in b.return_blocks() if r in b.reachable(0, cut={order["\n"].bb})]
        ch = [c for c in nonforeign_calls(wt) if c.fn is wt and c.is_("Iterator::chain")]
        from props.common import ITER_VIEWS

        okc = len(ch) == 1 and is_param(sym_through(arg_syms(ch[0])[0], *ITER_VIEWS), 4) and sym_is_call(arg_syms(ch[0])[1], "Key::labels")
        chk.ob("C09.e", f"{wt.path} [trailer order]", ok and okc, "|@rate, |#tags (global labels chained before the key's), |Ttimestamp, newline — newline on every path" if ok and okc else f"trailer tokens {[v for v, _ in lits]} are not in the order rate, tags, timestamp, newline, or tags are not global.chain(key labels)", wt.loc())
        # the tag section is opened once: when `|#` and `,` are chosen by a bool flag inside the tag loop, every way from
        # the `|#` write round the loop to the next test sets the flag (a `continue` for a bare tag included)
        if "|#" in order and "," in order and in_cycle(b, order["|#"].bb):
            W = order["|#"].bb
            flag = None
            positional = None
            for s_ in range(b.n):
                t_ = b.term(s_)
                if t_["k"] == "switch" and t_.get("dty") == "bool" and in_cycle(b, s_) and any(b.edge_dominates((s_, tg), W) for _lab, tg in b.switch_edges(s_)):
                    l_ = _root_local(b, t_["discr"])
                    if l_ is not None and any(b.edge_dominates((s_, tg), order[","].bb) for _lab, tg in b.switch_edges(s_)):
                        dsym = strip_sym(sy.operand(t_["discr"]))
                        if len(b.defs().get(l_, [])) >= 2:
                            flag = l_  # a mutable "already wrote a tag" variable
                        elif dsym[0] == "bin" and dsym[1] in ("Eq", "Ne") and any(strip_sym(x)[:3] == ("const", "int", 0) for x in dsym[2:4]) and "numerate" in repr(dsym):
                            # decided by position: `|#` for index 0 of the enumerated tags, `,` for the others
                            first_edge = [tg for lab, tg in b.switch_edges(s_) if (lab in (1, True)) == (dsym[1] == "Eq") and lab != "otherwise"]
                            first_edge = first_edge or [tg for lab, tg in b.switch_edges(s_) if lab == "otherwise" and dsym[1] == "Eq" and [a["v"] for a in t_["arms"]] == [0]]
                            positional = any(b.edge_dominates((s_, tg), W) for tg in first_edge)
            if flag is None and positional is None and order["|#"].bb == order[","].bb:
                # one write of a separator chosen beforehand: `let sep = if idx == 0 { b"|#" } else { b"," }`
                from facts import alternatives

                for bb_a, alt, *_g in alternatives(wt, order["|#"].args[1], order["|#"].bb, sy):
                    if "|#" in [x for x in (_bytes_consts(alt) or []) if x]:
                        for dd, lab in gates(b, bb_a):
                            dd = strip_sym(dd)
                            if dd[0] == "bin" and dd[1] in ("Eq", "Ne") and any(strip_sym(x)[:3] == ("const", "int", 0) for x in dd[2:4]) and "numerate" in repr(dd) and isinstance(lab, bool):
                                positional = (dd[1] == "Eq") == lab
                    if positional is None and "|#" in [x for x in (_bytes_consts(alt) or []) if x]:
                        # ... or chosen by the `already wrote a tag` flag: `let sep = if wrote { b"," } else { b"|#" }`
                        for s_ in range(b.n):
                            t_ = b.term(s_)
                            if t_["k"] == "switch" and t_.get("dty") == "bool" and in_cycle(b, s_):
                                l_ = _root_local(b, t_["discr"])
                                if l_ is None or len(b.defs().get(l_, [])) < 2:
                                    continue
                                vals_ = [a["v"] for a in t_["arms"]]
                                for lab, tg in b.switch_edges(s_):
                                    truth = (not bool(vals_[0]) if len(vals_) == 1 else None) if lab == "otherwise" else bool(lab)
                                    if truth is False and (tg == bb_a or b.edge_dominates((s_, tg), bb_a)):
                                        flag = l_
            if flag is None:
                g_ = [sym_str(dd)[:60] for dd, _lab in gates(b, W)]
                idx_idiom = bool(positional)
                chk.ob("C09.e", f"{wt.path} [tag section opened once]", idx_idiom, "`|#` for the first tag, `,` for the others (decided by position)" if idx_idiom else f"cannot see what decides between `|#` and `,` in the tag loop (gates {g_})", order["|#"].loc(), nontrivial=False)
            else:
                sets = {i for i, _k, st in b.stmts() if st["k"] == "assign" and st["p"]["l"] == flag and not st["p"].get("pr") and st["rv"]["k"] == "use" and (st["rv"].get("a") or {}).get("const", {}).get("bool") is True}
                again = W in sets or W not in b.reachable_after(W, cut=sets)
                chk.ob("C09.e", f"{wt.path} [tag section opened once]", bool(sets) and again, "after `|#` is written the flag is set on every way to the next tag" if sets and again else "`|#` can be written again for a later tag: some way round the tag loop (e.g. the `continue` after a bare tag) leaves the flag unset", order["|#"].loc())
        fm = [c for c in nonforeign_calls(wt) if "Buffer::format" in (c.resolved or "")]
        okf = all(not c.is_("Buffer::format_finite") for c in fm) and len(fm) == 2
        chk.ob("C09.e", f"{wt.path} [formatters]", okf, "sample rate via ryu format, timestamp via itoa format" if okf else "trailer numbers are not rendered with the full-range formatters", wt.loc(), nontrivial=False)

    # ---------------- C09.c
    if commit:
        b = commit.body
        sy = Sym(commit)
        from facts import PredFlow

        def is_len(x):
            return sym_is_call(strip_sym(x), "PayloadWriter::current_len")

        def is_max(x):
            return self_field(x, "max_payload_len")

        def cbool(x):
            x = strip_sym(x)
            if not (isinstance(x, tuple) and x and x[0] == "bin"):
                return None
            op, l, r = x[1], x[2], x[3]
            if is_len(l) and is_max(r):
                return {"Gt": ("N", "P"), "Le": ("P", "N")}.get(op)
            if is_max(l) and is_len(r):
                return {"Lt": ("N", "P"), "Ge": ("P", "N")}.get(op)
            return None

        fl = PredFlow(commit, lambda subj, v: None, cbool)  # P = "the measured payload fits max_payload_len"
        tr = [c for c in buf_ops(commit) if c.is_("truncate")]
        offp_ = [c for c in nonforeign_calls(commit) if c.fn is commit and c.is_("Vec<T, A>::push") and "'offsets'" in repr(arg_syms(c)[0])]
        agrees, _detail = fl.returned_bool_agrees()
        cmpok = bool(tr) and all(fl.at(t.bb) == "N" for t in tr) and bool(offp_) and all(fl.at(c.bb) == "P" for c in offp_) and agrees
        chk.ob("C09.c", f"{commit.path} [limit test]", cmpok, "current_len() > max_payload_len <=> truncate and return false; otherwise record the offset and return true" if cmpok else "commit does not reject exactly when the measured length exceeds max_payload_len", commit.loc())
        le = [c for c in nonforeign_calls(commit) if c.fn is commit and c.is_("to_le_bytes")]
        ok = len(le) == 1
        if ok:
            src = strip_sym(arg_syms(le[0])[0])
            ok = any(isinstance(x, tuple) and x and x[0] == "call" and sym_is_call(x, "PayloadWriter::current_len") for x in sym_walk(src)) and "u32" in (le[0].resolved or "")
            cp = [c for c in nonforeign_calls(commit) if c.fn is commit and c.is_("copy_from_slice")]
            ok = ok and len(cp) == 1 and "last_offset" in sym_str(arg_syms(cp[0])[0]) and any(lab is True and self_field(dd, "with_length_prefix") for dd, lab in gates(b, cp[0].bb))
        chk.ob("C09.c", f"{commit.path} [length header]", ok, "header = u32::to_le_bytes(current_len) written at the payload's start offset, only in length-prefixed mode" if ok else "the length header is not the little-endian u32 of the measured length at the payload's start offset", commit.loc())
    if newf:
        ok = any(c.is_("TryFrom::try_from", "u32::try_from") or "try_from" in (c.resolved or "") for c in newf.body.calls()) and any(not c.t.get("target") for c in newf.body.calls())
        chk.ob("C09.c", f"{newf.path} [limit fits u32]", ok, "new() asserts max_payload_len fits in u32" if ok else "new() no longer asserts that the limit fits the 4-byte header", newf.loc())
    cl = one_method(chk, "C09.c", d, PW, "current_len")
    if cl:
        r = strip_sym(Sym(cl).local(0))
        txt = sym_str(r)
        ok = "last_offset" in txt and "len(" in txt and ("phi" in txt or "with_length_prefix" in repr(r))
        chk.ob("C09.c", cl.path, ok, "current_len = buf.len() - last_offset - (4 if length-prefixed)" if ok else f"current_len is {txt[:120]}", cl.loc(), nontrivial=False)


def _root(s):
    s = strip_sym(s)
    while isinstance(s, tuple) and s:
        if s[0] in ("field", "downcast"):
            s = strip_sym(s[1])
        elif s[0] == "call" and s[2] and (sym_is_call(s, "str::as_bytes", "Deref::deref", "String::as_bytes", "as_bytes", "AsRef::as_ref")):
            s = strip_sym(s[2][0])
        else:
            break
    return s


def _bytes_consts(s):
    """All byte-string literals a value may be (a literal, or a choice between literals)."""
    out = []
    for x in sym_walk(strip_sym(s)):
        if isinstance(x, tuple) and len(x) >= 3 and x[0] == "const" and x[1] == "bytes":
            try:
                out.append(bytes(x[2]).decode())
            except Exception:
                pass
    return out


def _bytes_const(s):
    s = strip_sym(s)
    for x in sym_walk(s):
        if isinstance(x, tuple) and len(x) >= 3 and x[0] == "const" and x[1] == "bytes":
            try:
                return bytes(x[2]).decode()
            except Exception:
                return None
    return None


def run_config(ctx):
    run(ctx)
