"""C19 — debugging snapshots show every registered metric with its true current state."""
from facts import Sym, path_is, strip_generics, strip_sym, sym_arg, sym_calls, sym_is_call, sym_str, sym_through, sym_walk
from props.common import RECORDER_METHODS, arg_syms, atomic_ops, callee_method_name, crate_stats, enum_arms, gates, in_cycle, kind_consistent, need, nonforeign_calls, one_method, recorder_impls, siblings_isomorphic

TITLE = "C19 debugging snapshots show every registered metric with its true current state."
CONFIGS = ["test-profile", "util-debugging"]
DBG = "metrics_util::debugging"
KINDS = ("counter", "gauge", "histogram")


def is_param(s, i):
    a = sym_arg(s)
    return a is not None and a[0] == i


def run(ctx):
    chk = ctx.check
    u = ctx.crate("metrics_util")
    m = ctx.crate("metrics")
    crate_stats(chk, u)
    chk.rule("C19.a", "KIND+MPT registration: register_<kind> tracks (MetricKind::<kind>, key.clone()) on every path and then get_or_create_<kind>s the storage, returning the matching handle; the triplet is isomorphic and mentions only its own kind", floor=9)
    chk.rule("C19.b", "WMC: `seen` is written only by track_metric, which only register_* call (descriptions never create entries); `metadata` is written only by describe_metric", floor=2)
    chk.rule("C19.c", "TBL snapshot: iterates `seen` in insertion order; each kind arm reads the map of that kind; histograms are drained with clear_with and every drained slice is ACCUMULATED; a metric is emitted only when a value exists; metadata is looked up by (kind, name)", floor=6)
    chk.rule("C19.d", "TBL describe_metric: the unit is overwritten only when Some, the description always; describe_<kind> passes MetricKind::<kind> and its arguments", floor=5)
    chk.rule("C19.e", "imported from C01.a: with_recorder prefers the thread-local recorder over the global one, so a locally installed debugging recorder sees exactly its own thread's emissions", floor=1)
    chk.trust("IndexMap insertion order", "Registry (C06)", "AtomicBucket::clear_with (C05)")
    chk.residue.append("values under concurrent updates rest on C04/C05 and are not re-decided here")

    impls = recorder_impls(u)
    rec = None
    for (self_ty, ip), ms in impls.items():
        if self_ty.endswith("debugging::DebuggingRecorder"):
            rec = ms
    if rec is None:
        chk.unrecognised("C19.a", "<anchor> impl Recorder for DebuggingRecorder", "missing")
        return
    # ---------------- C19.a / C19.d
    for k in KINDS:
        f = rec.get(f"register_{k}")
        if f:
            b = f.body
            kind_consistent(chk, "C19.a", f, k)
            tm = [c for c in nonforeign_calls(f) if c.fn is f and c.is_("DebuggingRecorder::track_metric")]
            goc = [c for c in nonforeign_calls(f) if c.fn is f and c.is_(f"Registry<K, S>::get_or_create_{k}")]
            ok = len(tm) == 1 and len(goc) == 1 and not [r for r in b.return_blocks() if r in b.reachable(0, cut={tm[0].bb})] and not gates(b, tm[0].bb)
            if ok:
                ck = strip_sym(arg_syms(tm[0])[1])
                ok = sym_is_call(ck, "CompositeKey::new") and k.capitalize() in repr(ck[2][0]) and sym_is_call(strip_sym(ck[2][1]), "Clone::clone") and is_param(strip_sym(strip_sym(ck[2][1])[2][0]), 1)
                ok = ok and is_param(arg_syms(goc[0])[1], 1) and b.dominates(tm[0].bb, goc[0].bb)
                hc = [c for c in nonforeign_calls(f) if c.fn is not f and c.is_(f"{k.capitalize()}::from_arc")]
                ok = ok and len(hc) == 1
            chk.ob("C19.a", f"{f.path} [track then create]", ok, f"track_metric((MetricKind::{k.capitalize()}, key.clone())) unconditionally, then get_or_create_{k}(key, {k.capitalize()}::from_arc)" if ok else f"register_{k} does not unconditionally track (MetricKind::{k.capitalize()}, key) before creating the storage: a registered metric can be missing from every snapshot", f.loc())
        f = rec.get(f"describe_{k}")
        if f:
            kind_consistent(chk, "C19.d", f, k)
            dm = [c for c in nonforeign_calls(f) if c.fn is f and c.is_("DebuggingRecorder::describe_metric")]
            ok = len(dm) == 1
            if ok:
                a = arg_syms(dm[0])
                ckn = strip_sym(a[1])
                ok = sym_is_call(ckn, "CompositeKeyName::new") and k.capitalize() in repr(ckn[2][0]) and is_param(ckn[2][1], 1) and is_param(a[2], 2) and is_param(a[3], 3)
                tms = [c for c in nonforeign_calls(f) if c.is_("DebuggingRecorder::track_metric")]
                ok = ok and not tms
            chk.ob("C19.d", f"{f.path}", ok, f"describe_metric((MetricKind::{k.capitalize()}, name), unit, description); nothing is tracked" if ok else f"describe_{k} does not file (kind, name, unit, description) correctly, or creates a `seen` entry", f.loc())
    for grp in ("describe", "register"):
        fk = {k: rec.get(f"{grp}_{k}") for k in KINDS}
        if all(fk.values()):
            siblings_isomorphic(chk, "C19.a", fk, f"<DebuggingRecorder as Recorder>::{grp}_*")

    # ---------------- C19.b
    def field_users(field):
        users = set()
        for f in u.fns:
            if "debugging" not in f.path or "::tests::" in f.path or f.j.get("derived"):
                continue
            for i, k, s in f.body.stmts():
                if s["k"] != "assign":
                    continue
                for key in ("p",):
                    pl = s["rv"].get(key)
                    if pl and any(isinstance(e, dict) and e.get("f") == field and "debugging::Inner" in e.get("of", "") for e in (pl.get("pr") or [])):
                        root = f
                        while root.parent is not None:
                            root = root.parent
                        users.add(root.name)
        return users
    for field, writers, readers in (("seen", {"track_metric"}, {"snapshot"}), ("metadata", {"describe_metric"}, {"snapshot"})):
        us = field_users(field)
        ok = us == writers | readers
        chk.ob("C19.b", f"debugging::Inner.{field} [who-may-touch]", ok, f"touched only by {sorted(us)}" if ok else f"`{field}` is touched by {sorted(us)}, expected {sorted(writers | readers)}", "metrics-util/src/debugging.rs")
    tmf = one_method(chk, "C19.b", u, f"{DBG}::DebuggingRecorder", "track_metric")
    callers = sorted({(c.fn.parent or c.fn).name if c.fn.dk == "Closure" else c.fn.name for f in u.fns for c in f.body.calls() if c.is_("DebuggingRecorder::track_metric") and "::tests::" not in f.path})
    chk.ob("C19.b", "track_metric [who-may-call]", callers == ["register_counter", "register_gauge", "register_histogram"], f"called only from {callers}" if callers == ["register_counter", "register_gauge", "register_histogram"] else f"track_metric is called from {callers}: only registrations may create snapshot entries", tmf.loc() if tmf else "")

    # ---------------- C19.c
    snap = one_method(chk, "C19.c", u, f"{DBG}::Snapshotter", "snapshot")
    if snap:
        b = snap.body
        sy = Sym(snap)
        # iteration source
        its = [c for c in nonforeign_calls(snap) if c.fn is snap and c.is_("IntoIterator::into_iter")]
        src_ok = False
        for c in its:
            s = sym_str(arg_syms(c)[0])
            if "seen" in s and "clone" in s.lower() and not any(x in s for x in ("sort", "rev(", "sorted")):
                src_ok = True
        sorts = [c for c in nonforeign_calls(snap) if callee_method_name(c).startswith("sort") or callee_method_name(c) in ("rev", "reverse")]
        chk.ob("C19.c", f"{snap.path} [order of first registration]", src_ok and not sorts, "iterates a clone of `seen` in insertion order" if src_ok and not sorts else "the snapshot does not list metrics in order of first registration", snap.loc())
        arms = enum_arms(snap, "kind::MetricKind")
        want = {"Counter": "get_counter_handles", "Gauge": "get_gauge_handles", "Histogram": "get_histogram_handles"}
        if arms is None:
            chk.unrecognised("C19.c", f"{snap.path} [kind arms]", "no match on the entry's kind", snap.loc())
        else:
            for v, src in want.items():
                a = arms.get(v)
                ok = a is not None
                if ok:
                    gets = [c for c in a["calls"] if c.is_("HashMap<K, V, S>::get", "get") and "hash" in (c.resolved or "")]
                    ok = len(gets) == 1 and src in sym_str(sy.operand(gets[0].args[0])) and sym_is_call(sym_through(sy.operand(gets[0].args[1])), "CompositeKey::key")
                chk.ob("C19.c", f"{snap.path} [{v} arm]", ok, f"{v} entries read {src}()[ck.key()]" if ok else f"the {v} arm does not read the {v.lower()} handles for the entry's key", snap.loc())
        cw = [c for c in nonforeign_calls(snap) if c.is_("AtomicBucket<T>::clear_with")]
        nd = [c for c in nonforeign_calls(snap) if c.is_("AtomicBucket<T>::data", "AtomicBucket<T>::data_with")]
        ok = len(cw) == 1 and not nd
        detail = "histograms are not read destructively"
        if ok:
            cl = strip_sym(Sym(cw[0].fn).operand(cw[0].args[1]))
            cf = u.fn(cl[5]) if cl[0] == "agg" and cl[1] == "closure" else None
            ok = cf is not None
            if ok:
                adds = [c for c in nonforeign_calls(cf) if callee_method_name(c) in ("extend", "extend_from_slice", "push", "append")]
                overwrite = [s for i, k, s in cf.body.stmts() if s["k"] == "assign" and s["p"].get("pr") and s["p"]["l"] == 1 or (s["k"] == "assign" and s["p"].get("pr") and "capture" in repr(Sym(cf).local(s["p"]["l"])))]
                drops_old = [i for i in range(cf.body.n) if cf.body.term(i)["k"] == "drop" and cf.body.term(i)["p"].get("pr")]
                ok = len(adds) >= 1 and not overwrite and not drops_old
                detail = f"closure: adds={[callee_method_name(c) for c in adds]}, overwrites the accumulator={bool(overwrite or drops_old)}"
        chk.ob("C19.c", f"{snap.path} [histogram drain accumulates]", ok, "clear_with(|xs| values.extend(..)): every drained block is appended" if ok else f"drained histogram blocks are not all kept ({detail}): clear_with calls the closure once per 64-value block, so overwriting keeps only the last block and the other values appear in no snapshot", snap.loc())
        pushes = [c for c in nonforeign_calls(snap) if c.fn is snap and c.is_("Vec<T, A>::push")]
        ok = len(pushes) == 1 and any(lab == "Some" for dd, lab in gates(b, pushes[0].bb)) and in_cycle(b, pushes[0].bb)
        chk.ob("C19.c", f"{snap.path} [only metrics with a value]", ok, "an entry is emitted only when its kind's map has a value (described-only names are skipped)" if ok else "snapshot entries are not conditional on a value existing", snap.loc())
        ckn = [c for c in nonforeign_calls(snap) if c.fn is snap and c.is_("CompositeKeyName::new")]
        ok = len(ckn) == 1 and sym_is_call(sym_through(arg_syms(ckn[0])[0]), "CompositeKey::kind") and "name" in sym_str(arg_syms(ckn[0])[1])
        chk.ob("C19.c", f"{snap.path} [metadata by (kind, name)]", ok, "metadata is looked up under (ck.kind(), ck.key().name())" if ok else "metadata is not looked up by the entry's (kind, name)", snap.loc())

    # ---------------- C19.d describe_metric
    dmf = one_method(chk, "C19.d", u, f"{DBG}::DebuggingRecorder", "describe_metric")
    if dmf:
        b = dmf.body
        sy = Sym(dmf)
        writes = []
        for i, k, s in b.stmts():
            if s["k"] == "assign" and s["p"].get("pr") and not s.get("exp") and not b.blocks[i].get("cleanup"):
                base = strip_sym(sy.local(s["p"]["l"]))
                if "or_insert" in repr(base):
                    writes.append((i, [e.get("f") for e in s["p"]["pr"] if isinstance(e, dict) and "f" in e] + [repr(base)[-40:]], strip_sym(sy.rvalue(s["rv"], 0, frozenset()))))
        unit_w = [(i, v) for i, fl, v in writes if is_param(v, 2)]
        desc_w = [(i, v) for i, fl, v in writes if is_param(v, 3)]
        oku = len(unit_w) == 1 and any(lab is True and sym_is_call(dd, "Option<T>::is_some") and is_param(strip_sym(dd)[2][0], 2) for dd, lab in gates(b, unit_w[0][0])) or (len(unit_w) == 1 and any(lab == "Some" and is_param(dd, 2) for dd, lab in gates(b, unit_w[0][0])))
        okd = len(desc_w) == 1 and not [r for r in b.return_blocks() if r in b.reachable(0, cut={desc_w[0][0]})]
        chk.ob("C19.d", f"{dmf.path} [unit only when given]", oku, "the stored unit is replaced only when the new description carries Some(unit)" if oku else "a later description without a unit erases the earlier unit (or a given unit is not stored)", dmf.loc())
        chk.ob("C19.d", f"{dmf.path} [description always]", okd, "the description is replaced on every describe" if okd else "the most recent description is not always stored", dmf.loc())

    # ---------------- C19.e
    if m is not None:
        from props.c01 import with_recorder_leaves

        wr = m.fn("metrics::recorder::with_recorder")
        if wr is not None:
            res = with_recorder_leaves(wr)
            # the local leaf exists, and every other recorder the closure may receive is chosen only when no local is installed
            ok = res["found"]["local"] is not None and all(i["none_get"] for i in res["info"] if not (i["local_payload"] and i["some_get"])) and len(res["info"]) >= 2
            chk.ob("C19.e", f"{wr.path} [local before global]", ok, "emissions go to the thread-local recorder when one is installed; the global one is consulted only otherwise" if ok else "with_recorder does not prefer the thread-local recorder: a global recorder captures metrics meant for a local debugging recorder", wr.loc())


def run_config(ctx):
    run(ctx)
