"""C19 — debugging snapshots show every registered metric with its true current state."""
from facts import Sym, path_is, strip_generics, strip_sym, sym_arg, sym_calls, sym_is_call, sym_str, sym_through, sym_walk
from props.common import RECORDER_METHODS, arg_syms, atomic_ops, callee_method_name, crate_stats, enum_arms, gates, in_cycle, kind_consistent, need, nonforeign_calls, one_method, recorder_impls, siblings_isomorphic

KEEP = []  # DebuggingRecorder::{track_metric, describe_metric} and other private helpers are spliced into the Recorder methods
TITLE = "C19 debugging snapshots show every registered metric with its true current state."
CONFIGS = ["test-profile", "util-debugging"]
DBG = "metrics_util::debugging"
KINDS = ("counter", "gauge", "histogram")


def is_param(s, i):
    a = sym_arg(s)
    return a is not None and a[0] == i


def ctor_args(s, ty_suffix):
    """arguments of `<Ty>::new(a, b)` whether still a call or already spliced into an aggregate"""
    s = strip_sym(s)
    if sym_is_call(s, f"{ty_suffix}::new"):
        return [strip_sym(x) for x in s[2]]
    if s[0] == "agg" and (s[5] or "").endswith(ty_suffix):
        return [strip_sym(x) for x in s[3]]
    return None


def run(ctx):
    chk = ctx.check
    u = ctx.crate("metrics_util")
    m = ctx.crate("metrics")
    crate_stats(chk, u)
    chk.rule("C19.a", "KIND+MPT registration: register_<kind> tracks (MetricKind::<kind>, key.clone()) on every path and then get_or_create_<kind>s the storage, returning the matching handle; the triplet is isomorphic and mentions only its own kind", floor=9)
    chk.rule("C19.b", "WMC (helpers spliced in): the registration table is touched only by register_* and snapshot (descriptions never create entries); the description table only by describe_* and snapshot", floor=2)
    chk.rule("C19.c", "TBL snapshot: iterates `seen` in insertion order; each kind arm reads the map of that kind; histograms are drained with clear_with and every drained slice is ACCUMULATED; a metric is emitted only when a value exists; metadata is looked up by (kind, name)", floor=6)
    chk.rule("C19.d", "TBL describe_<kind> (helpers spliced in): files under (MetricKind::<kind>, name); the stored unit is overwritten only when the new one is Some, the description always", floor=9)
    chk.rule("C19.e", "imported from C01.a: with_recorder prefers the thread-local recorder over the global one, so a locally installed debugging recorder sees exactly its own thread's emissions", floor=1)
    chk.trust("IndexMap insertion order", "Registry (C06)", "AtomicBucket::clear_with (C05)")
    chk.residue.append("values under concurrent updates rest on C04/C05 and are not re-decided here")

    impls = recorder_impls(u)
    rec = None
    for (self_ty, ip), ms in impls.items():
        if self_ty.endswith("debugging::DebuggingRecorder"):
            rec = ms
    if rec is None:
        chk.unrecognised("C19.a", "<anchor> impl Recorder for DebuggingRecorder", "missing")
        return
    # ---------------- roles: Inner's two tables by type
    inner_adt = u.adts.get(f"{DBG}::Inner")
    seen_f = meta_f = None
    for fl in (inner_adt or {}).get("variants", [{}])[0].get("fields", []):
        ty = fl.get("ty", "")
        if "CompositeKeyName" in ty:
            meta_f = fl["name"]
        elif "CompositeKey" in ty:
            seen_f = fl["name"]
    if not (seen_f and meta_f):
        chk.unrecognised("C19.b", "<anchor> debugging::Inner tables", f"cannot tell the registration table from the description table (fields {[f_['name'] for f_ in (inner_adt or {}).get('variants', [{}])[0].get('fields', [])]})")
        return
    MUTS = ("insert", "insert_full", "entry", "or_insert", "or_insert_with", "or_default", "extend", "remove", "swap_remove", "shift_remove", "clear", "retain", "get_mut", "insert_entry")

    def table_muts(f, field):
        out = []
        for c in nonforeign_calls(f):
            if "indexmap" in (c.resolved or "") and callee_method_name(c) in MUTS and f"'{field}'" in repr(Sym(c.fn).operand(c.args[0])):
                out.append(c)
        return out

    from facts import PredFlow

    # ---------------- C19.a / C19.d  (track_metric / describe_metric spliced in)
    for k in KINDS:
        f = rec.get(f"register_{k}")
        if f:
            b = f.body
            kind_consistent(chk, "C19.a", f, k)
            tm = [c for c in table_muts(f, seen_f) if c.fn is f]
            # `seen.entry(k).or_insert(())` tracks the key exactly like `seen.insert(k, ())` (a set kept as a map to ()): the
            # entry() call carries the key; the or_insert* that completes it is not a second mutation
            ent_ = [c for c in tm if callee_method_name(c) == "entry"]
            if len(ent_) == 1 and len(tm) == 1 + len([c for c in nonforeign_calls(f) if c.fn is f and callee_method_name(c) in ("or_insert", "or_insert_with", "or_default") and "indexmap" in (c.resolved or "")]):
                tm = ent_
            else:
                ent_ = []
            goc = [c for c in nonforeign_calls(f) if c.fn is f and c.is_(f"Registry<K, S>::get_or_create_{k}")]
            ok = len(tm) == 1 and (callee_method_name(tm[0]) == "insert" or bool(ent_)) and len(goc) == 1 and not [r for r in b.return_blocks() if r in b.reachable(0, cut={tm[0].bb})] and not [1 for dd, lab in gates(b, tm[0].bb) if lab in (True, False, "Some", "None", "Ok", "Err")]
            if ok:
                ck = strip_sym(arg_syms(tm[0])[1])
                ca = ctor_args(ck, "CompositeKey")
                ok = ca is not None and len(ca) == 2 and k.capitalize() in repr(ca[0]) and sym_is_call(ca[1], "Clone::clone") and is_param(sym_through(ca[1][2][0]), 1)
                ok = ok and is_param(arg_syms(goc[0])[1], 1) and b.dominates(tm[0].bb, goc[0].bb)
                hc = [c for c in nonforeign_calls(f) if c.fn is not f and c.is_(f"{k.capitalize()}::from_arc")]
                ok = ok and len(hc) == 1 and not table_muts(f, meta_f)
            chk.ob("C19.a", f"{f.path} [track then create]", ok, f"registration table gets (MetricKind::{k.capitalize()}, key.clone()) unconditionally, then get_or_create_{k}(key, {k.capitalize()}::from_arc)" if ok else f"register_{k} does not unconditionally track (MetricKind::{k.capitalize()}, key) before creating the storage: a registered metric can be missing from every snapshot", f.loc())
        f = rec.get(f"describe_{k}")
        if f:
            b = f.body
            sy = Sym(f)
            kind_consistent(chk, "C19.d", f, k)
            ent = [c for c in table_muts(f, meta_f) if c.fn is f and callee_method_name(c) in ("entry", "insert", "get_mut")]
            ok = len(ent) >= 1 and not table_muts(f, seen_f)
            if ok:
                ckn = strip_sym(arg_syms(ent[0])[1])
                ckn = sym_through(ckn, "Clone::clone")
                ca = ctor_args(ckn, "CompositeKeyName")
                ok = ca is not None and len(ca) == 2 and k.capitalize() in repr(ca[0]) and is_param(sym_through(ca[1]), 1)
            chk.ob("C19.d", f"{f.path}", ok, f"the description table is updated under (MetricKind::{k.capitalize()}, name); nothing is tracked" if ok else f"describe_{k} does not file (kind, name, unit, description) correctly, or creates a registration entry", f.loc())
            # unit only when given / description always
            def csw(subj, v):
                return {"Some": "P", "None": "N"}.get(v) if is_param(sym_through(subj), 2) else None

            def cbool(x):
                x = strip_sym(x)
                if sym_is_call(x, "Option<T>::is_some") and is_param(sym_through(x[2][0]), 2):
                    return ("P", "N")
                if sym_is_call(x, "Option<T>::is_none") and is_param(sym_through(x[2][0]), 2):
                    return ("N", "P")
                return None

            pf = PredFlow(f, csw, cbool)  # P = "this description carries a unit"
            unit_w, desc_w, stores = [], [], []
            for i, kk, st in b.stmts():
                if st["k"] == "assign" and st["p"].get("pr") and not st.get("exp") and not b.blocks[i].get("cleanup"):
                    base = repr(strip_sym(sy.local(st["p"]["l"])))
                    if "or_insert" in base or "get_mut" in base or "into_mut" in base or "OccupiedEntry" in base:
                        v = sy.rvalue(st["rv"], 0, frozenset())
                        if "('arg', 2" in repr(v):
                            unit_w.append(i)
                        if is_param(sym_through(v), 3):
                            desc_w.append(i)
            for c in nonforeign_calls(f):
                if c.fn is f and "indexmap" in (c.resolved or "") and callee_method_name(c) == "insert" and len(c.args) >= 2:
                    v = repr(arg_syms(c)[-1])
                    if "('arg', 3" in v:
                        stores.append(c.bb)
            given_stored = bool(unit_w) or bool(stores)
            oku = given_stored and all(pf.at(i) == "P" for i in unit_w)
            okd = (bool(desc_w) or bool(stores)) and not [r for r in b.return_blocks() if r in b.reachable(0, cut=set(desc_w) | set(stores))]
            # one critical section: the entry is looked up and updated under ONE acquisition of the table's lock (a
            # check under one acquisition and an insert under the next lets two racing first descriptions overwrite each
            # other — the unit given by one of them is lost although either order of the two calls would keep it)
            locks = [c for c in nonforeign_calls(f) if c.is_("Mutex<T>::lock", "RwLock<T>::write", "Mutex<T>::try_lock")]
            if len(locks) > 1:
                oku = False
            chk.ob("C19.d", f"{f.path} [unit only when given]", oku, "the stored unit is replaced only when the new description carries Some(unit)" if oku else "a later description without a unit erases the earlier unit (or a given unit is not stored)", f.loc())
            chk.ob("C19.d", f"{f.path} [description always]", okd, "the description is replaced on every describe" if okd else "the most recent description is not always stored", f.loc())
    for grp in ("describe", "register"):
        fk = {k: rec.get(f"{grp}_{k}") for k in KINDS}
        if all(fk.values()):
            siblings_isomorphic(chk, "C19.a", fk, f"<DebuggingRecorder as Recorder>::{grp}_*")

    # ---------------- C19.b
    def field_users(field):
        users = set()
        for f in u.fns:
            if "debugging" not in f.path or "::tests::" in f.path or f.j.get("derived"):
                continue
            for i, k, s in f.body.stmts():
                if s["k"] != "assign":
                    continue
                pl = s["rv"].get("p")
                if pl and any(isinstance(e, dict) and e.get("f") == field and "debugging::Inner" in e.get("of", "") for e in (pl.get("pr") or [])):
                    root = f
                    while root.parent is not None:
                        root = root.parent
                    users.add(root.name)
        return users
    for field, writers, readers, what in ((seen_f, {"register_counter", "register_gauge", "register_histogram"}, {"snapshot"}, "registration table"), (meta_f, {"describe_counter", "describe_gauge", "describe_histogram"}, {"snapshot"}, "description table")):
        us = field_users(field)
        ok = us == writers | readers
        chk.ob("C19.b", f"debugging::Inner {what} [who-may-touch]", ok, f"touched only by {sorted(us)}" if ok else f"the {what} is touched by {sorted(us)}, expected {sorted(writers | readers)}: only registrations may create snapshot entries, only descriptions may write metadata", "metrics-util/src/debugging.rs")

    # ---------------- C19.c
    snap = one_method(chk, "C19.c", u, f"{DBG}::Snapshotter", "snapshot")
    if snap:
        from props.common import enum_switches

        # the per-entry body: snapshot() itself (for loop) or the closure it hands to filter_map/map (iterator chain)
        B = next((g for g in snap.region() if enum_switches(g, "kind::MetricKind")), snap)
        chain_form = B is not snap
        b = B.body
        sy = Sym(B)
        # iteration source
        its = [c for c in nonforeign_calls(snap) if c.fn is snap and c.is_("IntoIterator::into_iter")]
        src_ok = False
        for c in its:
            s = sym_str(arg_syms(c)[0])
            if f"{seen_f}" in s and "clone" in s.lower() and not any(x in s for x in ("sort", "rev(", "sorted")):
                src_ok = True
        if chain_form:
            # seen.into_iter().filter_map(<B>).collect(): same order, nothing but the per-entry closure in between
            src_ok = False
            for c in nonforeign_calls(snap):
                if c.fn is snap and c.is_("Iterator::filter_map", "Iterator::map", "Iterator::flat_map"):
                    a_ = arg_syms(c)
                    cl_ = strip_sym(a_[1])
                    if cl_[0] == "agg" and cl_[1] == "closure" and cl_[5] == B.path:
                        s = sym_str(a_[0])
                        src_ok = f"{seen_f}" in s and "clone" in s.lower() and not any(x in s for x in ("sort", "rev(", "skip(", "take(", "step_by("))
        sorts = [c for c in nonforeign_calls(snap) if callee_method_name(c).startswith("sort") or callee_method_name(c) in ("rev", "reverse")]
        chk.ob("C19.c", f"{snap.path} [order of first registration]", src_ok and not sorts, "iterates a clone of `seen` in insertion order" if src_ok and not sorts else "the snapshot does not list metrics in order of first registration", snap.loc())
        arms = enum_arms(B, "kind::MetricKind")
        want = {"Counter": "get_counter_handles", "Gauge": "get_gauge_handles", "Histogram": "get_histogram_handles"}
        if arms is None:
            chk.unrecognised("C19.c", f"{snap.path} [kind arms]", "no match on the entry's kind", snap.loc())
        else:
            for v, src in want.items():
                a = arms.get(v)
                ok = a is not None
                if ok:
                    gets = [c for c in a["calls"] if c.is_("HashMap<K, V, S>::get", "get") and "hash" in (c.resolved or "")]
                    ok = len(gets) == 1 and src in sym_str(sy.operand(gets[0].args[0])) and sym_is_call(sym_through(sy.operand(gets[0].args[1])), "CompositeKey::key")
                chk.ob("C19.c", f"{snap.path} [{v} arm]", ok, f"{v} entries read {src}()[ck.key()]" if ok else f"the {v} arm does not read the {v.lower()} handles for the entry's key", snap.loc())
        cw = [c for c in nonforeign_calls(snap) if c.is_("AtomicBucket<T>::clear_with")]
        nd = [c for c in nonforeign_calls(snap) if c.is_("AtomicBucket<T>::data", "AtomicBucket<T>::data_with")]
        ok = len(cw) == 1 and not nd
        detail = "histograms are not read destructively"
        if ok:
            cl = strip_sym(Sym(cw[0].fn).operand(cw[0].args[1]))
            cf = u.fn(cl[5]) if cl[0] == "agg" and cl[1] == "closure" else None
            ok = cf is not None
            if ok:
                adds = [c for c in nonforeign_calls(cf) if callee_method_name(c) in ("extend", "extend_from_slice", "push", "append")]
                overwrite = [s for i, k, s in cf.body.stmts() if s["k"] == "assign" and s["p"].get("pr") and s["p"]["l"] == 1 or (s["k"] == "assign" and s["p"].get("pr") and "capture" in repr(Sym(cf).local(s["p"]["l"])))]
                drops_old = [i for i in range(cf.body.n) if cf.body.term(i)["k"] == "drop" and cf.body.term(i)["p"].get("pr")]
                ok = len(adds) >= 1 and not overwrite and not drops_old
                detail = f"closure: adds={[callee_method_name(c) for c in adds]}, overwrites the accumulator={bool(overwrite or drops_old)}"
        chk.ob("C19.c", f"{snap.path} [histogram drain accumulates]", ok, "clear_with(|xs| values.extend(..)): every drained block is appended" if ok else f"drained histogram blocks are not all kept ({detail}): clear_with calls the closure once per 64-value block, so overwriting keeps only the last block and the other values appear in no snapshot", snap.loc())
        pushes = [c for c in nonforeign_calls(snap) if c.fn is B and c.is_("Vec<T, A>::push")]
        ok = len(pushes) == 1 and any(lab == "Some" for dd, lab in gates(b, pushes[0].bb, up=False)) and in_cycle(b, pushes[0].bb)
        if chain_form:
            # filter_map keeps an entry only when the closure returns Some: the closure's result is the looked-up value mapped
            ret_ = strip_sym(sy.local(0))
            ok = any(c.fn is snap and c.is_("Iterator::filter_map") for c in nonforeign_calls(snap)) and sym_is_call(ret_, "Option<T>::map", "Option<T>::and_then", "Option<T>::zip") and "get(" in sym_str(ret_)
        if ok:
            # ... and on nothing else: a registered histogram that received no value since the previous snapshot is
            # still listed (with no values) — no emptiness test decides whether a row is produced
            sel = sorted({callee_method_name(c) for c in nonforeign_calls(snap) if c.is_("bool::then", "bool::then_some", "Option<T>::filter", "Option<T>::take_if")})
            if sel:
                ok = False
        chk.ob("C19.c", f"{snap.path} [only metrics with a value]", ok, "an entry is emitted only when its kind's map has a value (described-only names are skipped)" if ok else "snapshot entries are not conditional on a value existing", snap.loc())
        # the key under which the description table is read
        mg = [c for c in nonforeign_calls(snap) if c.fn is B and "indexmap" in (c.resolved or "") and callee_method_name(c) in ("get", "get_full", "get_key_value") and "CompositeKeyName" in repr(c.t.get("gargs")) + (c.resolved or "") + repr(arg_syms(c)[1])]
        ok = False
        for c in mg:
            ca = ctor_args(sym_through(arg_syms(c)[1]), "CompositeKeyName")
            if ca and len(ca) == 2 and sym_is_call(sym_through(ca[0]), "CompositeKey::kind") and "name" in sym_str(ca[1]):
                ok = True
        chk.ob("C19.c", f"{snap.path} [metadata by (kind, name)]", ok, "metadata is looked up under (ck.kind(), ck.key().name())" if ok else "metadata is not looked up by the entry's (kind, name)", snap.loc())

    # ---------------- C19.e
    if m is not None:
        from props.c01 import with_recorder_leaves

        wr = m.fn("metrics::recorder::with_recorder")
        if wr is not None:
            res = with_recorder_leaves(wr)
            # the local leaf exists, and every other recorder the closure may receive is chosen only when no local is installed
            ok = res["found"]["local"] is not None and all(i["none_get"] for i in res["info"] if not (i["local_payload"] and i["some_get"])) and len(res["info"]) >= 2
            chk.ob("C19.e", f"{wr.path} [local before global]", ok, "emissions go to the thread-local recorder when one is installed; the global one is consulted only otherwise" if ok else "with_recorder does not prefer the thread-local recorder: a global recorder captures metrics meant for a local debugging recorder", wr.loc())

    _imports(ctx)


def _imports(ctx):
    from props.common import import_rules

    import_rules(ctx, "C06", {"C06.b", "C06.c", "C06.d", "C06.e"}, "C19.f", "imported from C06 (the recorder's registry): one hash/shard/key per lookup, check-and-insert in one critical section, every constructed Key carries the hash of its own (name, labels) — otherwise two registrations of one key (racing, or through equal keys built differently) get two storages and the values recorded through the orphaned handle appear in no snapshot", floor=14)
    import_rules(ctx, "C05", {"C05.b", "C05.c", "C05.d", "C05.e"}, "C19.h", "imported from C05 (the histogram storage the snapshot drains): a detached block is read only after its in-flight writes are waited for, blocks are linked before they are published, claims are fenced before a block is read, one clearer wins the detach — otherwise a value recorded while a snapshot is taken appears in no snapshot", floor=6)
    import_rules(ctx, "C04", {"C04.b", "C04.c"}, "C19.i", "imported from C04 (the counter/gauge storage whose value the snapshot reads): updates are single atomic read-modify-write operations — otherwise the snapshot's value is not the handle's state", floor=5)
    import_rules(ctx, "C03", {"C03.a", "C03.c", "C03.d"}, "C19.j", "imported from C03 (the Key hash/equality contract behind the registry lookup and the first-registration index): same canonical form in hasher, == and cmp; lazily memoised hash published before its flag — otherwise one metric is registered under two entries (listed twice, its state split) or two metrics share one", floor=7)
    import_rules(ctx, "C01", {"C01.a", "C01.b"}, "C19.g", "imported from C01 (per-thread installation): precedence local > global > no-op and save/restore of the thread-local slot on every path incl. unwinding — otherwise metrics emitted after a scope ended (or by another thread) are captured by this recorder", floor=8)


def run_config(ctx):
    run(ctx)
