"""C18 — the scrape endpoint serves the current rendering and enforces its allowlist."""
from facts import Sym, call_name, calls_in, find, is_call_to, is_local, lit_of, path_is, peel, strip_generics, strip_sym, sym_arg, sym_is_call, sym_str, sym_through, sym_walk, walk, is_foreign_exp
from props.common import field_path, arg_syms, callee_method_name, crate_stats, gates, in_cycle, need, nonforeign_calls, one_method, has_panic_path

KEEP = [  # private helpers the rules name (kept as functions); every other non-exported, non-trait function is spliced into its callers
    "AtomicBucketInstant::new", "HttpListeningExporter::check_tcp_allowed", "HttpListeningExporter::handle_http_request", "HttpListeningExporter::process_tcp_stream",
    "HttpListeningExporter::serve_tcp", "Inner::render", "HttpListeningExporter::process_uds_stream", "HttpListeningExporter::serve_uds",
]
TITLE = "C18 the scrape endpoint serves the current rendering and enforces its allowlist."
CONFIGS = ["test-profile", "prom-uds"]
HL = "metrics_exporter_prometheus::exporter::http_listener::HttpListeningExporter"
PB = "metrics_exporter_prometheus::exporter::builder::PrometheusBuilder"


def is_param(s, i):
    a = sym_arg(s)
    return a is not None and a[0] == i


def contains_node(tree, target):
    return any(n is target for n in walk(tree))


def _place_path(x):
    """Field names from `self` down to a place, not looking inside an Option/Result payload (`self.a.b` for
    `(self.a.b as Some).0`); None if the place is not rooted at self."""
    names = []
    x = strip_sym(x)
    for _ in range(12):
        if not isinstance(x, tuple) or not x:
            return None
        if x[0] == "field":
            inner = strip_sym(x[1])
            if isinstance(inner, tuple) and inner and inner[0] == "downcast" and inner[2] in ("Some", "Ok", "Err"):
                names = []  # everything collected so far lies inside the payload
                x = strip_sym(inner[1])
                continue
            names.append(x[2])
            x = inner
        elif x[0] in ("downcast", "ref", "deref"):
            x = strip_sym(x[1])
        elif x[0] == "call" and x[2] and sym_is_call(x, "Deref::deref", "DerefMut::deref_mut", "Option<T>::as_mut", "Option<T>::as_ref", "Option<T>::get_or_insert", "Option<T>::get_or_insert_with", "Option<T>::insert"):
            names = [] if not sym_is_call(x, "Deref::deref", "DerefMut::deref_mut") else names
            x = strip_sym(x[2][0])
        elif x[0] == "arg":
            return tuple(reversed(names)) if x[1] == 0 and names else None
        else:
            return None
    return None


def _handler_flag(p, hh, first_name):
    """(names the allowlist verdict goes by inside the request handler, the struct field it arrives in or None): the
    handler's first parameter is either the bool itself or a private struct with exactly one bool field (read as
    `self.f` or bound by destructuring `let Self { f, .. } = self`)."""
    ty1 = strip_generics(hh.body.local_ty(1)) if hh.body.argc >= 1 else ""
    if ty1 in ("bool", ""):
        return {first_name}, None
    adt = p.adts.get(ty1)
    bools = [f["name"] for v in (adt or {}).get("variants", []) for f in v.get("fields", []) if f.get("ty") == "bool"]
    if len(bools) != 1:
        return {first_name}, None
    names = set()
    holders = {first_name}
    for n in walk(hh.hir):
        if n.get("k") == "Let" and isinstance(n.get("init"), dict):
            init = peel(n["init"])
            pat = n.get("pat") or {}
            if init.get("k") == "Path" and init.get("name") in holders:
                if pat.get("k") == "Bind":
                    holders.add(pat.get("name"))  # `let self = self` of the async desugaring
                elif pat.get("k") == "Struct":
                    for fp in pat.get("fields") or []:
                        if fp.get("f") == bools[0] and (fp.get("pat") or {}).get("k") == "Bind":
                            names.add(fp["pat"]["name"])
    return names, bools[0]


def _service_struct_flag(p, f, flag_ok):
    """The per-connection service is a private struct (one bool field) built in `f` and served through its own
    `Service::call`: the struct's bool field satisfies flag_ok where it is built, and the struct's method hands exactly
    that field of self to handle_http_request."""
    for g in f.region():
        gsy = Sym(g)
        for i, k, st in g.body.stmts():
            if st["k"] != "assign" or st["rv"]["k"] != "agg" or not st["rv"].get("adt") or st["rv"].get("agg") != "adt":
                continue
            adt = p.adts.get(strip_generics(st["rv"]["adt"]))
            bools = [fl["name"] for v in (adt or {}).get("variants", []) for fl in v.get("fields", []) if fl.get("ty") == "bool"]
            if not adt or adt.get("exported") or len(bools) != 1 or bools[0] not in (st["rv"].get("fields") or []):
                continue
            v = gsy.operand(st["rv"]["ops"][st["rv"]["fields"].index(bools[0])])
            if not flag_ok(v):
                continue
            # the struct's own methods that reach the handler pass self.<bool field>
            for h in p.fns:
                if strip_generics(h.j.get("impl_self", "")) != strip_generics(st["rv"]["adt"]):
                    continue
                for c in nonforeign_calls(h):
                    if c.is_("HttpListeningExporter::handle_http_request"):
                        a0 = strip_sym(Sym(c.fn).operand(c.args[0]))
                        while isinstance(a0, tuple) and a0 and a0[0] in ("capture",):
                            a0 = strip_sym(a0[2]) if len(a0) > 2 and isinstance(a0[2], tuple) else a0
                        if a0[0] == "field" and a0[2] == bools[0] and is_param(a0[1], 0):
                            return True
    return False


def _flag_of(p, s):
    """The allowlist verdict inside the value handed to the handler: the bool itself, or the bool field of the private
    per-connection struct (through clone() of a captured copy)."""
    captured = "capture" in repr(s)
    s = strip_sym(s)
    for _ in range(6):
        if isinstance(s, tuple) and s and s[0] == "call" and sym_is_call(s, "Clone::clone") and s[2]:
            s = strip_sym(s[2][0])
        elif isinstance(s, tuple) and s and s[0] in ("ref", "deref"):
            s = strip_sym(s[1])
        elif isinstance(s, tuple) and s and s[0] == "capture":
            inner = strip_sym(s[2]) if len(s) > 2 and isinstance(s[2], tuple) else None
            if inner is not None and inner[0] == "agg" and inner[1] not in ("tuple", "closure"):
                s = inner
            else:
                break
        else:
            break
    if isinstance(s, tuple) and s and s[0] == "agg" and s[1] not in ("tuple", "closure") and len(s) > 4:
        adt = p.adts.get(strip_generics(s[5] or s[1] or ""))
        bools = [f["name"] for v in (adt or {}).get("variants", []) for f in v.get("fields", []) if f.get("ty") == "bool"]
        if len(bools) == 1 and bools[0] in (s[4] or ()):
            v = s[3][list(s[4]).index(bools[0])]
            return ("capture", -1, v) if captured and "capture" not in repr(v) else v
        return None
    return ("capture", -1, s) if captured and "capture" not in repr(s) else s


def _allowlist_field(p):
    """(field of HttpListeningExporter that holds the allowlist, label of its "no list configured" state): followed from
    the Option<Vec<IpNet>> parameter of new_http_listener into the struct it builds — stored as it is ("None"), or through
    a conversion into a private enum (the variant the conversion yields for None)."""
    from facts import SpecialisedFn

    nl = p.fn("metrics_exporter_prometheus::exporter::http_listener::new_http_listener")
    if nl is None:
        return "allowed_addresses", "None"
    b = nl.body
    sy = Sym(nl)
    pidx = next((l - 1 for l in range(1, b.argc + 1) if "Option<" in b.local_ty(l) and "IpNet" in b.local_ty(l)), None)
    if pidx is None:
        return "allowed_addresses", "None"
    for i, k, st in b.stmts():
        if st["k"] == "assign" and st["rv"]["k"] == "agg" and (st["rv"].get("adt") or "").endswith("HttpListeningExporter"):
            for fld, op in zip(st["rv"].get("fields") or [], st["rv"].get("ops") or []):
                v = strip_sym(sy.operand(op))
                if is_param(v, pidx):
                    return fld, "None"
                if v[0] == "call" and any(is_param(strip_sym(a), pidx) for a in v[2]):
                    conv = next((g for g in p.fns if g.path == v[1] or g.path == strip_generics(v[1])), None) or next((g for g in p.fns if g.name == v[1].split("::")[-1] and g.j.get("impl_trait") and "PeerFilter" in g.path), None)
                    if conv is None:
                        cands = [g for g in p.fns if g.name == strip_generics(v[1]).split("::")[-1] and g.body.argc == len(v[2]) and "Option<" in g.body.local_ty(1) and "IpNet" in g.body.local_ty(1)]
                        conv = cands[0] if len(cands) == 1 else None
                    if conv is not None:
                        pos = next(j for j, a in enumerate(v[2]) if is_param(strip_sym(a), pidx)) + 1
                        r = strip_sym(Sym(SpecialisedFn(conv, pos, "None")).local(0))
                        if r[0] == "agg" and r[2]:
                            return fld, r[2]
    return "allowed_addresses", "None"


def run(ctx):
    chk = ctx.check
    p = ctx.crate("metrics_exporter_prometheus")
    crate_stats(chk, p)
    chk.rule("C18.a", "MPT gate: handle.render() is reachable in handle_http_request only under `if is_allowed` (exactly that flag); the other edge builds status 403 with an empty body; in process_tcp_stream the flag's provenance is check_tcp_allowed(&stream) (UDS passes the constant true); check_tcp_allowed: no list -> true, peer-address error -> false, else any(contains(ip)); /health -> OK", floor=6)
    chk.rule("C18.b", "isolation: the accept loops contain no return/break/?; accept errors continue; each connection is served inside tokio::spawn and its error is only logged; no panic (unwrap/expect) on the per-connection path before the spawn", floor=2)
    chk.rule("C18.c", "DOC documented syntaxes ('IP address or subnet'): add_allowed_address tries a network parser and an address parser, and a plain address becomes exactly the single-host network of its family", floor=2)
    chk.trust("hyper http1 server", "tokio::spawn", "ipnet::IpNet::{from_str,contains,from}")
    chk.residue.append("behaviour of hyper/tokio under garbage input and of IpNet::contains is trusted; rendering itself is C07/C08")

    # ---------------- C18.a
    hh = one_method(chk, "C18.a", p, HL, "handle_http_request")
    if hh and hh.hir:
        h = hh.hir
        from facts import walk_deep

        def deep(node):
            return list(walk_deep(p, node))

        def has_render(node):
            return any(n.get("k") in ("Call", "MethodCall") and is_call_to(n, "PrometheusHandle::render") for n in deep(node))

        # the allowlist verdict is the handler's first parameter (a bool), whatever it is called
        hp = hh.j.get("hir_params") or []
        first_name = hp[0].get("name") if hp and hp[0].get("k") == "Bind" else "is_allowed"
        flag_names, FLAG_FIELD = _handler_flag(p, hh, first_name)

        def is_flag(c, negated=False):
            c = peel(c)
            if negated:
                return c.get("k") == "Unary" and c.get("op") == "Not" and is_flag(c.get("a"))
            if c.get("k") == "Field" and FLAG_FIELD is not None:
                base = peel(c.get("base") or c.get("a") or {})
                return (c.get("field") or c.get("f") or c.get("name")) == FLAG_FIELD and base.get("k") == "Path" and base.get("name") == first_name
            return c.get("k") == "Path" and c.get("res") == "local" and c.get("name") in flag_names

        def refusal_ok(node):
            ns = deep(node)
            forb = any(n.get("k") == "Path" and (n.get("path") or "").endswith("StatusCode::FORBIDDEN") for n in ns)
            cs = [n for n in ns if n.get("k") in ("Call", "MethodCall")]
            empty = any(is_call_to(n, "Default::default", "Full<D>::default", "Empty<D>::new") for n in cs)
            # no text reaches the body: string literals elsewhere on the edge (the message of an `expect` on the builder, of
            # an assertion) are not content
            def _msg_only(lit):
                for c_ in cs:
                    if c_.get("k") == "MethodCall" and c_.get("name") in ("expect", "unwrap_or_else", "expect_err") and any(x is lit for a_ in (c_.get("args") or []) for x in deep(a_)):
                        return True
                    if is_foreign_exp(c_.get("exp")) and any(x is lit for x in deep(c_)):
                        return True
                return is_foreign_exp(lit.get("exp"))

            no_body = not any(is_call_to(n, "PrometheusHandle::render") for n in cs) and not any(n.get("k") == "Lit" and n.get("str") and not _msg_only(n) for n in ns)
            return forb and empty and no_body

        n_render = sum(1 for n in deep(h) if n.get("k") in ("Call", "MethodCall") and is_call_to(n, "PrometheusHandle::render"))
        ifs = [n for n in walk(h) if n.get("k") == "If" and not is_foreign_exp(n.get("exp"))]
        ok = False
        detail = "no `if is_allowed` / `if !is_allowed { return 403 }` around the response"
        allowed_region = None
        refusal = None
        # spelling 1: if is_allowed { serve } else { 403 }
        for g in ifs:
            if is_flag(g["cond"]) and has_render(g["then"]) and not (g.get("else") is not None and has_render(g["else"])):
                allowed_region, refusal = g["then"], g.get("else")
        # spelling 2: if !is_allowed { return 403 }  ...serve...
        if allowed_region is None:
            for blk in [n for n in walk(h) if n.get("k") == "Block"]:
                stmts = list(blk.get("stmts") or []) + ([blk["expr"]] if blk.get("expr") else [])
                for i, st in enumerate(stmts):
                    guards = [n for n in walk(st) if n.get("k") == "If" and is_flag(n["cond"], negated=True) and any(x.get("k") == "Ret" for x in walk(n["then"])) and not has_render(n["then"])]
                    if guards and not has_render(st) and any(has_render(x) for x in stmts[i + 1:]):
                        rest = {"k": "Block", "stmts": stmts[i + 1:]}
                        allowed_region, refusal = rest, guards[0]["then"]
                        # nothing is served before the guard
                        if any(has_render(x) for x in stmts[:i]):
                            allowed_region = None
                        break
                if allowed_region is not None:
                    break
        if n_render == 1 and allowed_region is not None:
            ok = True
            okr = refusal is not None and refusal_ok(refusal)
            chk.ob("C18.a", f"{hh.path} [refusal]", okr, "the not-allowed edge answers 403 with an empty body" if okr else "the not-allowed edge does not answer 403 with an empty body", hh.loc())
            oks = [n for n in deep(h) if n.get("k") == "Lit" and n.get("str") == "OK"]
            in_allowed = [n for n in deep(allowed_region) if n.get("k") == "Lit" and n.get("str") == "OK"]
            health = [n for n in deep(allowed_region) if n.get("k") == "Lit" and n.get("str") == "/health"]
            # "/health" is compared for equality (a match-arm pattern or an == operand), not as a prefix/substring
            exact = 0
            for n in deep(allowed_region):
                if n.get("k") == "Match":
                    exact += sum(1 for a_ in n["arms"] if a_["pat"].get("k") == "Lit" and a_["pat"].get("str") == "/health")
                if n.get("k") == "Binary" and n.get("op") in ("Eq", "Ne") and any(peel(n.get(x)).get("k") == "Lit" and peel(n.get(x)).get("str") == "/health" for x in ("a", "b")):
                    exact += 1
            okh = len(oks) == 1 and len(in_allowed) == 1 and exact >= 1 and len(health) == exact
            # ... and what is compared is the request's PATH: a target with a query (`/health?probe=readiness`) or in
            # absolute form still has the path /health
            wider = [n.get("name") for n in deep(allowed_region) if n.get("k") == "MethodCall" and n.get("name") in ("path_and_query", "query", "to_string") and "http::uri" in (n.get("def") or n.get("resolved") or "")]
            if okh and wider:
                okh = False
            chk.ob("C18.a", f"{hh.path} [/health]", okh, "/health -> OK, only for allowed peers; any other path -> render" if okh else "/health is not answered `OK` under the allowlist gate", hh.loc())
            # "a rendering of the metrics at that time": every value the non-/health answer can take is the result of the
            # render() made for this very request (not a copy kept from an earlier one)
            CONV = ("into", "unwrap", "expect", "clone", "to_string", "into_bytes", "freeze", "to_owned", "unwrap_or_default", "into_boxed_str", "to_vec")

            def _let_init(name, hid):
                for st in walk(h):
                    if st.get("k") in ("Let", "Local") and isinstance(st.get("pat"), dict) and st["pat"].get("k") == "Bind" and st["pat"].get("name") == name and st["pat"].get("id") == hid and st.get("init"):
                        return st["init"]
                return None

            def sources(e, depth=0):
                e = peel(e or {})
                k = e.get("k")
                if depth > 12:
                    return [e]
                if k == "Block":
                    return sources(e.get("expr"), depth + 1) if e.get("expr") else [e]
                if k == "Match" and (e.get("src") or "").startswith("Normal"):
                    return [x for a_ in e["arms"] for x in sources(a_["body"], depth + 1) if not _diverges(a_["body"])]
                if k == "If":
                    return sources(e.get("then"), depth + 1) + (sources(e.get("else"), depth + 1) if e.get("else") else [])
                if k == "MethodCall" and e.get("name") in CONV and e.get("recv") is not None:
                    return sources(e["recv"], depth + 1)
                if k == "Call" and len(e.get("args") or []) == 1 and is_call_to(e, "From::from", "Into::into", "Full<D>::new", "Bytes::from"):
                    return sources(e["args"][0], depth + 1)
                if k == "Path" and e.get("res") == "local":
                    init = _let_init(e.get("name"), e.get("id"))
                    if init is not None:
                        return sources(init, depth + 1)
                return [e]

            def _diverges(e):
                e = peel(e or {})
                return e.get("k") in ("Ret", "Break", "Continue") or (e.get("k") == "Block" and not e.get("expr") and any(peel(x.get("e") or x).get("k") == "Ret" for x in (e.get("stmts") or [])[-1:]))

            served = []
            for n in deep(allowed_region):
                if n.get("k") == "Match" and (n.get("src") or "").startswith("Normal") and any(a_["pat"].get("k") == "Lit" and a_["pat"].get("str") == "/health" for a_ in n["arms"]):
                    served = [a_["body"] for a_ in n["arms"] if not (a_["pat"].get("k") == "Lit" and a_["pat"].get("str") == "/health")]
            if served:
                leaves = [x for b_ in served for x in sources(b_)]
                stale = [x for x in leaves if not has_render(x)]
                chk.ob("C18.a", f"{hh.path} [body is this request's rendering]", bool(leaves) and not stale, f"{len(leaves)} value(s) the metrics answer can take, each the render() made for this request" if leaves and not stale else f"the metrics answer can be a value that is not the result of this request's render() (line {stale[0].get('ln') if stale else '?'}): a scrape is answered with an earlier rendering, missing updates made since", f"{hh.file}:{stale[0].get('ln') if stale else hh.line}", nontrivial=False)
            # "aborted requests never prevent later clients from being served": shared state changed before an await point is
            # not put back by a statement after it — a request future dropped at the await (client abort) never gets there
            ATW = ("swap", "store", "compare_exchange", "compare_exchange_weak", "fetch_or", "fetch_and", "fetch_add", "fetch_sub", "fetch_xor", "fetch_update")
            aw = sorted({n.get("ln") for n in walk(h) if n.get("k") == "Match" and (n.get("src") or "").startswith("AwaitDesugar") and n.get("ln")})
            wr = [n for n in walk(h) if n.get("k") == "MethodCall" and n.get("name") in ATW and "sync::atomic" in (n.get("def") or n.get("resolved") or "")]
            parked = [a_ for a_ in aw if any(w.get("ln", 0) <= a_ for w in wr) and any(w.get("ln", 0) > a_ for w in wr)]
            if aw:
                chk.ob("C18.a", f"{hh.path} [nothing parked across an await]", not parked, f"{len(aw)} await point(s), {len(wr)} atomic write(s) in the handler, none straddling an await" if not parked else f"shared atomic state is changed before the await at line {parked[0]} and restored by a statement after it: when a client aborts, the request future is dropped at the await and the state is never restored — every later request waits for it", f"{hh.file}:{parked[0] if parked else hh.line}", nontrivial=False)
        elif n_render != 1:
            detail = f"{n_render} render() call sites"
        chk.ob("C18.a", f"{hh.path} [gate]", ok, "metrics (and /health) are served only when is_allowed holds" if ok else f"the response is not gated by exactly the is_allowed flag ({detail}): a peer outside the allowlist can get a 200 answer", hh.loc())
    elif hh:
        chk.unrecognised("C18.a", f"{hh.path} [body]", "no typed tree for the async body", hh.loc())
    pts = one_method(chk, "C18.a", p, HL, "process_tcp_stream")
    if pts:
        cta = [c for c in nonforeign_calls(pts) if c.fn is pts and c.is_("HttpListeningExporter::check_tcp_allowed")]
        hr = [c for c in nonforeign_calls(pts) if c.is_("HttpListeningExporter::handle_http_request")]
        ok = len(cta) == 1 and len(hr) == 1 and is_param(arg_syms(cta[0])[0], 0) and is_param(sym_through(arg_syms(cta[0])[1]), 1)
        if ok:
            a0 = _flag_of(p, Sym(hr[0].fn).operand(hr[0].args[0]))
            ok = a0 is not None and "capture" in repr(a0) and sym_is_call(strip_sym(a0), "HttpListeningExporter::check_tcp_allowed")
        elif len(cta) == 1 and not hr:
            ok = _service_struct_flag(p, pts, lambda v: sym_is_call(strip_sym(v), "HttpListeningExporter::check_tcp_allowed"))
        chk.ob("C18.a", f"{pts.path} [flag provenance]", ok, "is_allowed = self.check_tcp_allowed(&stream), evaluated once per connection" if ok else "the flag handed to handle_http_request is not check_tcp_allowed(&stream) of this connection", pts.loc())
    pus = (p.method(HL, "process_uds_stream") or [None])[0]
    if pus:
        hr = [c for c in nonforeign_calls(pus) if c.is_("HttpListeningExporter::handle_http_request")]
        ok = len(hr) == 1 and (_flag_of(p, Sym(hr[0].fn).operand(hr[0].args[0])) or ())[:3] == ("const", "bool", True)
        if not hr:
            ok = _service_struct_flag(p, pus, lambda v: strip_sym(v)[:3] == ("const", "bool", True))
        chk.ob("C18.a", f"{pus.path} [UDS is always allowed]", ok, "UDS connections pass the documented constant true" if ok else "UDS connections do not pass `true`", pus.loc(), nontrivial=False)
    cta = one_method(chk, "C18.a", p, HL, "check_tcp_allowed")
    AF, NONE_LAB = _allowlist_field(p)
    chk.analysed["allowlist field"] = f"{AF} (no list = {NONE_LAB})"
    if cta:
        b = cta.body
        sy = Sym(cta)
        rets = []
        for i, k, s in b.stmts():
            if s["k"] == "assign" and s["p"]["l"] == 0 and not s["p"].get("pr"):
                rets.append((i, strip_sym(sy.rvalue(s["rv"], 0, frozenset()))))
        none_true = any(v[:3] == ("const", "bool", True) and any(lab == NONE_LAB and f"'{AF}'" in repr(dd) for dd, lab in gates(b, i)) for i, v in rets)
        mo = [c for c in nonforeign_calls(cta) if c.fn is cta and c.is_("Result<T, E>::map_or_else", "Result<T, E>::map_or", "Result<T, E>::is_ok_and")]
        err_false = False
        any_ok = False
        if len(mo) == 1:
            a = arg_syms(mo[0])
            pa = strip_sym(a[0])
            from_peer = sym_is_call(pa, "TcpStream::peer_addr") and is_param(sym_through(pa[2][0]), 1)
            cls = [strip_sym(x) for x in a[1:]]
            if mo[0].is_("Result<T, E>::map_or_else") and len(cls) == 2 and all(c[0] == "agg" and c[1] == "closure" for c in cls):
                ef, of = p.fn(cls[0][5]), p.fn(cls[1][5])
                er = strip_sym(Sym(ef).local(0)) if ef else None
                err_false = from_peer and er is not None and er[:3] == ("const", "bool", False)
                if of is not None:
                    names = [callee_method_name(c) for c in nonforeign_calls(of)]
                    any_ok = "any" in names and "contains" in names and "ip" in names and "all" not in names
                    cont = [c for c in nonforeign_calls(of) if callee_method_name(c) == "contains" and "ipnet" in (c.resolved or "")]
                    if cont:
                        ca = [Sym(cont[0].fn).operand(x) for x in cont[0].args]
                        any_ok = any_ok and "ip(" in sym_str(ca[1]) or any_ok and "capture" in repr(ca[1])
            elif mo[0].is_("Result<T, E>::map_or") and from_peer:
                err_false = strip_sym(a[1])[:3] == ("const", "bool", False)
        if not mo:
            # spelled with match / for: decide the same two facts on the control flow
            from facts import PredFlow

            def csw(subj, variant):
                if sym_is_call(subj, "TcpStream::peer_addr") and is_param(sym_through(strip_sym(subj)[2][0]), 1):
                    return {"Ok": "P", "Err": "N"}.get(variant)
                return None

            pf = PredFlow(cta, csw)
            on_err = [(i, v) for i, v in rets if pf.at(i) == "N"]
            err_false = bool(on_err) and all(v[:3] == ("const", "bool", False) for i, v in on_err)
            cont = [c for c in nonforeign_calls(cta) if callee_method_name(c) == "contains" and "ipnet" in (c.resolved or "")]
            if len(cont) == 1:
                ca = [Sym(cont[0].fn).operand(x) for x in cont[0].args]
                ip_ok = "ip(" in sym_str(ca[1]) and "peer_addr" in sym_str(ca[1])
                nets_ok = AF in sym_str(ca[0]) or "next(" in sym_str(ca[0])
                pc = PredFlow(cont[0].fn, lambda subj, v: None, lambda x: ("P", "N") if sym_is_call(x, "contains") and "ipnet" in str(strip_sym(x)[1]) else None)
                if cont[0].fn is cta:
                    # every value returned (other than "no allowlist -> true") is true only if a contains() said so
                    vals = []
                    for i, k, st in b.stmts():
                        if st["k"] == "assign" and st["p"]["l"] == 0 and not st["p"].get("pr") and pc.at(i) != "B":
                            if any(lab == NONE_LAB and f"'{AF}'" in repr(dd) for dd, lab in gates(b, i)):
                                continue
                            vals.append(pc._bool_rv(st["rv"], dict(pc._env_at(i, k)), pc.at(i)))
                    any_ok = ip_ok and nets_ok and bool(vals) and all(v[0] in ("P", "B") for v in vals) and any(v[0] == "P" for v in vals) and any(v[1] != "B" for v in vals)
                else:
                    names = [callee_method_name(c) for c in nonforeign_calls(cta)]
                    any_ok = ip_ok and "any" in names and "all" not in names
        # the address that is tested is the peer's address itself, not something computed from it
        from props.common import transformations

        for c_ in [c for c in nonforeign_calls(cta) if callee_method_name(c) == "contains" and "ipnet" in (c.resolved or "")]:
            tr = transformations(Sym(c_.fn).operand(c_.args[1]))
            if tr is None or not set(tr) <= {"ip", "peer_addr"} or "ip" not in tr:
                any_ok = False
        panics = [c for c in nonforeign_calls(cta) if callee_method_name(c) in ("unwrap", "expect", "unwrap_unchecked")]
        chk.ob("C18.a", f"{cta.path} [no allowlist -> allowed]", none_true, "without an allowlist every peer is allowed" if none_true else "check_tcp_allowed does not return true when no allowlist is configured", cta.loc())
        chk.ob("C18.a", f"{cta.path} [peer address error -> refused]", err_false and not panics, "a peer whose address cannot be obtained is refused (fail closed), without panicking" if err_false and not panics else "a failing peer_addr() is not mapped to `refuse`: the accept loop either fails open or panics (one reset connection kills the endpoint)", cta.loc())
        chk.ob("C18.a", f"{cta.path} [membership]", any_ok, "allowed iff any listed network contains the peer's IP" if any_ok else "membership is not `any(net.contains(peer ip))` on the peer's own address (a rewritten address can land inside / outside a listed network)", cta.loc())

    # ---------------- C18.b
    for fname in ("serve_tcp", "serve_uds"):
        f = (p.method(HL, fname) or [None])[0]
        if f is None:
            if fname == "serve_tcp":
                chk.unrecognised("C18.b", f"<anchor> {fname}", "missing")
            continue
        h = f.hir
        loops = [n for n in walk(h) if n.get("k") == "Loop" and n.get("src") == "Loop" and not is_foreign_exp(n.get("exp"))]
        ok = len(loops) >= 1
        detail = "no accept loop"
        if ok:
            lp = loops[0]
            bad = []
            for n in walk(lp["body"]):
                if is_foreign_exp(n.get("exp")) or (n.get("exp") or "").startswith("desugar:Await"):
                    continue
                if n.get("k") == "Ret":
                    bad.append("return")
                if n.get("k") == "Break" and not (n.get("exp") or "").startswith("desugar"):
                    bad.append("break")
                if n.get("k") == "Match" and n.get("src", "").startswith("TryDesugar"):
                    bad.append("?")
            conts = [n for n in walk(lp["body"]) if n.get("k") == "Continue"]
            procs = [n for n in calls_in(lp["body"]) if is_call_to(n, "HttpListeningExporter::process_tcp_stream", "HttpListeningExporter::process_uds_stream")]
            ok = not bad and len(procs) == 1
            detail = f"loop exits: {bad}, continue on accept error: {len(conts)}, per-connection handler calls: {len(procs)}"
        chk.ob("C18.b", f"{f.path} [accept loop never exits]", ok, "the accept loop has no return/break/?: an accept error only skips that connection" if ok else f"the accept loop can terminate ({detail}): a failing accept would stop serving later clients", f.loc())
    for fname in ("process_tcp_stream", "process_uds_stream"):
        f = (p.method(HL, fname) or [None])[0]
        if f is None:
            continue
        sp = [c for c in nonforeign_calls(f) if c.fn is f and c.is_("tokio::task::spawn::spawn", "tokio::spawn", "task::spawn")]
        pre = [c for c in nonforeign_calls(f) if c.fn is f and callee_method_name(c) in ("unwrap", "expect", "block_on")]
        ok = len(sp) == 1 and not pre
        chk.ob("C18.b", f"{f.path} [served in its own task]", ok, "the connection is served inside tokio::spawn; nothing on the accept path can panic or block" if ok else "a connection is served on the accept path (or an unwrap/expect precedes the spawn): one bad connection stalls or kills the endpoint", f.loc())

    # the configured allowlist reaches the listener whatever the order of the builder calls: no other builder method
    # overwrites the place add_allowed_address collects the networks in, and build() hands that very place to the listener
    chk.rule("C18.d", "OWN builder allowlist: the place add_allowed_address pushes into is written by no other by-value builder method (a listener chosen afterwards does not reset it), and build() passes it to new_http_listener", floor=2)
    aa_ = (p.method(PB, "add_allowed_address") or [None])[0]
    apath = None
    if aa_ is not None:
        for c in nonforeign_calls(aa_):
            if c.fn is aa_ and c.is_("Vec<T, A>::push"):
                for x in sym_walk(arg_syms(c)[0]):
                    fp = _place_path(x) if isinstance(x, tuple) and x and x[0] == "field" else None
                    if fp and (apath is None or len(fp) > len(apath)):
                        apath = fp
    if apath is None:
        chk.unrecognised("C18.d", "<anchor> add_allowed_address", "cannot see where the allowed networks are collected")
    else:
        writers = []
        for f in p.fns:
            if strip_generics(f.j.get("impl_self", "")) != PB or f.dk != "AssocFn" or f is aa_ or "::tests::" in f.path:
                continue
            b = f.body
            if b.argc < 1 or "PrometheusBuilder" not in b.local_ty(1) or b.local_ty(1).lstrip().startswith("&"):
                continue
            from props.common import pointers_to

            roots = {1} | pointers_to(b, 1)
            for i, k, st in b.stmts():
                if st["k"] != "assign" or st["p"]["l"] not in roots:
                    continue
                names = tuple(e.get("f") for e in (st["p"].get("pr") or []) if isinstance(e, dict) and "f" in e)
                if not names and st["p"]["l"] == 1 and st["p"].get("pr"):
                    continue
                n = min(len(names), len(apath))
                if names[:n] == apath[:n] and (names or st["p"]["l"] == 1):
                    # a write that covers (part of) the allowlist's place: fine only if it puts the old content back
                    v = repr(Sym(f).rvalue(st["rv"], 0, frozenset()))
                    keeps = all(f"'{x}'" in v for x in apath) and "('arg', 0" in v
                    if not keeps:
                        writers.append((f, st.get("ln", 0)))
        okw = not writers
        chk.ob("C18.d", f"{PB} [allowlist place .{'.'.join(apath)}]", okw, "only add_allowed_address writes the place the allowed networks are collected in" if okw else f"{writers[0][0].name} (line {writers[0][1]}) overwrites the place the allowed networks are collected in: an allowlist configured before that call is silently dropped and every peer is served", writers[0][0].loc() if writers else (aa_.loc() if aa_ else ""))
        bl = (p.method(PB, "build") or [None])[0]
        if bl is not None:
            nl = [c for c in nonforeign_calls(bl) if c.is_("http_listener::new_http_listener")]
            okb = len(nl) == 1 and len(arg_syms(nl[0])) >= 3
            if okb:
                fp = None
                for x in sym_walk(arg_syms(nl[0])[2]):
                    q = field_path(x) if isinstance(x, tuple) and x and x[0] == "field" else None
                    if q and q[0] == 0 and tuple(q[1]) == apath:
                        fp = q
                okb = fp is not None
            where = nl[0].loc() if nl else bl.loc()
            if not nl:
                # new_http_listener is spliced into build(): the listener object itself is built here
                for g in bl.region():
                    gsy = Sym(g)
                    for i, k, st in g.body.stmts():
                        if st["k"] == "assign" and st["rv"]["k"] == "agg" and (st["rv"].get("adt") or "").endswith("HttpListeningExporter"):
                            nl = [st]
                            for op in st["rv"].get("ops") or []:
                                for x in sym_walk(gsy.operand(op)):
                                    q = field_path(x) if isinstance(x, tuple) and x and x[0] == "field" else None
                                    if q and q[0] == 0 and tuple(q[1]) == apath and g is bl:
                                        okb = True
            if nl:
                chk.ob("C18.d", f"{bl.path} [allowlist handed to the listener]", okb, "new_http_listener receives the collected networks" if okb else "build() does not hand the collected networks to new_http_listener", where)
        # ... and the listener keeps the list it is given: the exporter's allowlist field is the parameter itself (entries
        # are not filtered away, and an emptied list does not silently become `no list`, which admits everyone)
        nhl = p.fn("metrics_exporter_prometheus::exporter::http_listener::new_http_listener")
        if nhl is not None:
            nsy = Sym(nhl)
            for i_, k_, st in nhl.body.stmts():
                if st["k"] == "assign" and st["rv"]["k"] == "agg" and (st["rv"].get("adt") or "").endswith("HttpListeningExporter"):
                    for fname_, op_ in zip(st["rv"].get("fields") or [], st["rv"].get("ops") or []):
                        if "allow" not in fname_:
                            continue
                        v_ = nsy.operand(op_)
                        from props.common import transformations

                        tr_ = transformations(v_)
                        okk = tr_ == [] and sym_arg(strip_sym(sym_through(v_, "Into::into", "From::from", "Option<T>::map"))) is not None or sym_arg(strip_sym(v_)) is not None
                        chk.ob("C18.d", f"{nhl.path} [allowlist kept as given]", okk, "the exporter's allowlist is the parameter unchanged" if okk else f"the listener stores {sym_str(v_)[:80]} instead of the list it was given: listed networks can be dropped, and a list that ends up empty is treated as `no allowlist` — every peer is served", f"{nhl.file}:{st.get('ln')}", nontrivial=False)

    # "a GET on any path": the connection builder is not given a limit that rejects well-formed requests (a cap on the read
    # buffer or on the header count turns a long path / many headers into 431 instead of the rendering)
    LIMITS = ("max_buf_size", "max_headers", "set_linger", "set_zero_linger")
    caps = []
    for f_ in p.fns:
        if "exporter::http_listener" not in f_.path or "::tests::" in f_.path:
            continue
        if f_.hir:
            from facts import walk as _w

            caps += [(f_, n) for n in _w(f_.hir) if n.get("k") == "MethodCall" and n.get("name") in LIMITS and ("hyper" in (n.get("def") or n.get("resolved") or "") or "linger" in (n.get("name") or ""))]
        elif f_.j.get("mir"):
            caps += [(f_, {"ln": c.line, "name": callee_method_name(c)}) for c in f_.body.calls() if callee_method_name(c) in LIMITS and ("hyper" in (c.resolved or "") or "linger" in callee_method_name(c))]
    chk.ob("C18.a", "http_listener [no request-size limit on the connection]", not caps, "the HTTP/1 connection builder is used with hyper's own limits" if not caps else (f"the connection builder is given {caps[0][1].get('name')}(): requests whose head exceeds it (a long path or query, bulky headers) are answered 431 with an empty body instead of 200 with the rendering" if "linger" not in str(caps[0][1].get('name')) else f"accepted connections get {caps[0][1].get('name')}(): closing with unsent data becomes an abortive close, so a large rendering is cut short for a client that reads slowly"), f"{caps[0][0].file}:{caps[0][1].get('ln')}" if caps else "metrics-exporter-prometheus/src/exporter/http_listener.rs", nontrivial=False)

    # ---------------- C18.c
    aa = one_method(chk, "C18.c", p, PB, "add_allowed_address")
    if aa:
        calls = nonforeign_calls(aa)
        net = [c for c in calls if c.is_("FromStr::from_str", "str::parse", "<impl str>::parse") and "IpNet" in (c.resolved or "") + repr(c.t.get("gargs")) + (c.t.get("self_ty") or "")]
        adr = [c for c in calls if c.is_("FromStr::from_str", "str::parse", "<impl str>::parse") and "IpAddr" in (c.resolved or "") + repr(c.t.get("gargs")) + (c.t.get("self_ty") or "")]
        ok = len(net) >= 1 and len(adr) >= 1
        chk.ob("C18.c", f"{aa.path} [both syntaxes]", ok, "tries IpNet::from_str (CIDR) and IpAddr::from_str (plain address)" if ok else f"add_allowed_address parses only {'CIDR' if net else 'plain addresses' if adr else 'nothing'}: the documented 'IP address or subnet' is not accepted", aa.loc())
        # every successfully parsed entry is listed: the push is conditional on the parse result only (a `skip what is already
        # covered` test decides membership of later peers and must not drop a wider block)
        pushes_ = [c for c in calls if c.fn is aa and c.is_("Vec<T, A>::push", "Vec<T>::push")]
        for pc in pushes_:
            cond = []
            for dd, lab in gates(aa.body, pc.bb):
                d_ = strip_sym(dd)
                while isinstance(d_, tuple) and d_ and d_[0] == "un" and d_[1] == "Not":
                    d_ = strip_sym(d_[2])
                if isinstance(lab, bool) and isinstance(d_, tuple) and d_ and d_[0] == "call" and isinstance(d_[1], str) and strip_generics(d_[1]).split("::")[-1] in ("any", "all", "contains", "position", "find", "is_some", "is_none") and ("allowed" in sym_str(d_) or "iter" in sym_str(d_)):
                    cond.append(sym_str(d_)[:60])
            chk.ob("C18.d", f"{aa.path} [every parsed entry listed]", not cond, "the parsed network is pushed unconditionally" if not cond else f"the parsed network is only listed under `{cond[0]}`: an entry judged redundant is dropped, and peers it alone covers are refused", pc.loc(), nontrivial=False)
        conv = [c for c in calls if c.is_("From::from", "Into::into") and "IpNet" in (c.resolved or "") + (c.t.get("self_ty") or "") + repr(c.t.get("gargs"))]
        mapped = any(isinstance(x, tuple) and x[:2] == ("const", "fn") and "From" in str(x[2]) for c in calls for a in arg_syms(c) for x in sym_walk(a))
        newc = [c for c in calls if c.is_("IpNet::new", "Ipv4Net::new", "Ipv6Net::new", "IpNet::new_assert")]
        okc = (bool(conv) or mapped) and not newc
        chk.ob("C18.c", f"{aa.path} [plain address = single host]", okc, "a plain address becomes IpNet::from(addr): the /32 resp. /128 host network" if okc else "a plain address is not converted with IpNet::from(addr): a fixed prefix length (e.g. 32) turns an IPv6 address into a huge block that admits foreign peers", aa.loc())


def run_config(ctx):
    run(ctx)
