"""C16 — the sampling reservoir reports true counts and favours no stream position."""
from facts import Sym, path_is, strip_generics, strip_sym, sym_arg, sym_calls, sym_is_call, sym_str, sym_through, sym_walk
from props.common import is_plain_write, arg_syms, atomic_ops, bool_switches, callee_method_name, calls_to, crate_stats, enum_arms, gates, in_cycle, need, nonforeign_calls, one_method, has_panic_path

KEEP = [  # private helpers the rules name (kept as functions); every other non-exported, non-trait function is spliced into its callers
    "Block::len", "Block::push", "MetricKindMask::value", "Reservoir::drain",
    "Reservoir::push", "reservoir::fastrand", "Reservoir::with_capacity",
]
TITLE = "C16 the sampling reservoir reports true counts and favours no stream position."
CONFIGS = ["test-profile", "util-storage"]
R = "metrics_util::storage::reservoir"


def is_param(s, i):
    a = sym_arg(s)
    return a is not None and a[0] == i


def const_int(s):
    s = strip_sym(s)
    return s[2] if s[:2] == ("const", "int") else None


def self_field(s, field):
    s = strip_sym(s)
    return isinstance(s, tuple) and s and s[0] == "field" and s[2] == field and is_param(s[1], 0)


DF = {"unsampled_len": "unsampled_len", "len": "len", "idx": "idx"}


def run(ctx):
    chk = ctx.check
    u = ctx.crate("metrics_util")
    crate_stats(chk, u)
    chk.rule("C16.a", "RANGE+provenance Algorithm R bound: the replacement index is drawn from 0..=i where i is the pre-increment count, i.e. the exclusive bound handed to the RNG is (count.fetch_add(1) result) + 1, hence >= 1; fastrand draws from 0..upper", floor=2)
    chk.rule("C16.b", "TBL fill, clamp, reset: fill branch idx < len stores at idx; a replacement is stored only if the drawn index < len; drain length = min(count, capacity); sample_rate = 1.0 when equal else len / unsampled_len; Drop for Drain resets count; consume holds the mutex, flips use_primary and drains the previously active side; push and consume agree on true <-> primary", floor=7)
    chk.trust("rand::Rng::random_range", "AtomicUsize/AtomicU64/AtomicBool", "std::sync::Mutex")
    chk.residue.append("the statistical claim itself (each position retained with probability capacity/n) and pushes racing a drain are NOT decided; C16.a is the necessary bound of Algorithm R")

    # the generator behind the replacement draw differs from thread to thread and run to run: it is seeded from an entropy
    # source, never from a constant (with a fixed seed every fresh thread keeps the very same stream positions)
    seeders = []
    for f in list(getattr(u, "raw_fns", None) or u.fns):
        if "storage::reservoir" not in f.path or "::tests::" in f.path or not f.j.get("mir"):
            continue
        for c in f.body.calls():
            r_ = c.resolved or c.callee or ""
            if "SeedableRng" in r_ or ("rand" in r_ and strip_generics(r_).split("::")[-1] in ("seed_from_u64", "from_seed", "from_rng", "try_from_rng", "from_os_rng", "try_from_os_rng", "from_entropy")):
                seeders.append((f, c, strip_generics(r_).split("::")[-1]))
    if not seeders:
        chk.unrecognised("C16.a", "<anchor> RNG seeding in storage::reservoir", "no SeedableRng constructor call found")
    else:
        ENTROPY = ("try_from_rng", "from_rng", "from_os_rng", "try_from_os_rng", "from_entropy")
        bad = []
        for f, c, n in seeders:
            a = [strip_sym(Sym(f).operand(x)) for x in c.args]
            const_seed = n in ("seed_from_u64", "from_seed") and all(not any(isinstance(y, tuple) and y and y[0] in ("arg", "call", "capture") for y in sym_walk(x)) for x in a)
            src_ok = n in ENTROPY and any("OsRng" in repr(x) or "ThreadRng" in repr(x) or "thread_rng" in repr(x) or "SysRng" in repr(x) for x in a) or n in ("from_os_rng", "try_from_os_rng", "from_entropy")
            if const_seed or not (src_ok or n in ("seed_from_u64", "from_seed") and not const_seed):
                bad.append((f, c, n))
        chk.ob("C16.a", "storage::reservoir [generator seeded from entropy]", not bad, f"{len(seeders)} generator construction(s), seeded from the OS / thread entropy source" if not bad else f"the generator is constructed with {bad[0][2]} from a fixed seed: every thread draws the identical sequence, so over independent trials on fresh threads the same stream positions are always the ones retained", bad[0][1].loc() if bad else seeders[0][1].loc(), nontrivial=False)
    RES = f"{R}::Reservoir"
    push = one_method(chk, "C16.a", u, RES, "push")
    if push:
        b = push.body
        fr = [c for c in nonforeign_calls(push) if c.fn is push and c.is_(f"{R}::fastrand")]
        claim = [o for o in atomic_ops(push) if self_field(o[2], "count")]
        ok = len(fr) == 1 and len(claim) == 1 and claim[0][1] == "fetch_add" and const_int(claim[0][3][1]) == 1
        detail = ""
        if ok:
            bound = strip_sym(arg_syms(fr[0])[0])
            # accepted idioms: idx + 1, idx.saturating_add(1), idx.wrapping_add(1).max(1), checked variants
            def plus_one(x):
                x = strip_sym(x)
                if x[0] == "field" and x[2] == "0":
                    x = strip_sym(x[1])
                if x[0] == "bin" and x[1].startswith("Add"):
                    return (sym_is_call(strip_sym(x[2]), "fetch_add") and const_int(x[3]) == 1) or (sym_is_call(strip_sym(x[3]), "fetch_add") and const_int(x[2]) == 1)
                if sym_is_call(x, "saturating_add", "wrapping_add", "checked_add", "unchecked_add"):
                    return sym_is_call(strip_sym(x[2][0]), "fetch_add") and const_int(x[2][1]) == 1
                if sym_is_call(x, "Ord::max", "max"):
                    return any(plus_one(y) for y in x[2])
                return False
            ok = plus_one(bound)
            detail = sym_str(bound)[:90]
        # every push is counted, whatever the capacity: the claim lies on every path through push (the reported sample rate is
        # yielded / pushed — a zero-capacity reservoir that stops counting reports 1.0 for values it never kept)
        if len(claim) == 1:
            uncounted = [r for r in b.return_blocks() if r in b.reachable(0, cut={claim[0][0].bb})]
            chk.ob("C16.b", f"{push.path} [every push counted]", not uncounted, "count.fetch_add(1) on every path through push" if not uncounted else "a push can return without being counted (an early return ahead of count.fetch_add): the sample rate reported by the next drain is not yielded / pushed", claim[0][0].loc(), nontrivial=False)
        chk.ob("C16.a", f"{push.path} [RNG bound]", ok, f"replacement index drawn from 0..({detail}) = 0..=i" if ok else f"the exclusive bound handed to the RNG is `{detail}`: Algorithm R needs (pre-increment count) + 1 — with the count itself position i is kept with k/i instead of k/(i+1), and a zero-capacity reservoir samples the empty range 0..0 and panics", fr[0].loc() if fr else push.loc())
        # ---------------- C16.b fill / replace
        stores = [o for o in atomic_ops(push) if o[1] == "store"]
        sy_ = Sym(push)

        def offset(x):
            """k if x is (the claimed pre-increment count) + k for a constant k, else None"""
            x = strip_sym(x)
            if x[0] == "field" and x[2] == "0":
                x = strip_sym(x[1])
            if sym_is_call(x, "fetch_add"):
                return 0
            if x[0] == "bin" and x[1][:3] in ("Add", "Sub"):
                sgn = 1 if x[1].startswith("Add") else -1
                k0, k1 = const_int(x[3]), const_int(x[2])
                if k0 is not None and offset(x[2]) is not None:
                    return offset(x[2]) + sgn * k0
                if k1 is not None and sgn == 1 and offset(x[3]) is not None:
                    return offset(x[3]) + k1
                return None
            for nm_, sgn in (("saturating_add", 1), ("wrapping_add", 1), ("checked_add", 1), ("unchecked_add", 1), ("saturating_sub", -1), ("wrapping_sub", -1)):
                if sym_is_call(x, nm_) and len(x[2]) == 2 and const_int(x[2][1]) is not None and offset(x[2][0]) is not None:
                    return offset(x[2][0]) + sgn * const_int(x[2][1])
            return None

        def lt_len(dd, who):
            dd = strip_sym(dd)
            if not (isinstance(dd, tuple) and dd and dd[0] == "bin" and who in sym_str(dd[2]) and "len" in sym_str(dd[3])):
                return False
            if who != "fetch_add":
                return dd[1] == "Lt"
            # filling: (claimed position) < len, also spelled (claimed position + 1) <= len
            k = offset(dd[2])
            return (dd[1] == "Lt" and k == 0) or (dd[1] == "Le" and k == 1)

        def index_alts(l, at_bb, depth=0):
            """Where the index of a `values[i]` can come from: [(block deciding the alternative, operand, filter closures)].
            Follows `if let Some(i) = slot` back to the definitions of `slot` (Some(x), None, Some(x).filter(pred))."""
            out = []
            ds = b.defs().get(l, [])
            if len(ds) == 1 and ds[0][0] == "assign" and ds[0][3]["rv"]["k"] == "use" and depth < 5:
                src = ds[0][3]["rv"]["a"].get("copy") or ds[0][3]["rv"]["a"].get("move")
                if src is not None and src.get("pr") and "Some" in repr(src["pr"]):
                    for d in b.defs().get(src["l"], []):
                        out += option_alts(d, depth + 1)
                    return out
                if src is not None and not src.get("pr") and src["l"] > b.argc and len(b.defs().get(src["l"], [])) == 1 and b.defs()[src["l"]][0][0] == "assign":
                    return index_alts(src["l"], at_bb, depth + 1)
            return [(at_bb, {"copy": {"l": l}}, ())]

        def option_alts(d, depth):
            if d[0] == "assign":
                rv = d[3]["rv"]
                if rv["k"] == "agg" and rv.get("variant") == "Some" and rv.get("ops"):
                    return [(d[1], rv["ops"][0], ())]
                if rv["k"] == "agg" and rv.get("variant") == "None":
                    return []
                if rv["k"] == "use":
                    q = rv["a"].get("copy") or rv["a"].get("move")
                    if q is not None and not q.get("pr") and depth < 5:
                        out = []
                        for d2 in b.defs().get(q["l"], []):
                            out += option_alts(d2, depth + 1)
                        return out
            if d[0] == "call" and path_is(d[3].get("resolved") or "", "Option<T>::filter") and depth < 5:
                q = d[3]["args"][0].get("copy") or d[3]["args"][0].get("move")
                out = []
                if q is not None and not q.get("pr"):
                    for d2 in b.defs().get(q["l"], []):
                        for bb_, op_, fl_ in option_alts(d2, depth + 1):
                            out.append((d[1], op_, fl_ + (strip_sym(sy_.operand(d[3]["args"][1])),)))
                return out
            return [(d[1], None, ())]

        fills, repls, okf, whyf = [], [], bool(stores), ""
        for o in stores:
            rdef = b.defs().get((o[0].args[0].get("move") or o[0].args[0].get("copy") or {}).get("l"), [])
            idxl = None
            if len(rdef) == 1 and rdef[0][0] == "assign" and rdef[0][3]["rv"]["k"] == "ref":
                idxl = next((e["idx"] for e in rdef[0][3]["rv"]["p"].get("pr") or [] if isinstance(e, dict) and "idx" in e), None)
            if idxl is None and "'values'" in repr(o[2]):
                # checked access: `match self.values.get(i) { Some(slot) => slot.store(..), None => .. }` — the Some edge of
                # get(i) is the test i < len, its None edge the negation
                recv_ = strip_sym(o[2])
                gets_ = [x for x in sym_walk(recv_) if isinstance(x, tuple) and x and x[0] == "call" and sym_is_call(x, "get") and len(x[2]) == 2 and "'values'" in repr(x[2][0])]
                if len(gets_) == 1:
                    if not (sym_is_call(strip_sym(o[3][1]), "to_bits") and is_param(strip_sym(strip_sym(o[3][1])[2][0]), 1)):
                        okf, whyf = False, "a slot is written with something other than value.to_bits()"
                        break
                    ix_ = strip_sym(gets_[0][2][1])
                    g_ = gates(b, o[0].bb)

                    def _on(getcall_pred, lab_want):
                        return any(lab == lab_want and sym_is_call(strip_sym(dd), "get") and "'values'" in repr(strip_sym(dd)[2][0]) and getcall_pred(strip_sym(strip_sym(dd)[2][1])) for dd, lab in g_)

                    if "fastrand" in sym_str(ix_):
                        repls.append(_on(lambda i_: "fastrand" in sym_str(i_), "Some") and _on(lambda i_: offset(i_) == 0 and "fastrand" not in sym_str(i_), "None"))
                    elif offset(ix_) == 0:
                        fills.append(_on(lambda i_: offset(i_) == 0 and "fastrand" not in sym_str(i_), "Some"))
                    else:
                        okf, whyf = False, f"a slot index that is neither the claimed position nor the drawn one ({sym_str(ix_)[:50]})"
                    continue
            if idxl is None or "'values'" not in repr(o[2]):
                okf, whyf = False, "a store whose slot is not values[<index>]"
                break
            if not (sym_is_call(strip_sym(o[3][1]), "to_bits") and is_param(strip_sym(strip_sym(o[3][1])[2][0]), 1)):
                okf, whyf = False, "a slot is written with something other than value.to_bits()"
                break
            here = gates(b, o[0].bb)
            for bb_, op_, filters in index_alts(idxl, o[0].bb):
                if op_ is None:
                    okf, whyf = False, "cannot see where a slot index comes from"
                    continue
                v = strip_sym(sy_.operand(op_))
                g_ = here + (gates(b, bb_) if bb_ != o[0].bb else [])
                if any("('arg', 1" in repr(dd) for dd, lab in g_):
                    # whether a position is retained never depends on the VALUE pushed there ("for any value": a NaN is
                    # retained with probability capacity/n like everything else)
                    okf, whyf = False, "whether a slot is written depends on the pushed value itself: positions holding such values are retained with a different probability than the others"
                    continue
                if "fastrand" in sym_str(v):
                    in_range = any(lab is True and lt_len(dd, "fastrand") for dd, lab in g_)
                    for f_ in filters:
                        cf = u.fn(f_[5]) if f_[0] == "agg" and f_[1] == "closure" else None
                        r_ = strip_sym(Sym(cf).local(0)) if cf else None
                        if r_ is not None and r_[0] == "bin" and r_[1] == "Lt" and "('arg', 1" in repr(r_[2]) and "len" in sym_str(r_[3]) and "'values'" in repr(r_[3]):
                            in_range = True
                    not_filling = any(lab is False and lt_len(dd, "fetch_add") and "fastrand" not in sym_str(dd) for dd, lab in g_)
                    repls.append(in_range and not_filling)
                elif "fetch_add" in sym_str(v) and offset(v) not in (0, None):
                    okf, whyf = False, f"a value of the fill phase is stored at (claimed position){offset(v):+d}"
                elif sym_is_call(v, "fetch_add") or "fetch_add" in sym_str(v):
                    fills.append(any(lab is True and lt_len(dd, "fetch_add") and "fastrand" not in sym_str(dd) for dd, lab in g_))
                else:
                    okf, whyf = False, f"a slot index that is neither the claimed position nor the drawn one ({sym_str(v)[:50]})"
        okf = okf and fills == [True] and repls == [True]
        chk.ob("C16.b", f"{push.path} [fill / replace]", okf, "idx < len: store at idx; otherwise store at the drawn index only if it is < len; value = value.to_bits()" if okf else (whyf or "push does not fill exactly while (values seen before this one) < capacity and otherwise replace only in-range drawn indexes: the value that should take the last free slot overwrites a random one, or a slot beyond the claim is written"), push.loc())
    fr_f = u.fn(f"{R}::fastrand")
    if need(chk, "C16.a", "fastrand", fr_f):
        rr = [c for c in fr_f.region_calls() if callee_method_name(c) in ("random_range", "gen_range")]
        ok = len(rr) == 1
        if ok:
            rng = strip_sym(Sym(rr[0].fn).operand(rr[0].args[1]))
            ok = rng[0] == "agg" and (rng[5] or "").endswith("ops::range::Range") and const_int(rng[3][0]) == 0 and "capture" in repr(rng[3][1]) or (rng[0] == "agg" and const_int(rng[3][0]) == 0 and is_param(strip_sym(rng[3][1]), 0))
        if ok:
            # ... drawn from the thread's generator itself, so that its state advances: a copy of the generator yields the same
            # raw word on every call and the accepted positions are the same every time
            recv_ = Sym(rr[0].fn).operand(rr[0].args[0])
            copied = [x for x in sym_walk(recv_) if isinstance(x, tuple) and x and x[0] == "call" and isinstance(x[1], str) and strip_generics(x[1]).split("::")[-1] in ("clone", "cloned", "to_owned", "copied")]
            if copied:
                ok = False
                chk.ob("C16.a", f"{fr_f.path} [generator advanced]", False, "the draw is made from a clone of the thread-local generator: its state never advances, so every push on a thread sees the same raw random word and retention depends on stream position", rr[0].loc(), nontrivial=False)
        chk.ob("C16.a", fr_f.path, ok, "fastrand(upper) = rng.random_range(0..upper)" if ok else "fastrand does not draw uniformly from 0..upper", fr_f.loc())
    drain = one_method(chk, "C16.b", u, RES, "drain")
    if drain:
        r = strip_sym(Sym(drain).local(0))
        if r[0] == "phi":
            # several return sites each building the Drain (early return for the not-over-filled case): field-wise alternatives
            alts_ = [strip_sym(x) for x in r[1]]
            if alts_ and all(a_[0] == "agg" and a_[1:3] == alts_[0][1:3] and a_[4] == alts_[0][4] and len(a_[3]) == len(alts_[0][3]) for a_ in alts_):
                cols = []
                for i_ in range(len(alts_[0][3])):
                    vals = []
                    for a_ in alts_:
                        if repr(strip_sym(a_[3][i_])) not in [repr(strip_sym(v)) for v in vals]:
                            vals.append(a_[3][i_])
                    cols.append(vals[0] if len(vals) == 1 else ("phi", tuple(vals)))
                r = (alts_[0][0], alts_[0][1], alts_[0][2], tuple(cols)) + tuple(alts_[0][4:])
        # Drain's private counters by role (names are the fallback): the field initialised from count.load() is the
        # number of pushes, the one initialised with 0 the cursor, the remaining integer the number of retained values
        if r[0] == "agg":
            for nm_, v_ in zip(r[4], r[3]):
                v_ = strip_sym(v_)
                if sym_is_call(v_, "load") and "'count'" in repr(v_):
                    DF["unsampled_len"] = nm_
                elif const_int(v_) == 0:
                    DF["idx"] = nm_
                    DF.pop("_range", None)
                elif v_[0] == "agg" and (v_[5] or "").endswith("ops::range::Range") and len(v_[3]) == 2 and const_int(v_[3][0]) == 0:
                    DF["idx"] = nm_  # the cursor is kept as the range 0..len of slots still to be yielded
                    DF["_range"] = repr(strip_sym(v_[3][1]))
            rest_ = [nm_ for nm_, v_ in zip(r[4], r[3]) if nm_ not in (DF["unsampled_len"], DF.get("idx")) and not (strip_sym(v_)[0] == "arg")]
            if len(rest_) == 1:
                DF["len"] = rest_[0]
        ok = r[0] == "agg" and DF["len"] in r[4] and DF["unsampled_len"] in r[4]
        if ok:
            f = dict(zip(r[4], r[3]))
            un = strip_sym(f[DF["unsampled_len"]])
            ln = strip_sym(f[DF["len"]])
            ok = sym_is_call(un, "load") and self_field(strip_sym(un[2][0]), "count")
            if sym_is_call(ln, "Ord::min", "cmp::min", "usize::min"):
                alts = [strip_sym(x) for x in ln[2]]
                cmp_ok = True
            else:
                alts = ln[1] if ln[0] == "phi" else [ln]
                cmp_ok = any(strip_sym(dd)[0] == "bin" and strip_sym(dd)[1] in ("Gt", "Lt", "Ge", "Le") for bb, dd, t_, f_ in bool_switches(drain.body))
            ok = ok and len(alts) == 2 and any(sym_is_call(strip_sym(a), "len") and "'values'" in repr(a) for a in alts) and any(repr(strip_sym(a)) == repr(un) for a in alts)
            ok = ok and DF.get("idx") in f and (const_int(f[DF["idx"]]) == 0 or (DF.get("_range") is not None and DF["_range"] == repr(ln)))
            ok = ok and cmp_ok
        chk.ob("C16.b", drain.path, ok, "drain: unsampled_len = count.load(); len = min(count, capacity); idx = 0" if ok else "drain does not clamp its length to min(count, capacity)", drain.loc())
    D = f"{R}::Drain"
    # the capacity asked for is the capacity used: between the constructor's parameter and the slots allocated there is no
    # arithmetic (rounding, +1, max, ...), in either constructor
    ARITH = ("Add", "Sub", "Mul", "Div", "Rem", "Shl", "Shr", "BitAnd", "BitOr", "BitXor")
    for ty_, nm_ in ((RES, "with_capacity"), (f"{R}::AtomicSamplingReservoir", "new")):
        cf = (u.method(ty_, nm_) or [None])[0]
        if cf is None:
            chk.unrecognised("C16.b", f"<anchor> {ty_}::{nm_}", "missing")
            continue
        changed = []
        for g_ in cf.region():
            sg = Sym(g_)
            for c in g_.body.calls():
                for a in c.args:
                    for x in sym_walk(sg.operand(a)):
                        if not (isinstance(x, tuple) and x):
                            continue
                        if x[0] == "bin" and any(x[1].startswith(o) for o in ARITH) and "('arg', 0" in repr(x):
                            changed.append((c, sym_str(x)[:60]))
                        elif x[0] == "call" and isinstance(x[1], str) and ("num::<impl usize>" in x[1] or strip_generics(x[1]).split("::")[-1] in ("max", "min", "clamp")) and "('arg', 0" in repr(x[2]):
                            changed.append((c, sym_str(x)[:60]))
        chk.ob("C16.b", f"{cf.path} [capacity as requested]", not changed, "the capacity parameter reaches the slot allocation unchanged" if not changed else f"the requested capacity is changed before use ({changed[0][1]}): a drain can yield more (or fewer) values than the configured capacity while reporting rate 1.0", changed[0][0].loc() if changed else cf.loc(), nontrivial=False)
    sr = one_method(chk, "C16.b", u, D, "sample_rate")
    if sr:
        r = strip_sym(Sym(sr).local(0))
        alts = [strip_sym(a) for a in (r[1] if r[0] == "phi" else [r])]
        one = any(a[:2] == ("const", "float") and float(a[2]) == 1.0 for a in alts)
        div = [a for a in alts if a[0] == "bin" and a[1] == "Div"]
        L_, U_ = f"'{DF['len']}'", f"'{DF['unsampled_len']}'"
        ok = one and len(div) == 1 and L_ in repr(div[0][2]) and U_ in repr(div[0][3]) and U_ not in repr(div[0][2])
        eq = any(strip_sym(dd)[0] == "bin" and strip_sym(dd)[1] in ("Eq", "Ne") and {L_ in repr(dd), U_ in repr(dd)} == {True} for bb, dd, t_, f_ in bool_switches(sr.body))
        chk.ob("C16.b", sr.path, ok and eq, "sample_rate = 1.0 if unsampled_len == len else len / unsampled_len" if ok and eq else "sample_rate is not yielded / pushed", sr.loc())
    nx = (u.method(D, "next", "Iterator") or [None])[0]
    if nx:
        b = nx.body
        lo = [o for o in atomic_ops(nx) if o[1] == "load"]
        from facts import PredFlow

        def cbool(x):
            x = strip_sym(x)
            if isinstance(x, tuple) and x and x[0] == "bin" and x[1] in ("Lt", "Le", "Gt", "Ge"):
                l_, r_ = repr(strip_sym(x[2])), repr(strip_sym(x[3]))
                I_, L_ = f"'{DF['idx']}'", f"'{DF['len']}'"
                if I_ in l_ and L_ in r_ and I_ not in r_:
                    return {"Lt": ("P", "N"), "Ge": ("N", "P")}.get(x[1])
                if L_ in l_ and I_ in r_ and I_ not in l_:
                    return {"Gt": ("P", "N"), "Le": ("N", "P")}.get(x[1])
            return None

        pf = PredFlow(nx, lambda subj, v: None, cbool)  # P = "idx < len"
        ok = len(lo) == 1 and lo[0][0].fn is nx and pf.at(lo[0][0].bb) == "P"
        if not ok and DF.get("_range") is not None and len(lo) == 1:
            # the cursor is the range 0..len: a slot is read only with an index that range's next() produced
            txt = repr(lo[0][2])
            ok = "range::Range" in txt and "Iterator>::next" in txt and f"'{DF['idx']}'" in txt and "'Some'" in txt
            if not ok and lo[0][0].fn is not nx and "('arg', 1" in txt:
                # `self.<range>.next().map(|slot| load(values[slot]))`: the closure's parameter is that next()'s payload
                for c_ in nonforeign_calls(nx):
                    if c_.fn is nx and c_.is_("Option<T>::map"):
                        a_ = arg_syms(c_)
                        cl_ = strip_sym(a_[1])
                        rcv = repr(a_[0])
                        if cl_[0] == "agg" and cl_[1] == "closure" and cl_[5] == lo[0][0].fn.path and "range::Range" in rcv and "Iterator::next" in rcv and f"'{DF['idx']}'" in rcv:
                            ok = True
        chk.ob("C16.b", nx.path, ok, "next() yields values[idx] only while idx < len" if ok else "Drain::next can yield beyond min(count, capacity)", nx.loc())
    dd_ = (u.method(D, "drop", "Drop") or [None])[0]
    if dd_:
        ops = atomic_ops(dd_)
        ok = len(ops) == 1 and is_plain_write(ops[0]) and const_int(ops[0][3][1]) == 0 and "'count'" in repr(ops[0][2]) and not [r for r in dd_.body.return_blocks() if r in dd_.body.reachable(0, cut={ops[0][0].bb})]
        chk.ob("C16.b", dd_.path, ok, "dropping a Drain resets the drained side's count to 0" if ok else "Drop for Drain does not reset the drained reservoir's count: the next drain re-yields old values / wrong rate", dd_.loc())
    else:
        chk.unrecognised("C16.b", "<anchor> Drop for Drain", "missing")
    ASR = f"{R}::AtomicSamplingReservoir"
    cons = one_method(chk, "C16.b", u, ASR, "consume")
    pushf = one_method(chk, "C16.b", u, ASR, "push")
    def side_table(f, flag_pred):
        """{True: field, False: field}: which side is used when the flag is true / false"""
        from facts import alternatives

        b = f.body
        out = {}
        sy_ = Sym(f)
        for c in nonforeign_calls(f):
            if c.fn is f and c.is_("Reservoir::push", "Reservoir::drain"):
                # the side is chosen either by branching around the call or by selecting the receiver first
                for bb, side, *_ in alternatives(f, c.args[0], c.bb, sy_):
                    side = strip_sym(side)
                    fld = side[2] if side[0] == "field" else None
                    for dd, lab in gates(b, bb):
                        if isinstance(lab, bool) and flag_pred(strip_sym(dd)):
                            out[lab] = fld
        return out
    asr_adt = u.adts.get(ASR) or {}
    flag_f, sides = "use_primary", []
    for fl_ in asr_adt.get("variants", [{}])[0].get("fields", []):
        if "Atomic<bool>" in fl_.get("ty", "") or "AtomicBool" in fl_.get("ty", ""):
            flag_f = fl_["name"]
        elif fl_.get("ty", "").endswith("reservoir::Reservoir"):
            sides.append(fl_["name"])
    FLAG = f"'{flag_f}'"
    if pushf:
        # one push per value: the wrapper hands the value to ONE side once (a retry after a concurrent flip duplicates
        # a value that was not lost — two consecutive drains count it)
        rp = [c for c in nonforeign_calls(pushf) if c.fn is pushf and c.is_("Reservoir::push")]
        loopy = [c for c in rp if in_cycle(pushf.body, c.bb)]
        chk.ob("C16.b", f"{pushf.path} [one push per value]", bool(rp) and not loopy, "Reservoir::push is not called in a loop" if rp and not loopy else "the value can be pushed more than once (Reservoir::push inside a retry loop): a value is counted by two drains", (loopy or rp or [pushf])[0].loc(), nontrivial=False)
    if cons and pushf:
        # the value of the flag before the flip: what was loaded, or what a flipping read-modify-write returned
        pt = side_table(pushf, lambda dd: sym_is_call(dd, "load") and FLAG in repr(dd))
        ct = side_table(cons, lambda dd: sym_is_call(dd, "load", "fetch_xor", "fetch_not") and FLAG in repr(dd))
        ok = len(pt) == 2 and set(pt.values()) == set(sides) and len(sides) == 2 and ct == pt
        chk.ob("C16.b", f"{ASR} [push ~ consume side table]", ok, "use_primary == true <-> primary in both push and consume (consume drains the side that was active)" if ok else f"push uses {pt}, consume drains {ct}: consume must drain the side that pushes were going to before the flip", cons.loc())
        b = cons.body
        lk = [c for c in nonforeign_calls(cons) if c.fn is cons and c.is_("Mutex<T>::lock")]
        flag_ops = [o for o in atomic_ops(cons) if o[0].fn is cons and FLAG in repr(o[2])]
        st = [o for o in flag_ops if is_plain_write(o)]
        rmw = [o for o in flag_ops if (o[1] == "fetch_xor" and strip_sym(o[3][1])[:3] == ("const", "bool", True)) or o[1] == "fetch_not"]
        flip = None  # the call that makes the other side active
        if len(st) == 1 and not rmw and len(flag_ops) == 2:
            v = strip_sym(st[0][3][1])
            if v[0] == "un" and v[1] == "Not" and sym_is_call(strip_sym(v[2]), "load"):
                flip = st[0][0]
        elif len(rmw) == 1 and len(flag_ops) == 1:
            flip = rmw[0][0]  # one atomic flip that hands back the side active until now
        dr = [c for c in nonforeign_calls(cons) if c.fn is cons and c.is_("Reservoir::drain")]
        cb = [c for c in nonforeign_calls(cons) if c.fn is cons and c.is_("FnMut::call_mut", "FnOnce::call_once") and is_param(sym_through(arg_syms(c)[0]), 1)]
        ok = len(lk) == 1 and flip is not None and len(dr) in (1, 2) and len(cb) == 1 and all(b.dominates(lk[0].bb, x.bb) for x in [flip] + dr + cb)
        if ok:
            ok = all(b.dominates(flip.bb, d_.bb) for d_ in dr)
            # the guard lives across the callback: no drop of the guard before the callback
            uw = [c for c in nonforeign_calls(cons) if c.fn is cons and c.is_("Result<T, E>::unwrap", "Result<T, E>::unwrap_or_else", "Result<T, E>::expect")]
            if uw:
                g = uw[0].t["dest"]["l"]
                drops = [i for i in range(b.n) if b.term(i)["k"] == "drop" and b.term(i)["p"]["l"] == g and not b.blocks[i].get("cleanup")]
                # an explicit `drop(guard)` releases the lock just like the implicit drop at the end of the scope

                def _is_guard(l_, depth=0):
                    if l_ == g:
                        return True
                    ds_ = b.defs().get(l_, [])
                    if depth < 3 and len(ds_) == 1 and ds_[0][0] == "assign" and ds_[0][3]["rv"]["k"] == "use":
                        src_ = ds_[0][3]["rv"]["a"].get("move") or {}
                        return not src_.get("pr") and src_.get("l") is not None and _is_guard(src_["l"], depth + 1)
                    return False

                drops += [c.bb for c in cons.body.calls() if c.is_("mem::drop") and c.args and (c.args[0].get("move") or {}).get("l") is not None and not (c.args[0].get("move") or {}).get("pr") and _is_guard(c.args[0]["move"]["l"]) and not b.blocks[c.bb].get("cleanup")]
                ok = ok and all(b.dominates(cb[0].bb, d_) for d_ in drops) and bool(drops)
        chk.ob("C16.b", f"{cons.path} [swap under the mutex]", ok, "consume: lock; flip use_primary; drain the previously active side; callback — all under the guard" if ok else "consume does not flip the active side and drain the previous one while holding the swap mutex", cons.loc())


def run_config(ctx):
    run(ctx)
