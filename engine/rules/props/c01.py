"""C01 — emissions reach exactly the recorder in scope, never one whose scope ended."""
from facts import Sym, path_is, strip_generics, strip_sym, sym_arg, sym_is_call, sym_str, sym_through, sym_walk
from props.common import (
    RECORDER_METHODS,
    arg_syms,
    calls_to,
    crate_stats,
    gates,
    kind_consistent,
    kind_of_name,
    need,
    nonforeign_calls,
    one_method,
    recorder_forward,
    recorder_impls,
    siblings_isomorphic,
)
from props.witness import witness_rule

TITLE = "C01 emissions reach exactly the recorder in scope."
CONFIGS = ["test-profile"]
LOCAL = "metrics::recorder::LOCAL_RECORDER"
GLOBAL = "metrics::recorder::GLOBAL_RECORDER"
NOOP = "metrics::recorder::NOOP_RECORDER"


SLOT = {"live": "Some", "vacant": "None", "ty": None}  # how the per-thread slot says "a recorder is installed" / "none is"


def _slot_enum(m, ty):
    """A private two-variant enum standing in for Option<NonNull<dyn Recorder>>: (path, live variant, vacant variant)."""
    a = m.adts.get(strip_generics(ty))
    if not a or a.get("kind") != "enum" or a.get("exported") or len(a.get("variants", [])) != 2:
        return None
    live = [v for v in a["variants"] if len(v.get("fields", [])) == 1 and "NonNull<" in v["fields"][0].get("ty", "") and "Recorder" in v["fields"][0].get("ty", "")]
    vac = [v for v in a["variants"] if not v.get("fields")]
    return (a["path"], live[0]["name"], vac[0]["name"]) if len(live) == 1 and len(vac) == 1 else None


def resolve_statics(m):
    """LOCAL / GLOBAL / NOOP by role (type), so moving or renaming the private statics is invisible."""
    global LOCAL, GLOBAL, NOOP
    raw = getattr(m, "raw_fns", None) or m.fns
    SLOT.update({"live": "Some", "vacant": "None", "ty": None})
    for f in raw:
        sty = f.j.get("sty") or ""
        if f.dk == "Static" and f.path.endswith("__RUST_STD_INTERNAL_VAL") and "::{constant#0}" in f.path and "Cell<" in sty and "NonNull<" not in sty:
            inner = sty.split("Cell<", 1)[1].rsplit(">", 1)[0]
            se = _slot_enum(m, inner)
            if se:
                LOCAL = f.path.split("::{constant#0}")[0]
                SLOT.update({"live": se[1], "vacant": se[2], "ty": se[0]})
        if f.dk == "Static" and sty.endswith("noop::NoopRecorder"):
            NOOP = f.path
        elif f.dk == "Static" and sty.endswith("cell::RecorderOnceCell"):
            GLOBAL = f.path
        elif f.dk == "Static" and f.path.endswith("__RUST_STD_INTERNAL_VAL") and "NonNull<(dyn metrics::recorder::Recorder" in sty and "::{constant#0}" in f.path:
            LOCAL = f.path.split("::{constant#0}")[0]


def is_guard_ctor(f):
    """role: the private constructor(s) of the scoped-installation guard"""
    sig = f.j.get("sig", "")
    return f.dk in ("Fn", "AssocFn") and not f.j.get("exported") and not f.j.get("impl_trait") and "->" in sig and "LocalRecorderGuard<" in sig.split("->")[-1]


def is_cell_load(f):
    """role: the reader of the global recorder cell (returns Option<&'static dyn Recorder>)"""
    ret = f.j.get("sig", "").split("->")[-1]
    return f.dk == "AssocFn" and (f.j.get("impl_self") or "").endswith("cell::RecorderOnceCell") and "Option<&" in ret and "dyn metrics::recorder::Recorder" in ret


KEEP = [is_guard_ctor, is_cell_load]


def _calls_role(cs, fns):
    names = {f.path for f in fns}
    return (cs.resolved or cs.callee) in names or cs.callee in names


def _sym_calls_role(d, fns):
    d = strip_sym(d)
    return isinstance(d, tuple) and d and d[0] == "call" and ({d[1], d[3]} & {f.path for f in fns})


def _mentions_const(s, path):
    return any(isinstance(x, tuple) and len(x) >= 3 and x[0] == "const" and x[2] == path for x in sym_walk(s))


def _stmts_mention(fn, path):
    if path in repr(fn.promoted_bodies()):
        return True
    for i, k, s in fn.body.stmts():
        if s["k"] == "assign" and path in repr(s["rv"]):
            return True
    return False


def with_recorder_leaves(wr):
    """Classifies the recorder values the user closure may be invoked with inside with_recorder (shared by C01.a, C02.a
    and C19.e).  A "leaf" is one definition site of the recorder argument together with the switch edges gating it, so
    `if let .. { f(a) } else { f(b) }` and `let r = match .. { a, b }; f(r)` are the same three leaves."""
    from facts import alternatives

    resolve_statics(wr.crate)
    leaves = []  # (callsite, def-bb, payload-sym)
    n_calls = 0
    for c in nonforeign_calls(wr):
        if c.is_("FnOnce::call_once", "FnOnce<Args>::call_once"):
            a = arg_syms(c)
            root = strip_sym(a[0])
            if sym_arg(root) is not None and sym_arg(root)[0] == 0:
                n_calls += 1
                sy = Sym(c.fn)
                # the argument tuple (recorder,) is built right before the call
                for bb, tup, *_ in alternatives(c.fn, c.args[1], c.bb, sy):
                    tup = strip_sym(tup)
                    if tup[0] == "agg" and tup[3]:
                        # locate the aggregate statement to follow its operand to the definition sites
                        st = [s for s in c.body.blocks[bb]["s"] if s["k"] == "assign" and s["rv"]["k"] == "agg" and s["rv"].get("agg") == "tuple"]
                        if st:
                            for bb2, pay, *g in alternatives(c.fn, st[-1]["rv"]["ops"][0], bb, sy):
                                leaves.append((c, bb2, pay, g[0] if g else ()))
                            continue
                        leaves.append((c, bb, tup[3][0], ()))
                    else:
                        leaves.append((c, bb, tup, ()))

    def is_get(d):
        return sym_is_call(d, "Cell<T>::get") and sym_arg(strip_sym(strip_sym(d)[2][0])) is not None

    loads = wr.crate.role(is_cell_load)

    def is_try_load(d):
        return _sym_calls_role(d, loads) and _mentions_const(d, GLOBAL)

    found = {"local": None, "global": None, "noop": None}
    other = []
    info = []
    for c, bb, payload, extra in leaves:
        payload = strip_sym(payload)
        g = gates(c.body, bb) + list(extra)
        some_get = any(lab == SLOT["live"] and is_get(d) for d, lab in g)
        none_get = any(lab == SLOT["vacant"] and is_get(d) for d, lab in g)
        some_tl = any(lab == "Some" and is_try_load(d) for d, lab in g)
        none_tl = any(lab == "None" and is_try_load(d) for d, lab in g)
        p = sym_through(payload, "NonNull<T>::as_ref")
        if p[0] == "field" and p[2] == "0":
            p = strip_sym(p[1])
        if some_get and p[0] == "downcast" and p[2] == SLOT["live"] and is_get(p[1]) and found["local"] is None:
            found["local"] = c
        elif none_get and some_tl and p[0] == "downcast" and p[2] == "Some" and is_try_load(p[1]) and found["global"] is None:
            found["global"] = c
        elif none_get and none_tl and _mentions_const(payload, NOOP) and found["noop"] is None:
            found["noop"] = c
        else:
            other.append((c, sym_str(payload)[:80]))
        info.append({
            "local_payload": p[0] == "downcast" and p[2] == SLOT["live"] and is_get(p[1]),
            "global_payload": p[0] == "downcast" and p[2] == "Some" and is_try_load(p[1]),
            "noop_payload": _mentions_const(payload, NOOP) and not any(x and x[0] == "call" for x in sym_walk(payload) if isinstance(x, tuple)),
            "some_get": some_get, "none_get": none_get, "some_tl": some_tl, "none_tl": none_tl,
        })
    tls = [c for c in nonforeign_calls(wr) if _calls_role(c, loads)]
    gated = len(tls) == 1 and any(lab == SLOT["vacant"] and is_get(d) for d, lab in gates(tls[0].body, tls[0].bb))
    return {"n_user_calls": len(leaves), "n_call_sites": n_calls, "found": found, "other": other, "info": info, "try_loads": tls, "try_load_gated": gated}


def run(ctx):
    chk = ctx.check
    m = ctx.crate("metrics")
    crate_stats(chk, m)
    resolve_statics(m)
    chk.rule("C01.a", "ORD+provenance precedence: in with_recorder the user closure is called on exactly three leaves: Some(local) -> that payload; else Some(global via try_load) -> that payload; else the static NOOP_RECORDER; try_load only on the no-local edge", floor=4)
    chk.rule("C01.b", "OWN+MPT save/restore: LocalRecorderGuard::new stores the value returned by Cell::replace(Some(ptr)) into prev_recorder; Drop replaces with self.prev_recorder; only new/drop/with_recorder touch LOCAL_RECORDER; in with_local_recorder the guard is dropped after f() on the normal path and on f()'s unwind edge, never before", floor=6)
    chk.rule("C01.c", "TYPE+item facts thread confinement: LOCAL_RECORDER is a thread_local LocalKey<Cell<Option<NonNull<dyn Recorder>>>>; the guard is !Send (E0277 witness); local installation accepts non-Sync non-'static recorders", floor=4)
    chk.rule("C01.d", "TYPE borrow scoping: a guard cannot outlive its recorder (E0597 witness + twin); LocalRecorderGuard::new is private; with_local_recorder never returns the guard", floor=4)
    chk.rule("C01.e", "WMC scoped-pointer escape: a safe public function that installs a lifetime-erased pointer in TLS must not hand the clearing guard to its caller: the FIFO-drop and mem::forget witnesses must fail to compile", floor=2)
    chk.rule("C01.g", "FWD dispatch exactly once: blanket impls for &T/&mut T/Box<T>/Arc<T> forward each of the six methods to the same-named method with parameters unchanged; NoopRecorder returns no-op handles and calls nothing else", floor=30)
    chk.trust("std::thread::LocalKey::with", "Cell::{get,replace}", "Option::take", "NonNull::{new_unchecked,as_ref}", "FnOnce::call_once")
    chk.residue.append("which histories occur is not enumerated: a.-g. hold on every path of the regions named, hence for every history; the unsound histories of set_default_local_recorder are a known finding (C01.e), not a residue")

    # ---------------- C01.a
    wr = m.fn("metrics::recorder::with_recorder")
    if need(chk, "C01.a", "with_recorder", wr):
        region = wr.region()
        outer = calls_to(wr, "LocalKey<T>::with")
        ok_outer = len(outer) == 1 and outer[0].fn is wr and _mentions_const(arg_syms(outer[0])[0], LOCAL)
        chk.ob("C01.a", f"{wr.path} [enters LOCAL_RECORDER.with]", ok_outer, "LOCAL_RECORDER.with(closure)" if ok_outer else "with_recorder does not run its body under LOCAL_RECORDER.with", wr.loc())
        res = with_recorder_leaves(wr)
        if res["n_user_calls"] != 3 or res["other"]:
            chk.ob("C01.a", f"{wr.path} [three leaves]", False, f"expected the user closure to receive exactly 3 alternative recorders (local/global/noop), found {res['n_user_calls']} (unclassified: {res['other'][:2]})", wr.loc())
        else:
            found = res["found"]
            for leaf, want in (("local", "Some(local) edge -> f(local payload)"), ("global", "no local, Some(global) edge -> f(try_load payload)"), ("noop", "neither -> f(&NOOP_RECORDER)")):
                c = found[leaf]
                chk.ob("C01.a", f"{wr.path} [{leaf} leaf]", c is not None, want if c else f"no call of the user closure matches: {want}", c.loc() if c else wr.loc())
            tls = res["try_loads"]
            ok = res["try_load_gated"]
            chk.ob("C01.a", f"{wr.path} [global consulted only without a local]", ok, "try_load is reached only on the no-local edge" if ok else "the global recorder is consulted before/independently of the local one", tls[0].loc() if tls else wr.loc())

    # ---------------- C01.b
    GUARD = "metrics::recorder::LocalRecorderGuard"
    ctors = m.role(is_guard_ctor)
    newf = ctors[0] if len(ctors) == 1 else None
    if newf is None:
        chk.unrecognised("C01.b", "<anchor> private constructor of LocalRecorderGuard", f"expected exactly one non-exported function returning the guard, found {[f.path for f in ctors]}")
    saved_field = None
    dropf = one_method(chk, "C01.b", m, GUARD, "drop", "Drop")
    if newf:
        ret = strip_sym(Sym(newf).local(0))
        ok, why = False, sym_str(ret)
        for fname, prev in zip(ret[4], ret[3]) if ret[0] == "agg" else ():
            prev = strip_sym(prev)
            if sym_is_call(prev, "LocalKey<T>::with") and _mentions_const(prev[2][0], LOCAL):
                saved_field = fname
                clos = strip_sym(prev[2][1])
                cf = m.fn(clos[5]) if clos[0] == "agg" and clos[1] == "closure" else None
                if cf is not None:
                    r = strip_sym(Sym(cf).local(0))
                    if sym_is_call(r, "Cell<T>::replace"):
                        newv = strip_sym(r[2][1])
                        # Some(ptr) where ptr derives from the parent's parameter 0
                        if newv[0] == "agg" and newv[2] == SLOT["live"] and any(x[0] == "arg" and x[1] == 0 for x in sym_walk(newv) if isinstance(x, tuple) and x):
                            ok = True
                        else:
                            why = f"replace() installs {sym_str(newv)}"
                    elif sym_is_call(r, "Cell<T>::get"):
                        # replace spelled out on the thread-local cell: `let old = cell.get(); cell.set(Some(ptr)); old` — the
                        # read dominates the one write, which installs Some(ptr of the parameter)
                        cb_ = cf.body
                        gets_ = [c for c in cb_.calls() if c.is_("Cell<T>::get")]
                        sets_ = [c for c in cb_.calls() if c.is_("Cell<T>::set", "Cell<T>::replace")]
                        if len(gets_) == 1 and len(sets_) == 1 and cb_.dominates(gets_[0].bb, sets_[0].bb) and gets_[0].bb != sets_[0].bb and not [r_ for r_ in cb_.return_blocks() if r_ in cb_.reachable(0, cut={sets_[0].bb})]:
                            newv = strip_sym(Sym(cf).operand(sets_[0].args[1]))
                            if newv[0] == "agg" and newv[2] == SLOT["live"] and any(x[0] == "arg" and x[1] == 0 for x in sym_walk(newv) if isinstance(x, tuple) and x):
                                ok = True
                            else:
                                why = f"set() installs {sym_str(newv)}"
                        else:
                            why = "the slot is not read once and then written once on every path"
                    else:
                        why = f"closure returns {sym_str(r)} — expected the value returned by Cell::replace"
        chk.ob("C01.b", f"{newf.path} [save]", ok, "prev_recorder = LOCAL_RECORDER.with(|l| l.replace(Some(ptr of the recorder parameter)))" if ok else f"guard does not save the previous pointer: {why}", newf.loc())
        chk.ob("C01.d", f"{newf.path} [private constructor]", newf.j.get("pub") is False, "LocalRecorderGuard::new is not public" if newf.j.get("pub") is False else "LocalRecorderGuard::new is public: guards can be fabricated for arbitrary lifetimes", newf.loc())
    if dropf:
        outer = calls_to(dropf, "LocalKey<T>::with")
        ok, why = False, "no LOCAL_RECORDER.with in drop"
        reps = [c for c in nonforeign_calls(dropf) if c.is_("Cell<T>::replace", "Cell<T>::set")]
        if len(outer) == 1 and _mentions_const(arg_syms(outer[0])[0], LOCAL) and len(reps) == 1:
            a = arg_syms(reps[0])
            v = sym_through(a[1], "Option<T>::take", "Clone::clone", "mem::replace", "mem::take")
            txt = repr(v)
            ok = saved_field is not None and v[0] == "field" and v[2] == saved_field and sym_arg(sym_through(v[1])) is not None
            why = f"drop installs {sym_str(a[1])}"
        chk.ob("C01.b", f"{dropf.path} [restore]", ok, "drop replaces the TLS slot with self.prev_recorder" if ok else f"drop does not restore the saved pointer: {why}", dropf.loc())
        if len(outer) == 1:
            b = dropf.body
            skipping = [r for r in b.return_blocks() if r in b.reachable(0, cut={outer[0].bb})]
            # ... and inside the closure handed to LOCAL_RECORDER.with the write itself is unconditional
            if len(reps) == 1 and reps[0].fn is not dropf:
                cb = reps[0].fn.body
                skipping += [r for r in cb.return_blocks() if r in cb.reachable(0, cut={reps[0].bb})]
            chk.ob("C01.b", f"{dropf.path} [restore on every path]", not skipping, "every path through drop performs the restore (also while unwinding)" if not skipping else "a path through drop returns without restoring the previous recorder (conditional restore, e.g. skipped while panicking)", dropf.loc())
    # who may touch LOCAL_RECORDER
    users = set()
    for f in m.fns:
        if f.file.endswith("thread/local.rs") or f.path.startswith(LOCAL):
            continue
        if _stmts_mention(f, LOCAL):
            root = f
            while root.parent is not None:
                root = root.parent
            users.add(strip_generics(root.path))
    want = {strip_generics(newf.path) if newf else "<guard constructor>", "<metrics::recorder::LocalRecorderGuard as core::ops::drop::Drop>::drop", "metrics::recorder::with_recorder"}
    extra = sorted(u for u in users if u not in want and "::tests::" not in u)
    chk.ob("C01.b", "LOCAL_RECORDER [who-may-touch]", not extra and want <= users, f"only {sorted(u.split('::')[-1] for u in users)} touch the thread-local" if not extra and want <= users else f"unexpected users {extra} / missing {sorted(want - users)}")
    # with_local_recorder: guard live across f()
    wl = m.fn("metrics::recorder::with_local_recorder")
    if need(chk, "C01.b", "with_local_recorder", wl):
        b = wl.body
        # the guard comes from the private constructor, or from the exported wrapper that is decided (below) to return
        # exactly constructor(recorder)
        news = [c for c in nonforeign_calls(wl) if _calls_role(c, ctors) or c.is_("recorder::set_default_local_recorder")]
        fcalls = [c for c in nonforeign_calls(wl) if c.is_("FnOnce::call_once") and (sym_arg(arg_syms(c)[0]) or (None,))[0] == 1]
        if len(news) != 1 or len(fcalls) != 1:
            chk.ob("C01.b", f"{wl.path} [guard scope]", False, f"expected one guard construction and one call of f, found {len(news)}/{len(fcalls)}", wl.loc())
        else:
            g = news[0].t["dest"]["l"]
            fc = fcalls[0]
            a0 = arg_syms(news[0])[0]
            ok_arg = (sym_arg(a0) or (None,))[0] == 0
            drops = [i for i in range(b.n) if b.term(i)["k"] == "drop" and b.term(i)["p"]["l"] == g and not b.term(i)["p"].get("pr")]
            normal = [d for d in drops if not b.blocks[d].get("cleanup")]
            # an explicit `drop(guard)` ends the scope just like the implicit drop at the end of the block
            def _moved_from(l_, depth=0):
                if l_ == g:
                    return True
                ds_ = b.defs().get(l_, [])
                if depth < 3 and len(ds_) == 1 and ds_[0][0] == "assign" and ds_[0][3]["rv"]["k"] == "use":
                    src_ = ds_[0][3]["rv"]["a"].get("move") or {}
                    return not src_.get("pr") and src_.get("l") is not None and _moved_from(src_["l"], depth + 1)
                return False

            normal += [c.bb for c in wl.body.calls() if c.is_("mem::drop") and c.args and (c.args[0].get("move") or {}).get("l") is not None and not (c.args[0].get("move") or {}).get("pr") and _moved_from(c.args[0]["move"]["l"]) and not b.blocks[c.bb].get("cleanup")]
            early = [d for d in normal if not b.dominates(fc.bb, d)]
            after = [d for d in normal if b.dominates(fc.bb, d)]
            # all return paths after f() pass through a drop of the guard
            rets = [r for r in b.return_blocks() if r in b.reachable(fc.t["target"], cut=set(after))] if fc.t.get("target") is not None else []
            uw = fc.t.get("unwind")
            unwind_ok = isinstance(uw, int) and any(d in b.reachable(uw, (), False) for d in drops if b.blocks[d].get("cleanup"))
            ok = ok_arg and b.dominates(news[0].bb, fc.bb) and not early and after and not rets and unwind_ok
            why = []
            if not ok_arg:
                why.append("guard built from something other than the recorder parameter")
            if early:
                why.append("the guard is dropped before f() runs (e.g. `let _ = ...`)")
            if not after or rets:
                why.append("a normal return after f() skips the guard's drop")
            if not unwind_ok:
                why.append("a panic in f() does not drop the guard (previous recorder not restored)")
            chk.ob("C01.b", f"{wl.path} [guard scope]", ok, "guard built before f(), dropped after it on the normal path and on f()'s unwind edge" if ok else "; ".join(why), fc.loc())
            chk.ob("C01.d", f"{wl.path} [guard not returned]", "LocalRecorderGuard" not in wl.j.get("sig", "").split("->")[-1], "with_local_recorder's return type does not contain the guard", wl.loc(), nontrivial=False)
    sd = m.fn("metrics::recorder::set_default_local_recorder")
    if need(chk, "C01.b", "set_default_local_recorder", sd):
        cs = [c for c in nonforeign_calls(sd) if _calls_role(c, ctors)]
        ok = len(cs) == 1 and len(nonforeign_calls(sd)) == 1 and (sym_arg(arg_syms(cs[0])[0]) or (None,))[0] == 0 and _sym_calls_role(Sym(sd).local(0), ctors)
        chk.ob("C01.b", f"{sd.path}", ok, "returns LocalRecorderGuard::new(recorder)" if ok else "does not simply return the guard built from its parameter", sd.loc())

    # ---------------- C01.c
    tys = set()
    for f in (wr, newf, dropf):
        if f is None:
            continue
        for ff in f.region():
            for pm in ff.promoted_bodies():
                for blk in pm["blocks"]:
                    for s in blk["s"]:
                        c = s.get("rv", {}).get("a", {}).get("const") if s["k"] == "assign" else None
                        if c and c.get("named") == LOCAL:
                            tys.add(c.get("ty"))
    want_ty = "std::thread::local::LocalKey<core::cell::Cell<core::option::Option<core::ptr::non_null::NonNull<dyn metrics::recorder::Recorder>>>>"
    if SLOT["ty"] and tys == {f"std::thread::local::LocalKey<core::cell::Cell<{SLOT['ty']}>>"}:
        tys = {want_ty}  # a private two-variant enum {vacant, installed(NonNull<dyn Recorder>)} in place of the Option
    chk.ob("C01.c", "LOCAL_RECORDER [thread-local key type]", tys == {want_ty}, "LOCAL_RECORDER is a std::thread::LocalKey<Cell<Option<NonNull<dyn Recorder>>>> (per-thread slot)" if tys == {want_ty} else f"LOCAL_RECORDER has type(s) {sorted(tys)} — not a thread-local key of the expected shape")
    witness_rule(ctx, "C01.c", "C01", only={"c01_guard_send_fail", "c01_guard_same_thread_pass", "c01_local_nonsync_nonstatic_pass"})
    witness_rule(ctx, "C01.d", "C01", only={"c01_outlive_fail", "c01_outlive_twin_pass"})
    witness_rule(ctx, "C01.e", "C01", only={"c01_fifo_fail", "c01_forget_fail"})

    # ---------------- C01.g
    impls = recorder_impls(m)
    n = 0
    for (self_ty, ipath), methods in sorted(impls.items()):
        if self_ty.endswith("NoopRecorder"):
            for name in RECORDER_METHODS:
                f = methods.get(name)
                if f is None:
                    chk.unrecognised("C01.g", f"<anchor> NoopRecorder::{name}", "missing")
                    continue
                cs = nonforeign_calls(f)
                if name.startswith("describe"):
                    ok = not cs
                    d = "does nothing"
                else:
                    kind = name.split("_")[1]
                    ok = len(cs) == 1 and cs[0].is_(f"{kind.capitalize()}::noop") and sym_is_call(Sym(f).local(0), f"{kind.capitalize()}::noop")
                    d = f"returns {kind.capitalize()}::noop()"
                chk.ob("C01.g", f.path, ok, d if ok else f"NoopRecorder::{name} calls {[c.resolved for c in cs]}", f.loc())
                n += 1
            continue
        if "::tests::" in (ipath or "") or "test" in self_ty.lower():
            continue
        for name in RECORDER_METHODS:
            f = methods.get(name)
            if f is None:
                chk.unrecognised("C01.g", f"<anchor> <{self_ty} as Recorder>::{name}", "missing")
                continue
            recorder_forward(chk, "C01.g", f)
            n += 1
    chk.analysed["Recorder impls in metrics"] = len(impls)
    if ctx.config == "default":
        run_macros(ctx)
    from props.common import import_rules

    import_rules(ctx, "C02", {"C02.a", "C02.b"}, "C01.h", "imported from C02 (the global recorder the emissions fall through to): one strong CAS elects the installer, the state word is restored/published on every path, and the lookup reads the slot only in the INITIALIZED state on every emission — otherwise emissions outside local scopes reach the no-op recorder (or a half-written one) although a global recorder is installed", floor=8)


def run_config(ctx):
    run(ctx)


# ---------------------------------------------------------------------------------------------
# C01.f  macro fidelity: expansion witness with marker provenance
# ---------------------------------------------------------------------------------------------
XKINDS = {"c": "counter", "g": "gauge", "h": "histogram"}
EXPECTED_ARMS = {"counter": 4, "gauge": 4, "histogram": 4, "key_var": 6, "metadata_var": 1, "describe": 2, "describe_counter": 2, "describe_gauge": 2, "describe_histogram": 2}


def _strs(s):
    """String constants inside a symbolic expression, in pre-order."""
    return [x[2] for x in sym_walk(s) if isinstance(x, tuple) and len(x) >= 3 and x[0] == "const" and x[1] == "str"]


def _static_init(x, path):
    f = x.fn(path)
    if f is None or f.dk != "Static":
        return None
    return strip_sym(Sym(f).local(0))


def _static_ref(s):
    s = strip_sym(s)
    if isinstance(s, tuple) and s[:2] == ("const", "static"):
        return s[2]
    return None


def macro_public_arms(body):
    """(number of user-facing arms, number of internal `@rule` arms that some arm forwards to, internal arms nobody uses)
    from the driver's token dump of a macro_rules! body: top-level `(matcher) => {body}` pairs; an arm whose matcher
    starts with `@ident` is an internal rule, reachable only through the arms that forward to it."""
    toks = body.split()
    depth = 0
    groups = []  # (start index, end index) of top-level delimited groups
    start = None
    for i, t in enumerate(toks):
        if t.startswith("<") and t[1:] in ("Parenthesis", "Brace", "Bracket", "Invisible"):
            if depth == 0:
                start = i
            depth += 1
        elif t == ">":
            depth -= 1
            if depth == 0 and start is not None:
                groups.append((start, i))
                start = None
    arms = []
    for gi, (a, b_) in enumerate(groups):
        if b_ + 1 < len(toks) and toks[b_ + 1] == "FatArrow":
            inner = toks[a + 1 : b_]
            internal = None
            if inner and inner[0] == "At" and len(inner) > 1 and inner[1].startswith("Ident("):
                internal = inner[1]
            arms.append(internal)
    public = sum(1 for x in arms if x is None)
    used = unused = 0
    for x in {y for y in arms if y is not None}:
        refs = sum(1 for i in range(len(toks) - 1) if toks[i] == "At" and toks[i + 1] == x)
        n = sum(1 for y in arms if y == x)
        if refs > n:
            used += n
        else:
            unused += n
    return public, used, unused


def run_macros(ctx):
    chk = ctx.check
    chk.rule("C01.f", "MACRO expansion witness: for every arm (4 prefix forms x 6 key_var arms x 3 kinds, 3 describe forms x 3 kinds) the expansion contains exactly one with_recorder call whose closure calls exactly one Recorder method of the macro's kind; name/label markers reach Key construction in order; Metadata::new(target marker | module_path, level marker | Level::INFO, Some(module_path)); describe passes Into::into(name), Some(unit)/None, Into::into(description); the macro arm counts in /repo equal the counts the witness covers", floor=81 + 9)
    m = ctx.crate("metrics")
    x = ctx.xcrate("macros_x")
    if x is None:
        chk.unrecognised("C01.f", "<anchor> expansion witness facts", "x_macros_x.json missing (witness did not compile?)")
        return
    w = ctx.witness.get("macros_x", {})
    if w.get("exit") != 0:
        chk.unrecognised("C01.f", "<anchor> expansion witness", f"witness does not compile against the current macros: {w.get('messages')}")
        return
    chk.analysed["macros_x"] = x.stats()
    # the label-collection form of the macros (`counter!("n", &labels)`) hands the collection to IntoLabels: every
    # implementation returns its receiver or passes through the conversion of the whole iteration on every path — no
    # way out before it (a `size_hint().0 == 0 => Vec::new()` fast path drops the labels of lazily sized collections)
    from props.common import callee_method_name as _cmn

    for f_ in m.fns:
        if f_.name != "into_labels" or not (f_.j.get("impl_trait") or "").endswith("IntoLabels") or not f_.j.get("mir") or f_.parent is not None:
            continue
        r_ = sym_arg(Sym(f_).local(0))
        if r_ is not None and r_[0] == 0:
            chk.ob("C01.f", f"{f_.path} [all labels]", True, "returns its receiver", f_.loc(), nontrivial=False)
            continue
        sinks_ = {c.bb for c in f_.body.calls() if _cmn(c) in ("collect", "from_iter", "extend", "into_labels", "to_vec", "into_vec", "extend_from_slice")}
        skip_ = [r for r in f_.body.return_blocks() if r in f_.body.reachable(0, cut=sinks_)]
        okl = bool(sinks_) and not skip_
        chk.ob("C01.f", f"{f_.path} [all labels]", okl, "every path converts the whole iteration" if okl else "a path returns without converting the collection's elements: the key reaches the recorder without (some of) the labels the call site spelled", f_.loc(), nontrivial=False)
    # arm counts
    for name, n in EXPECTED_ARMS.items():
        mac = m.macros.get(name)
        got = mac["arms"] if mac else None
        if mac and mac.get("body"):
            # internal `@rule` arms are not call forms: they are exercised through the public arms that forward to them
            pub_, used_, unused_ = macro_public_arms(mac["body"])
            if pub_ + used_ + unused_ > 0 and unused_ == 0:
                got = pub_
        chk.ob("C01.f", f"macro {name}! [arm count]", got == n, f"{got} arms, all instantiated by the witness" if got == n else f"macro has {got} arms but the witness covers {n}: an arm is not covered (or was removed)", f"{mac['file']}:{mac['ln']}" if mac else "", nontrivial=False)

    for f in x.fns:
        if f.dk != "Fn":
            continue
        name = f.name
        parts = name.split("_")
        if name[0] == "d" and len(parts) == 2:
            _check_describe(chk, x, f, XKINDS[name[1]], parts[1])
        elif len(parts) == 3 and parts[0] in XKINDS:
            _check_register(chk, x, f, XKINDS[parts[0]], parts[1], parts[2])


def _one_dispatch(chk, x, f, method):
    """exactly one with_recorder call; its closure calls exactly one Recorder method == `method`."""
    wrs = [c for c in f.region_calls() if c.is_("metrics::recorder::with_recorder")]
    where = f"macros_x::{f.name}"
    if len(wrs) != 1 or wrs[0].fn is not f:
        chk.ob("C01.f", where, False, f"expected exactly one with_recorder call in the expansion, found {len(wrs)}", f.loc())
        return None
    from props.common import in_cycle

    if in_cycle(wrs[0].body, wrs[0].bb):
        chk.ob("C01.f", where, False, "with_recorder is called inside a loop", f.loc())
        return None
    clos = strip_sym(Sym(f).operand(wrs[0].args[0]))
    if not (clos[0] == "agg" and clos[1] == "closure"):
        chk.ob("C01.f", where, False, "with_recorder is not given a closure literal", f.loc())
        return None
    cf = x.fn(clos[5])
    rcs = [c for c in cf.region_calls() if (c.t.get("trait") or "").endswith("recorder::Recorder")]
    if len(rcs) != 1:
        chk.ob("C01.f", where, False, f"closure calls {len(rcs)} Recorder methods, expected exactly one", f.loc())
        return None
    got = rcs[0].callee.split("::")[-1]
    if got != method:
        chk.ob("C01.f", where, False, f"dispatches to Recorder::{got}, expected Recorder::{method}", f.loc())
        return None
    a = [Sym(cf).operand(o) for o in rcs[0].args]
    if not (strip_sym(a[0])[0] == "arg" and strip_sym(a[0])[1] == 1):
        chk.ob("C01.f", where, False, "the Recorder method is not invoked on the recorder passed by with_recorder", f.loc())
        return None
    return a


def _check_register(chk, x, f, kind, prefix, arm):
    where = f"macros_x::{f.name}"
    tag = f.name
    a = _one_dispatch(chk, x, f, f"register_{kind}")
    if a is None:
        return
    key, meta = strip_sym(a[1]), strip_sym(a[2])
    N, K1, V1, K2, V2, T = (f"{p}~{tag}" for p in ("N", "K1", "V1", "K2", "V2", "T"))
    problems = []
    # ---- key
    kstatic = _static_ref(key)
    if arm in ("a1", "a3"):
        init = _static_init(x, kstatic) if kstatic else None
        if init is None:
            problems.append("key is not a static METRIC_KEY")
        elif arm == "a1":
            if not (sym_is_call(init, "Key::from_static_name") and _strs(init) == [N]):
                problems.append(f"static key built as {sym_str(init)}")
        else:
            if not (sym_is_call(init, "Key::from_static_parts") and _strs(init[2][0]) == [N]):
                problems.append(f"static key built as {sym_str(init)}")
            else:
                lst = _static_ref(init[2][1])
                linit = _static_init(x, lst) if lst else None
                problems += _labels_static(linit, [(K1, V1), (K2, V2)])
    else:
        if arm == "a2":
            if not (sym_is_call(key, "Key::from_name") and _strs(key) == [N]):
                problems.append(f"key built as {sym_str(key)}")
        elif arm == "a4":
            if not (sym_is_call(key, "Key::from_static_labels") and _strs(key[2][0]) == [N]):
                problems.append(f"key built as {sym_str(key)}")
            else:
                lst = _static_ref(key[2][1])
                linit = _static_init(x, lst) if lst else None
                problems += _labels_static(linit, [(K1, V1), (K2, V2)])
        elif arm == "a5":
            if not (sym_is_call(key, "Key::from_parts") and _strs(key[2][0]) == [N]):
                problems.append(f"key built as {sym_str(key)}")
            else:
                # labels: the only Label array aggregate in the function, built from Label::new(K,V) in order
                arrs = [s for _, _, s in f.body.stmts() if s["k"] == "assign" and s["rv"]["k"] == "agg" and s["rv"].get("agg") == "array" and s["rv"].get("ty", "").endswith("label::Label")]
                sy = Sym(f)
                if len(arrs) != 1:
                    problems.append(f"expected one label array, found {len(arrs)}")
                else:
                    got = []
                    for o in arrs[0]["rv"]["ops"]:
                        s = strip_sym(sy.operand(o))
                        if not sym_is_call(s, "Label::new"):
                            problems.append(f"label built as {sym_str(s)}")
                        else:
                            got.append((_strs(s[2][0]), _strs(s[2][1])))
                    if got != [([K1], [V1]), ([K2], [V2])]:
                        problems.append(f"labels are {got}")
                vec = strip_sym(key[2][1])
                if not (vec[0] == "call" and isinstance(vec[1], str) and "vec" in vec[1]):
                    problems.append(f"labels argument is {sym_str(vec)}, not the vec! of labels")
        elif arm == "a6":
            if not (sym_is_call(key, "Key::from_parts") and _strs(key[2][0]) == [N] and _strs(key[2][1]) == [K1, V1, K2, V2]):
                problems.append(f"key built as {sym_str(key)}")
    # ---- metadata
    mstatic = _static_ref(meta)
    minit = _static_init(x, mstatic) if mstatic else None
    if minit is None or not sym_is_call(minit, "Metadata::new", "Metadata<'a>::new"):
        problems.append("metadata is not a static Metadata::new(..)")
    else:
        tgt, lvl, mod = minit[2]
        want_t = [T] if prefix in ("tl", "t") else ["macros_x"]
        if _strs(tgt) != want_t:
            problems.append(f"target is {_strs(tgt)}, expected {want_t}")
        lv = strip_sym(lvl)
        want_l = "metrics::metadata::Level::DEBUG" if prefix in ("tl", "l") else "metrics::metadata::Level::INFO"
        if not (lv[0] == "const" and len(lv) > 3 and lv[3] == want_l):
            problems.append(f"level is {sym_str(lv)} {lv[3:] if len(lv) > 3 else ''}, expected {want_l}")
        md = strip_sym(mod)
        if not (md[0] == "agg" and md[2] == "Some" and _strs(md) == ["macros_x"]):
            problems.append(f"module path is {sym_str(md)}")
    chk.ob("C01.f", where, not problems, f"{kind}! [{prefix}/{arm}]: name, labels (in order), target, level and module path reach register_{kind} intact" if not problems else "; ".join(problems[:3]), f.loc())


def _labels_static(linit, want):
    if linit is None or linit[0] != "agg" or linit[1] != "array":
        return [f"labels static is {sym_str(linit) if linit else None}"]
    got = []
    for e in linit[3]:
        e = strip_sym(e)
        if not sym_is_call(e, "Label::from_static_parts"):
            return [f"label built as {sym_str(e)}"]
        got.append((_strs(e[2][0]), _strs(e[2][1])))
    if got != [([k], [v]) for k, v in want]:
        return [f"labels are {got}, expected {want} in order"]
    return []


def _check_describe(chk, x, f, kind, form):
    where = f"macros_x::{f.name}"
    tag = f.name
    a = _one_dispatch(chk, x, f, f"describe_{kind}")
    if a is None:
        return
    problems = []
    name, unit, desc = strip_sym(a[1]), strip_sym(a[2]), strip_sym(a[3])
    if not (sym_is_call(name, "Into::into") and _strs(name) == [f"N~{tag}"]):
        problems.append(f"name argument is {sym_str(name)}")
    if not (sym_is_call(desc, "Into::into") and _strs(desc) == [f"D~{tag}"]):
        problems.append(f"description argument is {sym_str(desc)}")
    if form in ("u", "ue"):
        wantu = "Bytes" if form == "u" else "Seconds"
        ok = unit[0] == "agg" and unit[2] == "Some" and repr(unit).count(f"'{wantu}'") >= 1
        if not ok:
            problems.append(f"unit argument is {sym_str(unit)}, expected Some(Unit::{wantu})")
    else:
        if not (unit[0] == "agg" and unit[2] == "None"):
            problems.append(f"unit argument is {sym_str(unit)}, expected None")
    chk.ob("C01.f", where, not problems, f"describe_{kind}! [{form}]: Into::into(name), {'Some(unit)' if form != 'n' else 'None'}, Into::into(description)" if not problems else "; ".join(problems[:3]), f.loc())
