"""C10 — DogStatsD aggregation conserves counts across flushes under any interleaving."""
from facts import Sym, path_is, strip_generics, strip_sym, sym_arg, sym_calls, sym_is_call, sym_str, sym_through, sym_walk
from props.common import is_plain_write, arg_syms, atomic_ops, bool_switches, callee_method_name, calls_to, crate_stats, enum_arms, gates, in_cycle, need, nonforeign_calls, one_method, orderings_in

KEEP = [  # private helpers the rules name (kept as functions); every other non-exported, non-trait function is spliced into its callers
    "AtomicCounter::flush", "AtomicCounter::new", "AtomicGauge::flush", "AtomicGauge::new",
    "AtomicHistogram::flush", "AtomicHistogram::new", "AtomicHistogram::record", "Block::data",
    "Block::new", "Block::push", "Client::send", "ClientState::try_send", "ClientSideAggregatedStorage::new",
    "CompositeKeyName::new", "DogStatsDRecorder::new", "Forwarder::new", "Forwarder::run",
    "ForwarderConfiguration::is_length_prefixed", "Generational::new", "Inner::new", "MetricKindMask::value",
    "PayloadWriter::new", "PayloadWriter::write_counter", "PayloadWriter::write_distribution", "PayloadWriter::write_gauge",
    "PayloadWriter::write_histogram", "Reservoir::drain", "Reservoir::push", "State::flush",
    "State::get_aggregation_timestamp", "State::new", "Telemetry::new", "TelemetryUpdate::clear",
    "WriteResult::new",
]
TITLE = "C10 DogStatsD aggregation conserves counts across flushes."
CONFIGS = ["test-profile"]
D = "metrics_exporter_dogstatsd"
AC = f"{D}::storage::AtomicCounter"
AG = f"{D}::storage::AtomicGauge"
AH = f"{D}::storage::AtomicHistogram"
STATE = f"{D}::state::State"


FIELD = {}  # pinned private field name -> today's name, found by the role the field plays (see _field_roles)


def is_param(s, i):
    a = sym_arg(s)
    return a is not None and a[0] == i


def self_field(s, field):
    s = strip_sym(s)
    return isinstance(s, tuple) and s and s[0] == "field" and s[2] == FIELD.get(field, field) and is_param(s[1], 0)


def const_int(s):
    s = strip_sym(s)
    return s[2] if s[:2] == ("const", "int") else None


def ops_on(fn, field):
    return [o for o in atomic_ops(fn) if self_field(o[2], field)]


def _field_of(o):
    s = strip_sym(o[2])
    return s[2] if isinstance(s, tuple) and s and s[0] == "field" and is_param(s[1], 0) else None


def _field_roles(d):
    """The private atomics of the two scalar storages are told apart by what the update methods do with them, not by
    their names: the counter word is the one increment() adds its argument to, the update count the one it adds 1 to,
    the flag the AtomicBool, the remaining word the flushed baseline; the gauge word is the one set() stores
    value.to_bits() into, the other one its update count."""
    FIELD.clear()
    FIELD["gauge_updates"] = "updates"
    adt = d.adts.get(AC)
    inc = (d.method(AC, "increment", "CounterFn") or [None])[0]
    if adt and inc:
        flds = {f["name"]: f["ty"] for f in adt.get("fields", [])} if adt.get("fields") else {}
        if not flds:
            for v in adt.get("variants", []):
                for f in v.get("fields", []):
                    flds[f["name"]] = f["ty"]
        cur = [o for o in atomic_ops(inc) if o[1] == "fetch_add" and is_param(o[3][1], 1)]
        upd = [o for o in atomic_ops(inc) if o[1] == "fetch_add" and const_int(o[3][1]) == 1]
        words = [n for n, t in flds.items() if "AtomicU64" in t or "Atomic<u64>" in t]
        flags = [n for n, t in flds.items() if "AtomicBool" in t or "Atomic<bool>" in t]
        if len(cur) == 1 and len(upd) == 1 and _field_of(cur[0]) and _field_of(upd[0]) and _field_of(cur[0]) != _field_of(upd[0]) and len(words) == 3 and len(flags) == 1:
            rest = [w for w in words if w not in (_field_of(cur[0]), _field_of(upd[0]))]
            if len(rest) == 1:
                FIELD.update({"current": _field_of(cur[0]), "updates": _field_of(upd[0]), "last": rest[0], "is_absolute": flags[0]})
    adt = d.adts.get(AG)
    gs = (d.method(AG, "set", "GaugeFn") or [None])[0]
    if adt and gs:
        flds = {}
        for f in adt.get("fields", []) or [f for v in adt.get("variants", []) for f in v.get("fields", [])]:
            flds[f["name"]] = f["ty"]
        st = [o for o in atomic_ops(gs) if o[1] in ("store", "swap") and sym_is_call(strip_sym(o[3][1]), "to_bits")]
        words = [n for n, t in flds.items() if "AtomicU64" in t or "Atomic<u64>" in t]
        if len(st) == 1 and _field_of(st[0]) and len(words) == 2:
            rest = [w for w in words if w != _field_of(st[0])]
            FIELD.update({"inner": _field_of(st[0]), "gauge_updates": rest[0]})


def run(ctx):
    chk = ctx.check
    d = ctx.crate("metrics_exporter_dogstatsd")
    crate_stats(chk, d)
    chk.rule("C10.a", "ATOM+provenance protocol table: AtomicCounter::flush reads `current` once, replaces `last` with one swap(that value), delta = that value - swap result, updates reset by swap(0); increment = fetch_add on current and updates; absolute re-bases `last` only when is_absolute.swap(true) was false, then stores current; AtomicGauge by load / swap(0) / single RMW; no load->store of one field", floor=7)
    chk.rule("C10.b", "MPT destructively-read value is emitted or proven zero: in State::flush every path from counter.flush() that skips write_counter is guarded by value == 0; idle bookkeeping is keyed by the full Key", floor=3)
    chk.rule("C10.c", "DOC timestamp vs documentation: the AggregationMode variant documented 'not sent with a timestamp' maps to None in get_aggregation_timestamp, the one documented 'sent with a timestamp' to Some", floor=2)
    chk.rule("C10.d", "TBL+FWD routing: histograms_as_distributions selects write_distribution on its true edge; the global prefix is dropped exactly for telemetry names; is_length_prefixed: Udp->false, Unix->true, Unixgram->false and feeds PayloadWriter::new; the stream transport uses write_all, datagram transports send; histograms flush through clear_with/consume; gauges/counters are written with the flushed value", floor=8)
    chk.rule("C10.f", "OWN configuration knobs: no field of DogStatsDBuilder is written by two different by-value builder methods (setting the reservoir size does not switch sampling on, ...)", floor=1)
    chk.trust("std atomics", "UnixStream::write_all", "UdpSocket/UnixDatagram::send")
    chk.residue.append("the multi-word races of AtomicCounter (a flush between last.store and current.store in the first absolute(); 'zero sent exactly once' under races) are NOT decided: no sound structural rule separates them from benign multi-atomic code")

    # ---------------- C10.f
    BLD = f"{D}::builder::DogStatsDBuilder"
    writers = {}
    n_setters = 0
    for f in d.fns:
        if strip_generics(f.j.get("impl_self", "")) != BLD or f.dk != "AssocFn" or "::tests::" in f.path or not f.j.get("mir"):
            continue
        b_ = f.body
        if b_.argc < 1 or "DogStatsDBuilder" not in b_.local_ty(1) or b_.local_ty(1).lstrip().startswith("&"):
            continue
        from props.common import pointers_to

        roots = {1} | pointers_to(b_, 1)
        flds = {next((e.get("f") for e in (st["p"].get("pr") or []) if isinstance(e, dict) and "f" in e), None) for i, k, st in b_.stmts() if st["k"] == "assign" and st["p"]["l"] in roots and st["p"].get("pr")}
        flds.discard(None)
        if flds:
            n_setters += 1
        for fl in flds:
            writers.setdefault(fl, set()).add(f.name)
    shared = {fl: sorted(ws) for fl, ws in writers.items() if len(ws) > 1}
    if n_setters == 0:
        chk.unrecognised("C10.f", "<anchor> DogStatsDBuilder setters", "no by-value builder method writing a field found")
    else:
        chk.ob("C10.f", f"{BLD} [one setter per knob]", not shared, f"{n_setters} setters, {len(writers)} fields, none written by two setters" if not shared else f"field(s) {shared} are written by more than one builder method: one knob silently changes another (e.g. a reservoir size switching sampling on discards values and adds @rate although sampling was configured off)", "metrics-exporter-dogstatsd/src/builder.rs")

    # ---------------- C10.a
    _field_roles(d)
    chk.analysed["storage field roles"] = dict(FIELD)
    fl = one_method(chk, "C10.a", d, AC, "flush")
    if fl:
        cur = ops_on(fl, "current")
        last = ops_on(fl, "last")
        upd = ops_on(fl, "updates")
        ok = len(cur) == 1 and cur[0][1] == "load" and len(last) == 1 and last[0][1] == "swap" and len(upd) == 1 and upd[0][1] == "swap" and const_int(upd[0][3][1]) == 0
        detail = f"current:{[o[1] for o in cur]} last:{[o[1] for o in last]} updates:{[o[1] for o in upd]}"
        if ok:
            sw_arg = strip_sym(last[0][3][1])
            ok = sym_is_call(sw_arg, "load") and self_field(sw_arg[2][0], "current")
            ret = strip_sym(Sym(fl).local(0))
            delta = strip_sym(ret[3][0]) if ret[0] == "agg" and ret[3] else None
            okd = delta is not None and ((sym_is_call(delta, "wrapping_sub") and sym_is_call(strip_sym(delta[2][0]), "load") and sym_is_call(strip_sym(delta[2][1]), "swap")) or (delta[0] == "bin" and delta[1].startswith("Sub") and sym_is_call(strip_sym(delta[2]), "load") and sym_is_call(strip_sym(delta[3]), "swap")))
            upd_ret = ret[0] == "agg" and len(ret[3]) == 2 and sym_is_call(strip_sym(ret[3][1]), "swap") and self_field(strip_sym(strip_sym(ret[3][1])[2][0]), "updates")
            ok = ok and okd and upd_ret
            detail = f"delta = {sym_str(delta)[:90] if delta else None}"
        chk.ob("C10.a", fl.path, ok, "one load of current; last.swap(current); delta = current - previous last; updates.swap(0)" if ok else f"flush is not `read current once, swap it into last, report the difference` ({detail}): reading `current` twice counts an increment landing in between in two flushes", fl.loc())
    inc = (d.method(AC, "increment", "CounterFn") or [None])[0]
    if inc:
        cur, upd = ops_on(inc, "current"), ops_on(inc, "updates")
        ok = len(cur) == 1 and cur[0][1] == "fetch_add" and is_param(cur[0][3][1], 1) and len(upd) == 1 and upd[0][1] == "fetch_add" and const_int(upd[0][3][1]) == 1 and not ops_on(inc, "last")
        chk.ob("C10.a", inc.path, ok, "current.fetch_add(value); updates.fetch_add(1)" if ok else "increment is not a single fetch_add(value) on current plus fetch_add(1) on updates", inc.loc())
    else:
        chk.unrecognised("C10.a", "<anchor> <AtomicCounter as CounterFn>::increment", "missing")
    ab = (d.method(AC, "absolute", "CounterFn") or [None])[0]
    if ab:
        b = ab.body
        isa, last, cur, upd = ops_on(ab, "is_absolute"), ops_on(ab, "last"), ops_on(ab, "current"), ops_on(ab, "updates")
        ok = len(isa) == 1 and isa[0][1] == "swap" and strip_sym(isa[0][3][1])[:3] == ("const", "bool", True) and len(last) == 1 and is_plain_write(last[0]) and is_param(last[0][3][1], 1) and len(cur) == 1 and is_plain_write(cur[0]) and is_param(cur[0][3][1], 1) and len(upd) == 1
        if ok:
            g = gates(b, last[0][0].bb)
            def is_flag_swap(x):
                x = strip_sym(x)
                return sym_is_call(x, "swap") and self_field(x[2][0], "is_absolute")

            rebase_gated = any((lab is False and is_flag_swap(dd)) or (lab is True and strip_sym(dd)[0] == "un" and is_flag_swap(strip_sym(dd)[2])) for dd, lab in g)
            always_cur = not [r for r in b.return_blocks() if r in b.reachable(0, cut={cur[0][0].bb})]
            ok = rebase_gated and always_cur and not any(is_flag_swap(dd) or (strip_sym(dd)[0] == "un" and is_flag_swap(strip_sym(dd)[2])) for dd, lab in gates(b, cur[0][0].bb))
        chk.ob("C10.a", ab.path, ok, "first absolute re-bases last (only when is_absolute.swap(true) was false); current.store(value) always" if ok else "absolute() does not re-base `last` exactly on the first absolute value / does not always store current", ab.loc())
    else:
        chk.unrecognised("C10.a", "<anchor> <AtomicCounter as CounterFn>::absolute", "missing")
    gfl = one_method(chk, "C10.a", d, AG, "flush")
    if gfl:
        inn, upd = ops_on(gfl, "inner"), ops_on(gfl, "gauge_updates")
        ok = len(inn) == 1 and inn[0][1] == "load" and len(upd) == 1 and upd[0][1] == "swap" and const_int(upd[0][3][1]) == 0
        ret = strip_sym(Sym(gfl).local(0))
        ok = ok and ret[0] == "agg" and sym_is_call(strip_sym(ret[3][0]), "from_bits")
        chk.ob("C10.a", gfl.path, ok, "gauge flush = (from_bits(inner.load()), updates.swap(0))" if ok else "gauge flush does not report the current value and reset the update count atomically", gfl.loc())
    for mn, op in (("increment", "Add"), ("decrement", "Sub")):
        f = (d.method(AG, mn, "GaugeFn") or [None])[0]
        if not f:
            chk.unrecognised("C10.a", f"<anchor> <AtomicGauge as GaugeFn>::{mn}", "missing")
            continue
        inn = ops_on(f, "inner")
        if any(o[1].startswith("compare_exchange") for o in inn):
            from props.common import cas_loop

            okl, whyl = cas_loop(f, op, field=FIELD.get("inner", "inner"))
            chk.ob("C10.a", f.path, okl, whyl if okl else f"gauge {mn} is not a single fetch_update / a compare-exchange retry loop applying {op} to the observed value ({whyl})", f.loc())
            continue
        ok = len(inn) == 1 and inn[0][1] == "fetch_update"
        if ok:
            clos = [a for a in inn[0][3] if strip_sym(a)[0] == "agg" and strip_sym(a)[1] == "closure"]
            cf = d.fn(strip_sym(clos[0])[5]) if clos else None
            ok = False
            if cf is not None:
                ret = strip_sym(Sym(cf).local(0))
                if ret[0] == "agg" and ret[2] == "Some" and sym_is_call(ret[3][0], "to_bits"):
                    e = strip_sym(strip_sym(ret[3][0])[2][0])
                    ok = e[0] == "bin" and e[1] == op and sym_is_call(strip_sym(e[2]), "from_bits") and is_param(strip_sym(strip_sym(e[2])[2][0]), 1) and "capture" in repr(e[3]) and is_param(strip_sym(e[3]), 1)
        chk.ob("C10.a", f.path, ok, f"fetch_update(|cur| Some(to_bits(from_bits(cur) {'+' if op == 'Add' else '-'} value)))" if ok else f"gauge {mn} is not a single fetch_update applying {op} to the current value", f.loc())
    gs = (d.method(AG, "set", "GaugeFn") or [None])[0]
    if gs:
        inn = ops_on(gs, "inner")
        ok = len(inn) == 1 and inn[0][1] in ("store", "swap") and sym_is_call(strip_sym(inn[0][3][1]), "to_bits") and is_param(strip_sym(strip_sym(inn[0][3][1])[2][0]), 1)
        chk.ob("C10.a", gs.path, ok, "set = inner.store(value.to_bits())" if ok else "gauge set is not a single store of value.to_bits()", gs.loc())
    # no load->store of the same field anywhere in the storage atomics
    for ty in (AC, AG):
        for f in [x for x in d.fns if x.dk == "AssocFn" and strip_generics(x.j.get("impl_self", "")) == ty]:
            ops = atomic_ops(f)
            byf = {}
            for o in ops:
                if o[2] is None:
                    continue  # a constructor (AtomicU64::new / default): no receiver
                r_ = strip_sym(o[2])
                fld = r_[2] if isinstance(r_, tuple) and r_ and r_[0] == "field" else "?"
                byf.setdefault(fld, []).append(o[1])
            bad = [fl_ for fl_, v in byf.items() if "load" in v and "store" in v]
            if bad:
                chk.ob("C10.a", f"{f.path} [single RMW per field]", False, f"field(s) {bad} are read and then written back separately (lost update under interleaving)", f.loc())

    # ---------------- C10.b
    sf = one_method(chk, "C10.b", d, STATE, "flush")
    if sf:
        b = sf.body
        sy = Sym(sf)
        F = [c for c in nonforeign_calls(sf) if c.fn is sf and c.is_("AtomicCounter::flush")]
        W = [c for c in nonforeign_calls(sf) if c.fn is sf and c.is_("PayloadWriter::write_counter")]
        if len(F) != 1 or len(W) != 1:
            chk.unrecognised("C10.b", f"{sf.path} [counter loop]", f"expected one counter.flush() and one write_counter, found {len(F)}/{len(W)}", sf.loc())
        else:
            # loop head of the counters loop = the Iterator::next that dominates F and is reachable from W
            heads = [c for c in nonforeign_calls(sf) if c.fn is sf and c.is_("Iterator::next") and b.dominates(c.bb, F[0].bb)]
            head = max(heads, key=lambda c: len(b.dominators()[c.bb])) if heads else None
            from facts import PredFlow

            def is_delta(x):
                x = strip_sym(x)
                return x[0] == "field" and x[2] == "0" and sym_is_call(strip_sym(x[1]), "AtomicCounter::flush")

            def cbool(x):
                x = strip_sym(x)
                if isinstance(x, tuple) and x and x[0] == "bin" and x[1] in ("Eq", "Ne"):
                    l, r = strip_sym(x[2]), strip_sym(x[3])
                    val = l if const_int(r) == 0 else (r if const_int(l) == 0 else None)
                    if val is not None and is_delta(val):
                        return ("P", "N") if x[1] == "Eq" else ("N", "P")
                return None

            def csw(subj, v):
                if is_delta(subj):
                    if v == 0:
                        return "P"
                    if isinstance(v, tuple) and v and v[0] == "not" and 0 in v[1]:
                        return "N"
                return None

            pf = PredFlow(sf, csw, cbool)  # P = "the delta just taken out of the counter is 0"
            zero_true = {x for x in range(b.n) if pf.at(x) == "P"}
            start = F[0].t.get("target")
            skip_any = head is not None and head.bb in b.reachable(start, cut={W[0].bb})
            skip_nonzero = head is not None and head.bb in b.reachable(start, cut={W[0].bb} | zero_true)
            ok = head is not None and not skip_nonzero
            chk.ob("C10.b", f"{sf.path} [idle skip]", ok, ("a counter is skipped only on a path where the flushed delta was tested == 0" if skip_any else "every flushed delta is written") if ok else "a counter whose flush() returned a (possibly non-zero) delta can be skipped without sending it: the delta was already consumed from the counter, so it is lost", F[0].loc())
            # idle bookkeeping: the mark set after an all-zero flush is taken back as soon as the counter is active again
            idle_calls = [c for c in nonforeign_calls(sf) if c.fn is sf and "idle_counters" in repr(arg_syms(c)[0] if c.args else "") and callee_method_name(c) in ("insert", "remove", "contains", "take", "retain", "clear", "get", "replace")]
            ins_ = [c for c in idle_calls if callee_method_name(c) in ("insert", "replace")]
            rem_ = [c for c in idle_calls if callee_method_name(c) in ("remove", "take")]
            chk_ = [c for c in idle_calls if callee_method_name(c) in ("contains", "get")]
            from props.common import result_unused

            # consulting the mark = contains/get, or an insert whose "was it new?" result is used (test-and-mark in one call)
            consulted = bool(chk_) or any(not result_unused(c) for c in ins_)
            okm = bool(ins_) and bool(rem_) and consulted and all(pf.at(c.bb) == "P" for c in ins_ + chk_) and all(pf.at(c.bb) != "P" for c in rem_)
            # every active flush of a counter passes the un-marking before it is written
            if okm:
                active_start = [x for x in range(b.n) if pf.at(x) == "N" and any(pf.at(p_) != "N" for p_ in b.preds().get(x, []))]
                okm = all(W[0].bb not in b.reachable(x, cut={c.bb for c in rem_}) or x in {c.bb for c in rem_} for x in active_start)
            chk.ob("C10.b", f"{sf.path} [idle mark cleared on activity]", okm, "the idle mark is inserted/consulted only after an all-zero flush and removed on every flush that saw activity (the closing zero is sent again after the next burst)" if okm else f"the idle mark is not taken back when the counter becomes active again (idle-set operations: {[callee_method_name(c) for c in idle_calls]}): after the first idle period its closing zero is never sent again", sf.loc())
            # the value written is the flushed delta
            wa = arg_syms(W[0])
            v = strip_sym(wa[2])
            okv = v[0] == "field" and v[2] == "0" and sym_is_call(strip_sym(v[1]), "AtomicCounter::flush")
            chk.ob("C10.b", f"{sf.path} [value written]", okv, "write_counter receives the delta returned by flush()" if okv else f"write_counter is given {sym_str(v)[:80]}, not the flushed delta", W[0].loc())
    fs = d.adts.get(f"{D}::state::FlushState")
    if fs:
        flds = {f["name"]: f["ty"] for f in fs["variants"][0]["fields"]}
        ty = flds.get("idle_counters", "")
        ok = "metrics::key::Key" in ty
        chk.ob("C10.b", "FlushState.idle_counters [keyed by the full Key]", ok, f"idle set is {ty.split('<')[0].split('::')[-1]}<Key>" if ok else f"idle bookkeeping is keyed by `{ty}`: counters with the same name but different tags share one idle mark", f"{fs['file']}:{fs['ln']}")
    else:
        chk.unrecognised("C10.b", "<anchor> FlushState", "missing")

    # ---------------- C10.c
    # what the mode says reaches every counter and gauge message: the timestamp handed to write_counter / write_gauge is the
    # result of get_aggregation_timestamp() itself on every path (not replaced by None for some names)
    sf_ = (d.method(STATE, "flush") or [None])[0]
    if sf_ is not None:
        for c in nonforeign_calls(sf_):
            if c.fn is sf_ and c.is_("PayloadWriter::write_counter", "PayloadWriter::write_gauge") and len(c.args) >= 4:
                ts = strip_sym(arg_syms(c)[3])
                alts_ = [strip_sym(x) for x in ts[1]] if ts[0] == "phi" else [ts]
                okts = all(sym_is_call(x, "State::get_aggregation_timestamp") for x in alts_)
                chk.ob("C10.c", f"{sf_.path} [{callee_method_name(c)} timestamp]", okts, "timestamp = self.get_aggregation_timestamp()" if okts else f"the timestamp written is {sym_str(ts)[:70]}: for some metrics it does not follow the aggregation mode (a metric is sent without a timestamp in a mode documented to send one, or the reverse)", c.loc(), nontrivial=False)
    am = d.adts.get(f"{D}::builder::AggregationMode")
    gat = one_method(chk, "C10.c", d, STATE, "get_aggregation_timestamp")
    if am and gat:
        arms = enum_arms(gat, "builder::AggregationMode")
        for v in am["variants"]:
            doc = " ".join((v.get("docs") or "").split()).lower()
            if "not sent with a timestamp" in doc or "without a timestamp" in doc:
                want = "None"
            elif "sent with a timestamp" in doc or "with a timestamp" in doc:
                want = "Some"
            else:
                chk.unrecognised("C10.c", f"AggregationMode::{v['name']} [docs]", "variant documentation does not say whether a timestamp is sent", f"{am['file']}:{am['ln']}")
                continue
            arm = (arms or {}).get(v["name"])
            got = None
            if arm and arm["ret"] is not None:
                alts = []

                def flat(x):
                    x = strip_sym(x)
                    if x[0] == "phi":
                        for y in x[1]:
                            flat(y)
                    else:
                        alts.append(x)

                flat(arm["ret"])

                def is_some(x):
                    if x[0] == "agg" and x[2] == "Some":
                        return True
                    return x[0] == "call" and any(sym_is_call(y, "duration_since", "SystemTime::now") for y in sym_walk(x) if isinstance(y, tuple) and y and y[0] == "call")

                if alts and all(x[0] == "agg" and x[2] == "None" for x in alts):
                    got = "None"
                elif any(is_some(x) for x in alts):
                    got = "Some"
            if got is None:
                got = _timestamp_for_variant(gat, "AggregationMode", v["name"])
            chk.ob("C10.c", f"AggregationMode::{v['name']} [timestamp]", got == want, f"documented `{want}` and implemented `{got}`" if got == want else f"documented to send {'a' if want == 'Some' else 'no'} timestamp, but get_aggregation_timestamp returns {got} for this mode", gat.loc())
    else:
        chk.unrecognised("C10.c", "<anchor> AggregationMode / get_aggregation_timestamp", "missing")

    # ---------------- C10.d
    if sf:
        b = sf.body
        wd = [c for c in nonforeign_calls(sf) if c.is_("PayloadWriter::write_distribution")]
        wh = [c for c in nonforeign_calls(sf) if c.is_("PayloadWriter::write_histogram")]
        ok = len(wd) == 1 and len(wh) == 1 and wd[0].fn is wh[0].fn
        if ok:
            bb_ = wd[0].body
            def hd(gs, lab):
                return any(l is lab and "histograms_as_distributions" in repr(dd) for dd, l in gs)
            ok = hd(gates(bb_, wd[0].bb), True) and hd(gates(bb_, wh[0].bb), False)
        chk.ob("C10.d", f"{sf.path} [histogram vs distribution]", ok, "histograms_as_distributions == true -> write_distribution, false -> write_histogram" if ok else "write_distribution / write_histogram are not selected by histograms_as_distributions as configured", sf.loc())
        # telemetry prefix: every writer call's prefix argument is None exactly when name starts with the telemetry prefix
        writers = [c for c in nonforeign_calls(sf) if c.is_("PayloadWriter::write_counter", "PayloadWriter::write_gauge", "PayloadWriter::write_distribution", "PayloadWriter::write_histogram")]
        okp = bool(writers)
        for c in writers:
            a = [Sym(c.fn).operand(x) for x in c.args]
            pre = a[4]
            txt = repr(pre)
            alts = []
            def flat(x):
                x = strip_sym(x)
                if x[0] == "phi":
                    for y in x[1]:
                        flat(y)
                elif x[0] == "capture":
                    flat(x[2])
                else:
                    alts.append(x)
            flat(pre)
            has_none = any(x[0] == "agg" and x[2] == "None" for x in alts)
            has_cfg = any("global_prefix" in repr(x) for x in alts)
            okp = okp and has_none and has_cfg and len(alts) == 2
        sw = [c for c in nonforeign_calls(sf) if c.is_("str::starts_with", "starts_with")]
        lits = {strip_sym(Sym(c.fn).operand(c.args[1]))[2] for c in sw if strip_sym(Sym(c.fn).operand(c.args[1]))[:2] == ("const", "str")}
        okp = okp and len(sw) == 3 and lits == {"datadog.dogstatsd.client"}
        chk.ob("C10.d", f"{sf.path} [telemetry prefix]", okp, "the global prefix is None for names starting with datadog.dogstatsd.client, the configured prefix otherwise (all three kinds)" if okp else "the global prefix is not dropped exactly for telemetry names at every writer call", sf.loc())
        wg = [c for c in nonforeign_calls(sf) if c.fn is sf and c.is_("PayloadWriter::write_gauge")]
        okg = len(wg) == 1
        if okg:
            v = strip_sym(arg_syms(wg[0])[2])
            okg = v[0] == "field" and v[2] == "0" and sym_is_call(strip_sym(v[1]), "AtomicGauge::flush")
        chk.ob("C10.d", f"{sf.path} [gauge value]", okg, "write_gauge receives the value returned by gauge.flush()" if okg else "write_gauge is not given the flushed gauge value", sf.loc())
    ilp = (d.method(f"{D}::forwarder::ForwarderConfiguration", "is_length_prefixed") or [None])[0]
    if ilp:
        arms = enum_arms(ilp, "forwarder::RemoteAddr")
        want = {"Udp": False, "Unix": True, "Unixgram": False}
        got = {}
        for v, a in (arms or {}).items():
            if v == "__switch__":
                continue
            r = strip_sym(a["ret"]) if a["ret"] else None
            got[v] = r[2] if r is not None and r[:2] == ("const", "bool") else None
        chk.ob("C10.d", ilp.path, got == want, f"length prefix: {got}" if got == want else f"is_length_prefixed table is {got}, expected {want} (only the stream transport is length-prefixed)", ilp.loc())
    else:
        chk.unrecognised("C10.d", "<anchor> ForwarderConfiguration::is_length_prefixed", "missing")
    run_ = (d.method(f"{D}::forwarder::sync::Forwarder", "run") or [None])[0]
    if run_:
        pw = [c for c in nonforeign_calls(run_) if c.fn is run_ and c.is_("PayloadWriter::new")]
        ok = len(pw) == 1 and sym_is_call(arg_syms(pw[0])[1], "ForwarderConfiguration::is_length_prefixed") and "max_payload_len" in repr(arg_syms(pw[0])[0])
        chk.ob("C10.d", f"{run_.path} [writer framing]", ok, "PayloadWriter::new(config.max_payload_len, config.is_length_prefixed())" if ok else "the payload writer's framing mode does not come from is_length_prefixed()", run_.loc())
    snd = (d.method(f"{D}::forwarder::sync::Client", "send") or [None])[0]
    if snd:
        arms = enum_arms(snd, "forwarder::sync::Client")
        want = {"Udp": "send", "Unixgram": "send", "Unix": "write_all"}
        got = {}
        for v, a in (arms or {}).items():
            if v == "__switch__":
                continue
            io = [callee_method_name(c) for c in a["calls"] if callee_method_name(c) in ("send", "write", "write_all", "send_to", "write_vectored")]
            got[v] = io[0] if len(io) == 1 else io
        chk.ob("C10.d", snd.path, got == want, f"transport writes: {got}" if got == want else f"transport writes are {got}, expected {want}: a partial write() on the stream socket leaves a truncated length-prefixed frame and desynchronises the agent's decoder", snd.loc())
    else:
        chk.unrecognised("C10.d", "<anchor> Client::send", "missing")
    hf = one_method(chk, "C10.d", d, AH, "flush")
    if hf:
        arms = enum_arms(hf, "storage::AtomicHistogram")
        want = {"Raw": "clear_with", "Sampled": "consume"}
        got = {}
        for v, a in (arms or {}).items():
            if v == "__switch__":
                continue
            io = [callee_method_name(c) for c in a["calls"] if callee_method_name(c) in ("clear_with", "consume", "data", "data_with", "clear", "drain")]
            got[v] = io[0] if len(io) == 1 else io
        chk.ob("C10.d", hf.path, got == want, "histograms are drained destructively (clear_with / consume): each value is flushed once" if got == want else f"histogram flush reads through {got}: a non-destructive read sends values again on the next flush", hf.loc())
    hr = one_method(chk, "C10.d", d, AH, "record")
    if hr:
        arms = enum_arms(hr, "storage::AtomicHistogram")
        got = {v: [callee_method_name(c) for c in a["calls"]] for v, a in (arms or {}).items() if v != "__switch__"}
        ok = got == {"Raw": ["push"], "Sampled": ["push"]}
        chk.ob("C10.d", hr.path, ok, "record -> push on the active storage" if ok else f"record does {got}", hr.loc(), nontrivial=False)

    _imports(ctx)


def _timestamp_for_variant(fn, enum_suffix, variant):
    """What fn returns when the aggregation mode is `variant`, when the mode is first turned into a bool by a helper
    (`fn sends_timestamps() -> bool { match mode { A => false, B => true } }`, spliced in) and the bool is branched on:
    the arm's constant is carried along the paths from that arm.  'Some' / 'None' / None (cannot tell)."""
    b = fn.body
    sy = Sym(fn)
    start = None
    for s_ in range(b.n):
        t = b.term(s_)
        if t["k"] == "switch" and (t.get("enum") or "").endswith(enum_suffix):
            covered = {a.get("variant") for a in t["arms"]}
            for lab, tg in b.switch_edges(s_):
                if lab == variant or (lab == "otherwise" and variant not in covered):
                    start = tg
    if start is None:
        return None
    outcomes = set()
    seen = set()
    work = [(start, ())]
    while work:
        bb, env = work.pop()
        if (bb, env) in seen or len(seen) > 400:
            continue
        seen.add((bb, env))
        e = dict(env)
        for st in b.blocks[bb]["s"]:
            if st["k"] != "assign" or st["p"].get("pr"):
                continue
            rv = st["rv"]
            l = st["p"]["l"]
            if rv["k"] == "use" and "const" in rv["a"] and "bool" in rv["a"]["const"]:
                e[l] = bool(rv["a"]["const"]["bool"])
            elif rv["k"] == "use" and (rv["a"].get("copy") or rv["a"].get("move")) and not (rv["a"].get("copy") or rv["a"].get("move")).get("pr") and (rv["a"].get("copy") or rv["a"].get("move"))["l"] in e:
                e[l] = e[(rv["a"].get("copy") or rv["a"].get("move"))["l"]]
            elif rv["k"] == "un" and rv.get("op") == "Not" and (rv["a"].get("copy") or rv["a"].get("move") or {}).get("l") in e:
                e[l] = not e[(rv["a"].get("copy") or rv["a"].get("move"))["l"]]
            else:
                e.pop(l, None)
            if l == 0:
                v = strip_sym(sy.rvalue(rv, 0, frozenset()))
                if v[0] == "agg" and v[2] in ("Some", "None"):
                    outcomes.add(v[2])
                elif any(isinstance(y, tuple) and y and y[0] == "call" and sym_is_call(y, "duration_since", "SystemTime::now") for y in sym_walk(v)):
                    outcomes.add("Some")
                else:
                    outcomes.add("?")
        t = b.term(bb)
        env2 = tuple(sorted(e.items()))
        if t["k"] == "switch" and t.get("dty") == "bool":
            d = t["discr"].get("copy") or t["discr"].get("move") or {}
            if not d.get("pr") and d.get("l") in e:
                vals = [a["v"] for a in t["arms"]]
                for lab, tg in b.switch_edges(bb):
                    truth = (not bool(vals[0]) if len(vals) == 1 else None) if lab == "otherwise" else bool(lab)
                    if truth == e[d["l"]]:
                        work.append((tg, env2))
                continue
        if t["k"] == "call" and t.get("dest") and not t["dest"].get("pr"):
            e.pop(t["dest"]["l"], None)
            env2 = tuple(sorted(e.items()))
            if t["dest"]["l"] == 0:
                r_ = t.get("resolved") or t.get("callee") or ""
                outcomes.add("None" if "from_residual" in r_ else ("Some" if any(w in r_ for w in ("duration_since", "::map", "::ok")) else "?"))
        for nx in b.succ(bb):
            if not b.blocks[nx].get("cleanup"):
                work.append((nx, env2))
    if outcomes == {"None"}:
        return "None"
    if "Some" in outcomes and "?" not in outcomes:
        return "Some"
    return None


def _forwarder_rules(ctx):
    """Stream framing survives a failed send: the connection is kept only where send() returned Ok — after any error (a
    timed-out write may have written part of a length-prefixed frame) the next payload goes out on a fresh connection."""
    from props.common import result_flow

    chk = ctx.check
    d = ctx.crate("metrics_exporter_dogstatsd")
    if d is None:
        return
    ts = [f for f in d.fns if f.name == "try_send" and "forwarder::sync::ClientState" in f.j.get("impl_self", "")]
    if len(ts) != 1:
        chk.unrecognised("C10.d", "<anchor> forwarder::sync::ClientState::try_send", f"found {len(ts)}")
        return
    f = ts[0]
    b = f.body
    sends = [c for c in nonforeign_calls(f) if c.fn is f and c.is_("Client::send")]
    if len(sends) != 1:
        chk.unrecognised("C10.d", f"{f.path} [connection kept only after a successful send]", f"expected one Client::send, found {len(sends)}", f.loc())
        return
    pf = result_flow(f, "Client::send")
    after = b.reachable_after(sends[0].bb)
    # the client the payload was sent on: wherever it is put back into the forwarder's state afterwards (an enum variant
    # carrying it, `Some(client)` stored in a field, ...) is a site that keeps the connection
    CL = None
    a0 = sends[0].args[0].get("move") or sends[0].args[0].get("copy") or {}
    if a0.get("l") is not None and not a0.get("pr"):
        dd = [d for d in b.defs().get(a0["l"], []) if d[0] == "assign"]
        if len(dd) == 1 and dd[0][3]["rv"]["k"] == "ref" and not [e for e in (dd[0][3]["rv"]["p"].get("pr") or []) if e != "*"]:
            CL = dd[0][3]["rv"]["p"]["l"]
    if CL is None:
        chk.unrecognised("C10.d", f"{f.path} [connection kept only after a successful send]", "cannot see which variable holds the client that send() is called on", f.loc())
        return
    alias = {CL}
    grew = True
    while grew:
        grew = False
        for i, k, st in b.stmts():
            if st["k"] == "assign" and not st["p"].get("pr") and st["rv"]["k"] == "use":
                mv = st["rv"]["a"].get("move")
                if mv and not mv.get("pr") and mv["l"] in alias and st["p"]["l"] not in alias:
                    alias.add(st["p"]["l"])
                    grew = True
    kept = [(i, st) for i, k, st in b.stmts() if i in after and st["k"] == "assign" and st["rv"]["k"] == "agg" and any((o.get("move") or {}).get("l") in alias and not (o.get("move") or {}).get("pr") for o in st["rv"].get("ops") or [])]
    bad = [(i, st) for i, st in kept if pf.at(i) != "P"]
    if not kept:
        # the client is never put back: every payload goes out on a fresh connection (nothing to decide)
        chk.ob("C10.d", f"{f.path} [connection kept only after a successful send]", True, "the client is not kept across sends at all", f.loc(), nontrivial=False)
        return
    chk.ob("C10.d", f"{f.path} [connection kept only after a successful send]", bool(kept) and not bad, f"{len(kept)} site(s) put the client back after the send, each on its Ok edge" if kept and not bad else "the connection is kept (the client is stored back) on a path where send() did not return Ok: after a partial write on the stream transport the next frame is appended behind a truncated one and the agent stays misaligned", f"{f.file}:{bad[0][1].get('ln')}" if bad else f.loc(), nontrivial=False)


def _imports(ctx):
    from props.common import import_rules

    _forwarder_rules(ctx)

    import_rules(ctx, "C05", {"C05.b", "C05.c", "C05.d", "C05.e"}, "C10.g", "imported from C05 (AtomicBucket<f64> is the storage of an unsampled histogram, drained by each flush): a detached block is read only after its in-flight writers have published, blocks are linked before they are published, every slot is claimed once — otherwise a value recorded while a flush runs is sent in no flush or in two", floor=6)
    import_rules(ctx, "C06", {"C06.b", "C06.c", "C06.e"}, "C10.h", "imported from C06 (the registry the recorder registers into and every flush lists): one hash/shard/key per lookup, check-and-insert in one critical section with entry-API-only insertion — otherwise a racing first registration replaces the counter another thread already holds, and its increments are never flushed", floor=12)
    import_rules(ctx, "C09", {"C09.a", "C09.b", "C09.c", "C09.e"}, "C10.e", "imported from C09 (what the agent socket receives is these messages, correctly framed): placeholder / length-prefix invariant, complete shadow length in the histogram splitter, limit test and header, message grammar with the type token of the metric written — otherwise a flushed value is lost in a torn frame or the forwarder thread panics", floor=15)


def run_config(ctx):
    run(ctx)
