"""C15 — histogram buckets and summary windows mean what Prometheus says they mean."""
from facts import Sym, path_is, strip_generics, strip_sym, sym_arg, sym_calls, sym_is_call, sym_str, sym_through, sym_walk
from props.common import arg_syms, bool_switches, callee_method_name, calls_to, crate_stats, enum_arms, gates, in_cycle, need, nonforeign_calls, one_method

KEEP = [  # private helpers the rules name (kept as functions); every other non-exported, non-trait function is spliced into its callers
    "AtomicBucketInstant::new", "Block::data", "Block::len", "Block::new",
    "CompositeKeyName::new", "Generational::new", "Inner::new", "Matcher::sanitized",
    "MetricKindMask::value",
]
TITLE = "C15 histogram buckets and summary windows mean what Prometheus says."
CONFIGS = ["test-profile", "util-storage"]
H = "metrics_util::storage::histogram::Histogram"
P = "metrics_exporter_prometheus"


def is_param(s, i):
    a = sym_arg(s)
    return a is not None and a[0] == i


def const_int(s):
    s = strip_sym(s)
    return s[2] if s[:2] == ("const", "int") else None


def comparisons(fn):
    """[(op, a-sym, b-sym, bb)] for ordering comparisons in fn (primitive ops and PartialOrd calls), non-foreign."""
    out = []
    sy = Sym(fn)
    b = fn.body
    for i, k, s in b.stmts():
        if s["k"] == "assign" and s["rv"]["k"] == "bin" and s["rv"]["op"] in ("Lt", "Le", "Gt", "Ge") and not s.get("exp"):
            out.append((s["rv"]["op"], strip_sym(sy.operand(s["rv"]["a"])), strip_sym(sy.operand(s["rv"]["b"])), i))
    for c in nonforeign_calls(fn):
        if c.fn is fn and c.is_("PartialOrd::lt", "PartialOrd::le", "PartialOrd::gt", "PartialOrd::ge"):
            a = arg_syms(c)
            out.append((callee_method_name(c).capitalize(), strip_sym(a[0]), strip_sym(a[1]), c.bb))
    return out


def float_comparisons(fn):
    """[(op, a-sym, b-sym, bb, owner-fn)] for f64 ordering comparisons anywhere in fn's region (closures included)."""
    out = []
    for g in fn.region():
        sy = Sym(g)
        b = g.body
        for i, k, s in b.stmts():
            if s["k"] == "assign" and s["rv"]["k"] == "bin" and s["rv"]["op"] in ("Lt", "Le", "Gt", "Ge") and not s.get("exp"):
                pa = s["rv"]["a"].get("copy") or s["rv"]["a"].get("move")
                pb = s["rv"]["b"].get("copy") or s["rv"]["b"].get("move")
                tys = [b.local_ty(p_["l"]) for p_ in (pa, pb) if p_ and not p_.get("pr")]
                if any("f64" in t for t in tys):
                    out.append((s["rv"]["op"], sy.operand(s["rv"]["a"]), sy.operand(s["rv"]["b"]), i, g))
        for c in nonforeign_calls(g):
            if c.fn is g and c.is_("PartialOrd::lt", "PartialOrd::le", "PartialOrd::gt", "PartialOrd::ge") and "f64" in repr(c.t.get("gargs")) + (c.t.get("self_ty") or ""):
                a = arg_syms(c)
                out.append((callee_method_name(c).capitalize(), a[0], a[1], c.bb, g))
    return out


def _is_sample_side(x, owner, root):
    """the operand that carries the recorded sample: derived from parameter 1 of record/record_many (directly, or
    through a capture when the comparison sits in a closure)"""
    txt = repr(x)
    if owner is root:
        return "('arg', 1" in txt and "'bounds'" not in txt
    return "('capture'" in txt and "'bounds'" not in txt


def field_updates(fn, field):
    """assignments to self.<field>: [(bb, value-sym)]"""
    out = []
    sy = Sym(fn)
    for i, k, s in fn.body.stmts():
        if s["k"] == "assign" and s["p"].get("pr"):
            fl = [e.get("f") for e in s["p"]["pr"] if isinstance(e, dict) and "f" in e]
            # through `self` directly or through the `&mut self` handed to a spliced helper
            if fl == [field] and (s["p"]["l"] == 1 or is_param(sym_through(sy.local(s["p"]["l"])), 0)):
                out.append((i, strip_sym(sy.rvalue(s["rv"], 0, frozenset()))))
            elif not fl and s["p"]["pr"] == ["*"] and s["p"]["l"] > fn.body.argc:
                # through a `&mut self.<field>` bound by destructuring (`let Histogram { sum, count, .. } = self; *sum += x`)
                tgt = strip_sym(sy.local(s["p"]["l"]))
                if isinstance(tgt, tuple) and len(tgt) >= 3 and tgt[0] == "field" and tgt[2] == field and is_param(strip_sym(tgt[1]), 0):
                    out.append((i, strip_sym(sy.rvalue(s["rv"], 0, frozenset()))))
    return out


def run(ctx):
    chk = ctx.check
    u = ctx.crate("metrics_util")
    p = ctx.crate("metrics_exporter_prometheus")
    crate_stats(chk, u, p)
    chk.rule("C15.a", "SIB bound comparison: Histogram::record and record_many compare with the same operator (sample <= bound, operand order) and both update sum and count; record_many stops at the first matching bound, then runs the cumulative pass over 0..len-1 and merges every local bucket; buckets() zips bounds with counts in order", floor=6)
    chk.rule("C15.b", "TBL matcher precedence: Matcher variants are declared Full, Prefix, Suffix with derived Ord; DistributionBuilder::new sorts overrides by the matcher; get_distribution returns on the first match and consults overrides before global buckets; Matcher::matches = == / starts_with / ends_with; sanitized is variant-preserving and set_buckets_for_metric stores the sanitised matcher", floor=7)
    chk.rule("C15.d", "SIB rolling window consistency: RollingSummary::add and snapshot expire with the same predicate (begin > now - max_bucket_duration); count is incremented unconditionally; max_bucket_duration = bucket_duration x buckets; a sample joins an existing bucket only within its [begin, begin+duration) interval", floor=5)
    chk.trust("sketches_ddsketch (Summary)", "slice::sort_by", "str::{starts_with,ends_with}")
    chk.residue.append("quantile accuracy (sketch arithmetic), equality of record x n and record_many beyond operator/structure agreement, and window-edge numerics are NOT decided; C15.c (TYPE agrees with variant) is decided as C08.f")

    # ---------------- C15.a
    if u is not None:
        rec = one_method(chk, "C15.a", u, H, "record")
        rm = one_method(chk, "C15.a", u, H, "record_many")
        ops = {}
        for nm, f in (("record", rec), ("record_many", rm)):
            if not f:
                continue
            cs = float_comparisons(f)
            if len(cs) != 1:
                chk.unrecognised("C15.a", f"{f.path} [bound comparison]", f"expected one comparison of the sample against a bound, found {len(cs)}", f.loc())
                continue
            op, a, b_, bb, owner = cs[0]
            sa, sb = _is_sample_side(a, owner, f), _is_sample_side(b_, owner, f)
            if sa == sb:
                chk.unrecognised("C15.a", f"{f.path} [bound comparison]", f"cannot tell the sample from the bound in {sym_str(a)[:40]} {op} {sym_str(b_)[:40]}", f.loc())
                continue
            if sb:
                # normalise to (sample OP bound)
                op = {"Lt": "Gt", "Le": "Ge", "Gt": "Lt", "Ge": "Le"}[op]
            if owner is not f:
                bb = None
            ops[nm] = (op, f, bb)
            chk.ob("C15.a", f"{f.path} [operator]", op == "Le", "bucket test is sample <= bound" if op == "Le" else f"bucket test is sample {op} bound: Prometheus buckets count samples <= le (a sample equal to a bound belongs to that bucket)", f.loc())
        if len(ops) == 2:
            same = ops["record"][0] == ops["record_many"][0]
            chk.ob("C15.a", f"{H} [record ~ record_many operator]", same, "record and record_many use the same comparison" if same else f"record uses {ops['record'][0]}, record_many uses {ops['record_many'][0]}: recording singly and in batches gives different buckets for samples equal to a bound", rm.loc())
        if rec:
            su, cu = field_updates(rec, "sum"), field_updates(rec, "count")
            ok = len(su) == 1 and su[0][1][0] == "bin" and su[0][1][1].startswith("Add") and is_param(su[0][1][3], 1) and len(cu) == 1 and "Add" in repr(cu[0][1])[:40] and not in_cycle(rec.body, su[0][0]) and not in_cycle(rec.body, cu[0][0])
            incs = [c for c in comparisons(rec)]
            chk.ob("C15.a", f"{rec.path} [sum/count]", ok, "sum += sample; count += 1 (once per call)" if ok else "record does not add the sample to sum and 1 to count exactly once", rec.loc())
            # increments every matching bucket (no break): the bucket increment is in the loop and the loop continues
            b = rec.body
            bu = [c.bb for c in nonforeign_calls(rec) if c.fn is rec and c.is_("IndexMut::index_mut") and "'buckets'" in repr(arg_syms(c)[0])]
            bu += [i for i, k, s in b.stmts() if s["k"] == "assign" and s["p"].get("pr") and any(isinstance(e, dict) and "idx" in e for e in s["p"]["pr"]) and s["rv"]["k"] in ("bin", "use")]
            # `*slot += 1` through a reference obtained from zip(bounds, buckets.iter_mut())
            if not bu:
                rsy = Sym(rec)
                for i, k, s_ in b.stmts():
                    if s_["k"] == "assign" and s_["p"].get("pr") == ["*"]:
                        v_ = rsy.rvalue(s_["rv"], 0, frozenset())
                        plus_one = any(isinstance(x, tuple) and x and x[0] == "bin" and str(x[1]).startswith("Add") and const_int(x[3]) == 1 for x in sym_walk(v_))
                        src_txt = repr(rsy.local(s_["p"]["l"]))
                        if plus_one and "iter_mut" in src_txt and "'buckets'" in src_txt and "zip" in src_txt and "'bounds'" in src_txt:
                            bu.append(i)
            okl = bool(bu) and all(in_cycle(b, i) for i in bu)
            # after the increment control returns to the loop head (no break)
            heads = [c.bb for c in nonforeign_calls(rec) if c.is_("Iterator::next")]
            okl = okl and heads and all(heads[0] in b.reachable(i) for i in bu)
            if not okl:
                # iterator spelling: bounds.iter().zip(buckets.iter_mut()).filter(<the comparison>).for_each(|..| *count += 1)
                for c in nonforeign_calls(rec):
                    if c.fn is rec and c.is_("Iterator::for_each") and not in_cycle(b, c.bb):
                        src = sym_str(arg_syms(c)[0])
                        chain = set(__import__("re").findall(r"([a-z_]+)\(", src))
                        cmp_in_filter = any(o[4] is not rec for o in float_comparisons(rec))
                        if "filter" in chain and "zip" in chain and "bounds" in src and "buckets" in src and cmp_in_filter and not (chain & {"take", "skip", "rev", "step_by", "take_while", "skip_while", "nth", "last", "find", "position"}):
                            okl = True
            chk.ob("C15.a", f"{rec.path} [every bound >= sample]", okl, "record increments every bucket whose bound admits the sample (no early exit)" if okl else "record stops at the first matching bucket without a cumulative pass: counts are not cumulative", rec.loc())
        if rm:
            b = rm.body
            sy = Sym(rm)
            su, cu = field_updates(rm, "sum"), field_updates(rm, "count")
            ok = len(su) == 1 and len(cu) == 1 and not in_cycle(b, su[0][0]) and not in_cycle(b, cu[0][0])
            # every sample of the batch enters the batch sum: the f64 accumulation is on every way round the sample loop
            # (skipping non-finite samples makes _sum differ from the sum of what was recorded)
            skipped = None
            for i_, k_, st in b.stmts():
                if st["k"] == "assign" and st["rv"]["k"] == "bin" and st["rv"]["op"].startswith("Add") and "f64" in b.local_ty(st["p"]["l"]) and in_cycle(b, i_):
                    v_ = repr(sy.rvalue(st["rv"], 0, frozenset()))
                    if "Iterator::next" not in v_ and "next" not in v_:
                        continue
                    heads_ = [c for c in nonforeign_calls(rm) if c.fn is rm and c.is_("Iterator::next") and i_ in b.reachable(c.bb) and c.bb in b.reachable(i_) and "enumerate" not in sym_str(arg_syms(c)[0]).lower()]
                    for hd in heads_[:1]:
                        if hd.bb in b.reachable_after(hd.bb, cut={i_}):
                            skipped = (i_, st.get("ln"))
            if skipped:
                ok = False
            chk.ob("C15.a", f"{rm.path} [sum/count]", ok, "self.sum += batch sum; self.count += batch count" if ok else ("a sample can go round the batch loop without being added to the batch sum (conditional accumulation): _sum is no longer the sum of the recorded samples" if skipped else "") or "record_many does not fold the batch's sum and count into the histogram exactly once", rm.loc())
            # cumulative pass: an indexed update bucketed[idx + 1] += bucketed[idx] in a loop over 0..len-1
            rngs = []
            for c in nonforeign_calls(rm):
                if c.is_("IntoIterator::into_iter"):
                    r = strip_sym(sy.operand(c.args[0]))
                    if r[0] == "agg" and (r[5] or "").endswith("ops::range::Range"):
                        rngs.append(r)
            okc = False
            for r in rngs:
                lo, hi = strip_sym(r[3][0]), strip_sym(r[3][1])
                hi_t = hi[1] if hi[0] == "field" else hi
                hi_t = strip_sym(hi_t)
                if const_int(lo) == 0 and hi_t[0] == "bin" and hi_t[1].startswith("Sub") and const_int(hi_t[3]) == 1 and "len" in sym_str(hi_t[2]):
                    okc = True
                if const_int(lo) == 1 and sym_is_call(hi_t, "len") or (const_int(lo) == 1 and "len(" in sym_str(hi_t) and hi_t[0] == "call"):
                    okc = guard1 = True  # 1..len with x[i] += x[i - 1]: empty for len < 2, no guard needed
            guard = locals().get("guard1", False) or any("len" in sym_str(a) and ((op == "Ge" and const_int(b_) in (1, 2)) or (op == "Gt" and const_int(b_) == 1)) for op, a, b_, bb in comparisons(rm))  # the guard must let a two-bound histogram through
            if not (okc and guard):
                # the same sums taken on the fly: the merge loop adds a running total of the local buckets
                # (`acc += local; self.buckets[idx] += acc`) instead of making the local buckets cumulative first
                from props.common import value_def

                for c in nonforeign_calls(rm):
                    if not (c.fn is rm and c.is_("IndexMut::index_mut") and "'buckets'" in repr(arg_syms(c)[0]) and is_param(_root(arg_syms(c)[0]), 0) and in_cycle(b, c.bb)):
                        continue
                    d_ = c.t["dest"]["l"]
                    for i_, k_, st in b.stmts():
                        if not (st["k"] == "assign" and st["p"]["l"] == d_ and st["p"].get("pr") == ["*"]):
                            continue
                        vd = value_def(b, st["rv"]["a"]) if st["rv"]["k"] == "use" else ("rv", i_, st["rv"])
                        if vd[0] == "place":
                            dd = [x for x in b.defs().get(vd[1]["l"], [])]
                            vd = ("rv", dd[0][1], dd[0][3]["rv"]) if len(dd) == 1 and dd[0][0] == "assign" else vd
                        if not (vd[0] == "rv" and vd[2]["k"] == "bin" and vd[2]["op"].startswith("Add")):
                            continue
                        acc = value_def(b, vd[2]["b"])
                        if acc[0] != "var":
                            continue
                        A = acc[1]
                        defs_ = b.defs().get(A, [])
                        init = [x for x in defs_ if x[0] == "assign" and not in_cycle(b, x[1]) and x[3]["rv"]["k"] == "use" and (x[3]["rv"]["a"].get("const") or {}).get("int") == 0]
                        steps = [(x[1], repr(strip_sym(sy.rvalue(x[3]["rv"], 0, frozenset())))) for x in defs_ if x[0] == "assign" and in_cycle(b, x[1])]
                        from props.common import pointers_to

                        ptrs_ = pointers_to(b, A)
                        for c2 in nonforeign_calls(rm):
                            if c2.fn is rm and c2.is_("AddAssign::add_assign") and in_cycle(b, c2.bb) and (c2.args[0].get("move") or c2.args[0].get("copy") or {}).get("l") in ptrs_:
                                steps.append((c2.bb, "Add " + repr(arg_syms(c2)[1])))
                        if len(init) == 1 and len(steps) == 1 and len(defs_) == len(init) + len([x for x in defs_ if x[0] == "assign" and in_cycle(b, x[1])]):
                            txt = steps[0][1]
                            running = "Add" in txt and "Enumerate" in txt and "from_elem" in txt  # acc + <element of the local buckets being enumerated>
                            if running and b.dominates(steps[0][0], i_) and "Enumerate" in repr(arg_syms(c)[1]):
                                okc = guard = True
            chk.ob("C15.a", f"{rm.path} [cumulative pass]", okc and guard, "bucketed[i + 1] += bucketed[i] for i in 0..len-1 (guarded for len < 2)" if okc and guard else "record_many has no cumulative pass over 0..len-1: batch counts are per-bucket, not cumulative", rm.loc())
            # break after the first match in the sample loop: the local-bucket increment block does not reach the inner loop head again
            inner_heads = [c for c in nonforeign_calls(rm) if c.is_("Iterator::next") and "enumerate" in sym_str(arg_syms(c)[0]).lower()]
            cmpb = ops.get("record_many", (None, None, None))[2]
            okb = False
            if inner_heads and cmpb is not None:
                for bb, dd, t_t, f_t in bool_switches(b):
                    if bb == cmpb or b.dominates(cmpb, bb) and bb in b.reachable(cmpb) and any(x[3] == cmpb for x in comparisons(rm)):
                        tgt = t_t
                        head = inner_heads[0].bb
                        if head not in b.reachable(tgt, cut={c.bb for c in nonforeign_calls(rm) if c.is_("Iterator::next") and c.bb != head}):
                            okb = True
            if not okb:
                pos = [c for c in nonforeign_calls(rm) if c.is_("Iterator::position", "Iterator::find", "Iterator::find_map") and "'bounds'" in repr(arg_syms(c)[0])]
                if len(pos) == 1 and any(o[4] is not rm for o in float_comparisons(rm)):
                    okb = True  # position()/find() stop at the first bound that admits the sample
            chk.ob("C15.a", f"{rm.path} [first matching bound only]", okb, "each sample is counted in the first bound that admits it (then made cumulative)" if okb else "record_many counts a sample in several local buckets before the cumulative pass (double counting)", rm.loc())
        bk = one_method(chk, "C15.a", u, H, "buckets")
        if bk:
            r = strip_sym(Sym(bk).local(0))
            chain = []
            cur = r
            ok = sym_is_call(r, "Iterator::collect")
            z = strip_sym(r[2][0]) if ok else None
            ok = ok and sym_is_call(z, "Iterator::zip") and "'bounds'" in repr(z[2][0]) and "'buckets'" in repr(z[2][1]) and "rev" not in sym_str(z) and "skip" not in sym_str(z)
            chk.ob("C15.a", bk.path, ok, "buckets() = bounds.zip(counts) in order" if ok else "buckets() does not pair each bound with its own count in order", bk.loc())

    # ---------------- C15.b
    if p is not None:
        m = p.adts.get(f"{P}::common::Matcher")
        if m:
            order = [v["name"] for v in m["variants"]]
            derived = {i["trait"].split("::")[-1] for i in p.impls if i.get("derived") and i["self_ty"] == f"{P}::common::Matcher" and i.get("trait")}
            ok = order == ["Full", "Prefix", "Suffix"] and {"Ord", "PartialOrd", "Eq", "PartialEq"} <= derived
            chk.ob("C15.b", f"{P}::common::Matcher [variant order]", ok, "variants declared Full < Prefix < Suffix with derived Ord" if ok else f"Matcher variants are {order} (derived {sorted(derived)}): override precedence full > prefix > suffix relies on this declaration order", f"{m['file']}:{m['ln']}")
        else:
            chk.unrecognised("C15.b", "<anchor> Matcher", "missing")
        DB = f"{P}::distribution::DistributionBuilder"
        nw = one_method(chk, "C15.b", p, DB, "new")
        if nw:
            sorts = [c for c in nonforeign_calls(nw) if callee_method_name(c).startswith("sort")]
            ok = len(sorts) == 1
            detail = f"{[callee_method_name(c) for c in sorts]}"
            if ok:
                c = sorts[0]
                # an unstable sort is as good when no two elements compare equal: the entries are the pairs of a map
                from_map = "hash::map::HashMap" in repr(arg_syms(c)[0]) or "HashMap" in repr(arg_syms(c)[0])
                if callee_method_name(c) == "sort_by" or (callee_method_name(c) == "sort_unstable_by" and from_map):
                    cl = strip_sym(Sym(c.fn).operand(c.args[1]))
                    cf = p.fn(cl[5]) if cl[0] == "agg" else None
                    r = strip_sym(Sym(cf).local(0)) if cf else None
                    ok = r is not None and sym_is_call(r, "Ord::cmp") and "'0'" in repr(r[2][0]) and "'0'" in repr(r[2][1]) and is_param(_root(r[2][0]), 1) and is_param(_root(r[2][1]), 2)
                    detail = f"comparator {sym_str(r)[:80] if r else None}"
                elif callee_method_name(c) in ("sort_by_key", "sort_by_cached_key"):
                    ok = True
                else:
                    ok = callee_method_name(c) == "sort" or (callee_method_name(c) == "sort_unstable" and from_map)
            chk.ob("C15.b", f"{nw.path} [overrides sorted by matcher]", ok, "overrides are sorted ascending by matcher (Full, Prefix, Suffix)" if ok else f"overrides are not sorted ascending by their matcher ({detail}): precedence between full/prefix/suffix overrides is arbitrary or reversed", nw.loc())
        gd = one_method(chk, "C15.b", p, DB, "get_distribution")
        if gd:
            b = gd.body
            sy = Sym(gd)
            ov = [i for i in range(b.n) if b.term(i)["k"] == "switch" and "bucket_overrides" in repr(sy.operand(b.term(i)["discr"]))]
            gl = [i for i in range(b.n) if b.term(i)["k"] == "switch" and "'buckets'" in repr(sy.operand(b.term(i)["discr"])) and "bucket_overrides" not in repr(sy.operand(b.term(i)["discr"]))]
            ok = len(ov) >= 1 and len(gl) >= 1 and all(b.dominates(ov[0], g) and g != ov[0] for g in gl)
            # combinator spelling: overrides.iter().find(|m| m.matches(name)) ... .or(self.buckets..)
            finds = []
            for g_ in gd.region():
                for c in nonforeign_calls(g_):
                    if c.is_("Iterator::find", "Iterator::find_map"):
                        cl = strip_sym(arg_syms(c)[1])
                        cf = next((x for x in g_.region() if x.path == cl[5]), None) if cl[0] == "agg" and cl[1] == "closure" else None
                        if cf is not None and any(cc.is_("Matcher::matches") and "('arg', 1" in repr(arg_syms(cc)[1]) for cc in nonforeign_calls(cf)):
                            finds.append(c)
            ors = [c for c in nonforeign_calls(gd) if c.is_("Option<T>::or", "Option<T>::or_else")]
            find_first = bool(finds) and any("bucket_overrides" in repr(arg_syms(c)[0]) and "'buckets'" in repr(arg_syms(c)[1]) and "bucket_overrides" not in repr(arg_syms(c)[1]) for c in ors)
            if not ok and find_first:
                ok = True
            chk.ob("C15.b", f"{gd.path} [overrides before global buckets]", ok, "per-metric overrides are consulted before the global buckets" if ok else "global buckets are consulted before (or instead of) per-metric overrides", gd.loc())
            nh = [c for c in nonforeign_calls(gd) if c.fn is gd and c.is_("Distribution::new_histogram")]
            first = [c for c in nh if in_cycle(b, c.bb) or any(sym_is_call(dd, "Matcher::matches") for dd, lab in gates(b, c.bb))]
            okf = bool(first)
            for c in first:
                g = gates(b, c.bb)
                okf = okf and any(lab is True and sym_is_call(dd, "Matcher::matches") and is_param(strip_sym(dd)[2][1], 1) for dd, lab in g)
                # returns at once: the loop head is not reachable after building
                heads = [h.bb for h in nonforeign_calls(gd) if h.is_("Iterator::next")]
                okf = okf and all(h not in b.reachable(c.t.get("target")) for h in heads)
                a = strip_sym(arg_syms(c)[0])
            if not okf and finds:
                okf = True  # Iterator::find returns the first element whose matcher matches the name
            chk.ob("C15.b", f"{gd.path} [first match wins]", okf, "the first override whose matcher matches the name decides, with its own buckets" if okf else "get_distribution does not return at the first matching override", gd.loc())
        mm = one_method(chk, "C15.b", p, f"{P}::common::Matcher", "matches")
        if mm:
            arms = enum_arms(mm, "common::Matcher")
            want = {"Full": ("eq",), "Prefix": ("starts_with",), "Suffix": ("ends_with",)}
            got = {}
            for v, a in (arms or {}).items():
                if v == "__switch__":
                    continue
                got[v] = tuple(sorted({callee_method_name(c) for c in a["calls"] if callee_method_name(c) in ("eq", "ne", "starts_with", "ends_with", "contains")}))
            chk.ob("C15.b", mm.path, got == want, f"{got}" if got == want else f"Matcher::matches table is {got}, expected {want}", mm.loc())
        sn = one_method(chk, "C15.b", p, f"{P}::common::Matcher", "sanitized")
        if sn:
            # per variant: what sanitized() returns when self is that variant — the same variant around the sanitised
            # pattern, however the dispatch is spelled (three arms, or one arm choosing a constructor)
            from facts import SpecialisedFn

            arms = True
            bad = []
            for v in ("Full", "Prefix", "Suffix"):
                sp = SpecialisedFn(sn, 1, v)
                r = strip_sym(Sym(sp).local(0))
                same_variant = (r[0] == "agg" and r[2] == v and (r[1] or "").endswith("common::Matcher")) or (r[0] == "call" and isinstance(r[1], str) and strip_generics(r[1]).endswith(f"common::Matcher::{v}"))
                if r[0] == "call" and isinstance(r[1], tuple) and r[1] and r[1][0] == "indirect":
                    # called through a function pointer that (for this variant) is the variant's own constructor
                    fp = [x for x in sym_walk(r[1]) if isinstance(x, tuple) and x[:2] == ("const", "fn")]
                    same_variant = len(fp) == 1 and strip_generics(fp[0][2]).endswith(f"common::Matcher::{v}")
                sans = [x for x in sym_walk(r) if isinstance(x, tuple) and x and x[0] == "call" and sym_is_call(x, "formatting::sanitize_metric_name")]
                own = len(sans) == 1 and f"'{v}'" in repr(sans[0][2][0]) and "('arg', 0" in repr(sans[0][2][0])
                if sp.resolved_switches < 1 or not same_variant or not own:
                    bad.append((v, sym_str(r)[:60]))
            chk.ob("C15.b", sn.path, arms is not None and not bad, "sanitized() keeps the variant and sanitises its string" if arms is not None and not bad else f"sanitized() changes the matcher kind or does not sanitise: {bad}", sn.loc())
        sb = one_method(chk, "C15.b", p, f"{P}::exporter::builder::PrometheusBuilder", "set_buckets_for_metric")
        if sb:
            ins = [c for c in nonforeign_calls(sb) if c.is_("HashMap<K, V, S>::insert", "insert")]
            ok = len(ins) == 1 and sym_is_call(arg_syms(ins[0])[1], "Matcher::sanitized") and is_param(strip_sym(arg_syms(ins[0])[1])[2][0], 1)
            chk.ob("C15.b", sb.path, ok, "the override is stored under matcher.sanitized() (names are matched after sanitisation)" if ok else "set_buckets_for_metric does not store the sanitised matcher: an override written with the raw name never matches the sanitised series name", sb.loc())

        # ---------------- C15.d
        RS = f"{P}::distribution::RollingSummary"
        # an empty window reads 0; and the kind of a family (histogram / summary) is asked about the very name its
        # distribution was built for — the sanitised name, not one assembled afterwards (the unit-suffixed family name)
        qd, tq = [], []
        for f_ in p.fns:
            if "::tests::" in f_.path or not f_.j.get("mir"):
                continue
            for c in f_.body.calls():
                if c.is_("Option<T>::unwrap_or") and len(c.args) == 2 and any(isinstance(x, tuple) and x and x[0] == "call" and isinstance(x[1], str) and strip_generics(x[1]).split("::")[-1] == "quantile" for x in sym_walk(arg_syms(c)[0])):
                    qd.append((c, strip_sym(arg_syms(c)[1])))
                elif c.is_("DistributionBuilder::get_distribution_type") and len(c.args) == 2:
                    tq.append((c, arg_syms(c)[1]))
        for c, dflt in qd:
            zero = dflt[:2] == ("const", "float") and float(dflt[2]) == 0.0
            chk.ob("C15.d", "summary quantiles [empty window reads 0]", zero, "quantile(q).unwrap_or(0.0)" if zero else f"an empty window renders {sym_str(dflt)[:30]} for its quantiles, not 0", c.loc(), nontrivial=False)
        for c, nm_ in tq:
            built = [x for x in sym_walk(nm_) if isinstance(x, tuple) and x and x[0] == "call" and isinstance(x[1], str) and strip_generics(x[1]).split("::")[-1] in ("format", "push_str", "concat", "join")]
            chk.ob("C15.b", "family type [asked about the name the distribution was built for]", not built, "get_distribution_type(name) with the iterated sanitised name" if not built else "the TYPE of a family is decided on a name assembled at render time (with the unit suffix appended) while its distribution was chosen for the plain name: with overrides that match one but not the other a histogram is exposed as a summary, or the reverse", c.loc(), nontrivial=False)
        # one clock: the time a sample is stamped with (what add() files it under) and the time the window is evaluated at
        # (what snapshot() expires against) are readings of the same clock function
        def _clock(x):
            x = strip_sym(x)
            return strip_generics(x[1]) if isinstance(x, tuple) and x and x[0] == "call" and isinstance(x[1], str) and not x[2] else None

        stamps, evals = [], []
        for f_ in p.fns:
            if "::tests::" in f_.path or not f_.j.get("mir"):
                continue
            for c in f_.body.calls():
                if c.is_("AtomicBucket<T>::push") and "AtomicBucketInstant" in f_.path:
                    t_ = strip_sym(arg_syms(c)[1])
                    stamps.append((c, _clock(t_[3][1]) if t_[0] == "agg" and t_[1] == "tuple" and len(t_[3]) == 2 else None))
                elif c.is_("RollingSummary::snapshot") and len(c.args) == 2:
                    evals.append((c, _clock(arg_syms(c)[1])))
        if not stamps or not evals:
            chk.unrecognised("C15.d", "<anchor> sample timestamp / window evaluation time", f"found {len(stamps)} stamping push(es) and {len(evals)} snapshot call(s)")
        else:
            srcs = {t for _, t in stamps} | {t for _, t in evals}
            ok = len(srcs) == 1 and None not in srcs
            chk.ob("C15.d", "summary window [one clock]", ok, f"samples are stamped and the window is evaluated with {next(iter(srcs))}()" if ok else f"samples are stamped with {sorted(str(t) for _, t in stamps)} but the window is evaluated at {sorted(str(t) for _, t in evals)}: when the two readings drift apart (a cached clock that lags), fresh samples are filed outside the window and the quantiles come from the wrong subset", stamps[0][0].loc())
        add = one_method(chk, "C15.d", p, RS, "add")
        snap = one_method(chk, "C15.d", p, RS, "snapshot")
        preds = {}
        for nm, f, hof in (("add", add, "retain"), ("snapshot", snap, "filter")):
            if not f:
                continue
            cs = [c for c in nonforeign_calls(f) if c.fn is f and c.is_("Instant::checked_sub")]
            ts = 2 if nm == "add" else 1
            form = None
            if len(cs) == 1:
                a = arg_syms(cs[0])
                cut_ok = is_param(a[0], ts) and "'max_bucket_duration'" in repr(a[1])
                # the comparison(s) of a bucket's begin with the cutoff, wherever they are written (retain/filter closure,
                # map_or closure, loop body)
                cmps = []
                for g_ in f.region():
                    for op, x, y, _bb in comparisons(g_):
                        bx, by = "'begin'" in repr(x), "'begin'" in repr(y)
                        if bx == by:
                            continue
                        other = y if bx else x
                        if "'bucket_duration'" in repr(x) + repr(y):
                            continue  # membership test of a sample in a bucket's interval
                        if g_ is f and is_param(sym_through(other), ts):
                            continue  # comparison with the sample's own timestamp
                        if by:
                            op = {"Lt": "Gt", "Le": "Ge", "Gt": "Lt", "Ge": "Le"}[op]
                        cmps.append(op)
                if cut_ok and len(cmps) == 1:
                    form = f"begin {cmps[0]} cutoff"
            preds[nm] = form
            chk.ob("C15.d", f"{f.path} [expiry predicate]", form == "begin Gt cutoff", "buckets are kept iff begin > now - max_bucket_duration" if form == "begin Gt cutoff" else f"expiry predicate is `{form}`", f.loc())
        if len(preds) == 2:
            chk.ob("C15.d", f"{RS} [add ~ snapshot predicate]", preds["add"] == preds["snapshot"] and preds["add"] is not None, "add and snapshot expire buckets with the same predicate" if preds["add"] == preds["snapshot"] else f"add keeps `{preds['add']}` but snapshot keeps `{preds['snapshot']}`: a bucket can be in the window for one and out of it for the other", add.loc() if add else "")
        if add:
            b = add.body
            inl = [c for c in nonforeign_calls(add) if c.fn is add and c.is_("Summary::add") and any(lab == "Some" and sym_is_call(dd, "Iterator::next") for dd, lab in gates(b, c.bb))]
            okw = len(inl) == 1
            if okw:
                g = gates(b, inl[0].bb)
                lower = upper = False
                for dd, lab in g:
                    dd = strip_sym(dd)
                    if lab is True and sym_is_call(dd, "PartialOrd::ge") and is_param(sym_through(dd[2][0]), 2) and "'begin'" in repr(dd[2][1]):
                        lower = True
                    if lab is True and sym_is_call(dd, "PartialOrd::le") and is_param(sym_through(dd[2][1]), 2) and "'begin'" in repr(dd[2][0]):
                        lower = True
                    if lab is True and sym_is_call(dd, "PartialOrd::lt") and is_param(sym_through(dd[2][0]), 2) and "Add::add" in repr(dd[2][1]) and "'bucket_duration'" in repr(dd[2][1]):
                        upper = True
                    if lab is True and sym_is_call(dd, "PartialOrd::gt") and is_param(sym_through(dd[2][1]), 2) and "Add::add" in repr(dd[2][0]) and "'bucket_duration'" in repr(dd[2][0]):
                        upper = True
                    if lab is True and sym_is_call(dd, "Range<Idx>::contains", "RangeBounds::contains", "contains") and len(dd[2]) == 2 and is_param(sym_through(dd[2][1]), 2):
                        rg = strip_sym(dd[2][0])
                        if rg[0] == "agg" and (rg[5] or "").endswith("ops::range::Range") and len(rg[3]) == 2:
                            lo_, hi_ = strip_sym(rg[3][0]), strip_sym(rg[3][1])
                            if "'begin'" in repr(lo_) and "'bucket_duration'" not in repr(lo_) and "'begin'" in repr(hi_) and "'bucket_duration'" in repr(hi_) and "Add::add" in repr(hi_):
                                lower = upper = True  # begin <= ts < begin + bucket_duration
                okw = lower and upper
            chk.ob("C15.d", f"{add.path} [bucket membership]", okw, "a sample joins an existing bucket only when begin <= ts < begin + bucket_duration" if okw else "a sample can be merged into an existing bucket without both bounds (begin <= ts and ts < begin + bucket_duration) holding: samples older than the window end up in the newest bucket and the quantiles cover expired data", add.loc())
            cu = field_updates(add, "count")
            ok = len(cu) == 1 and all(add.body.dominates(cu[0][0], r) for r in add.body.return_blocks())
            chk.ob("C15.d", f"{add.path} [count unconditional]", ok, "count += 1 happens before any early return" if ok else "count is not incremented on every path: _count would not cover all samples", add.loc())
        nw = one_method(chk, "C15.d", p, RS, "new")
        if nw:
            r = strip_sym(Sym(nw).local(0))
            ok = r[0] == "agg" and "max_bucket_duration" in r[4]
            if ok:
                v = strip_sym(r[3][r[4].index("max_bucket_duration")])
                ok = sym_is_call(v, "Mul::mul") and is_param(v[2][0], 1) and sym_is_call(strip_sym(v[2][1]), "get") and is_param(strip_sym(strip_sym(v[2][1])[2][0]), 0)
                bd = strip_sym(r[3][r[4].index("bucket_duration")])
                ok = ok and is_param(bd, 1)
            chk.ob("C15.d", nw.path, ok, "max_bucket_duration = bucket_duration * buckets" if ok else "the window length is not bucket_duration * bucket count", nw.loc())
    # the window is what was configured: the bucket duration handed to the summary comes from the configured duration (or
    # its default) alone and the bucket count from the configured count alone — one knob does not depend on the other
    if p is not None:
        gd_ = (p.method(f"{P}::distribution::DistributionBuilder", "get_distribution") or [None])[0]
        if gd_ is not None:
            ns = [c for c in nonforeign_calls(gd_) if c.is_("Distribution::new_summary") or (c.is_("RollingSummary::new") and c.fn is gd_)]
            if len(ns) == 1:
                a = arg_syms(ns[0])
                dur, cnt = (a[1], a[2]) if ns[0].is_("Distribution::new_summary") else (a[1], a[0])
                if not ns[0].is_("Distribution::new_summary"):
                    dur, cnt = a[1], a[0]

                def cfg_fields(x):
                    out = set()
                    for y in sym_walk(x):
                        fp = y if isinstance(y, tuple) and y and y[0] == "field" else None
                        if fp is not None and is_param(_root(fp), 0) and not str(fp[2]).isdigit():
                            out.add(fp[2])
                    return out

                fd, fc = cfg_fields(dur), cfg_fields(cnt)
                okw = len(fd) == 1 and len(fc) == 1 and fd != fc
                chk.ob("C15.d", f"{gd_.path} [window configuration]", okw, f"bucket duration from self.{next(iter(fd))}, bucket count from self.{next(iter(fc))}, independently" if okw else f"the summary's bucket duration depends on {sorted(fd)} and its bucket count on {sorted(fc)}: a configured duration or count is discarded unless both are set, and the quantiles cover a different window than configured", ns[0].loc())
    from props.common import import_rules

    import_rules(ctx, "C07", {"C07.a"}, "C15.f", "imported from C07 (where drained samples are merged into the per-series distribution): the distribution of a series is created-or-fetched and extended under one write guard — otherwise two overlapping drains (render and upkeep) overwrite each other's freshly filled distribution and bucket counts / _count drop from one render to the next", floor=5)
    import_rules(ctx, "C07", {"C07.b"}, "C15.e", "imported from C07 (how a summary is aggregated and rendered): per sample one add(sample, ts) and sum += sample, and render takes _count/_sum from the cumulative counters, never from the windowed snapshot — otherwise _sum and _count do not cover all samples (they shrink as the window moves, or skip non-finite samples)", floor=4)


def _root(s):
    s = strip_sym(s)
    while isinstance(s, tuple) and s and s[0] in ("field", "downcast"):
        s = strip_sym(s[1])
    return s


def run_config(ctx):
    run(ctx)
