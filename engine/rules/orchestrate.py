"""Fact extraction: scratch copy of /repo -> cargo check with the vdrv wrapper -> fact files.

Never runs cargo inside /repo (that would rewrite its stale Cargo.lock).  Facts are memoised per
digest of (/repo working tree, engine sources, witness sources, configuration name).
"""
import fcntl
import hashlib
import json
import os
import shutil
import subprocess
import sys
import time
from pathlib import Path

VERIF = Path(__file__).resolve().parents[2]
REPO = Path(os.environ.get("VERIF_REPO", "/repo"))
WORK = VERIF / ".work"
DRV_DIR = VERIF / "engine" / "vdrv"
DRV = DRV_DIR / "target" / "release" / "vdrv"
WITNESS = VERIF / "witness"
# one scratch area per installation of the machinery: extraction is serialised by a lock under WORK, so two copies of /verif
# (e.g. a snapshot used for a long corpus run) must not share a scratch directory
SCRATCH_ROOT = Path(os.environ.get("VERIF_SCRATCH", "/var/tmp")) / f"verif-scratch-{os.getuid()}-{hashlib.sha256(str(VERIF).encode()).hexdigest()[:8]}"

MEMBERS_LIB = [
    "metrics",
    "metrics_util",
    "metrics_tracing_context",
    "metrics_exporter_dogstatsd",
    "metrics_exporter_tcp",
    "metrics_exporter_prometheus",
]
PKG_OF = {
    "metrics": "metrics",
    "metrics_util": "metrics-util",
    "metrics_tracing_context": "metrics-tracing-context",
    "metrics_exporter_dogstatsd": "metrics-exporter-dogstatsd",
    "metrics_exporter_tcp": "metrics-exporter-tcp",
    "metrics_exporter_prometheus": "metrics-exporter-prometheus",
}

# Build configurations.  "default" is the quick tier; the others are the thorough-tier matrix.
CONFIGS = {
    "default": {"args": ["--workspace", "--lib"], "crates": MEMBERS_LIB},
    "test-profile": {"args": ["--workspace", "--lib", "--profile", "test"], "crates": MEMBERS_LIB, "kind": "test"},
    "util-nodefault": {"args": ["-p", "metrics-util", "--lib", "--no-default-features"], "crates": ["metrics_util"]},
    "util-registry": {"args": ["-p", "metrics-util", "--lib", "--no-default-features", "--features", "registry"], "crates": ["metrics_util"]},
    "util-storage": {"args": ["-p", "metrics-util", "--lib", "--no-default-features", "--features", "storage"], "crates": ["metrics_util"]},
    "util-recency": {"args": ["-p", "metrics-util", "--lib", "--no-default-features", "--features", "recency"], "crates": ["metrics_util"]},
    "util-debugging": {"args": ["-p", "metrics-util", "--lib", "--no-default-features", "--features", "debugging"], "crates": ["metrics_util"]},
    "util-layers": {"args": ["-p", "metrics-util", "--lib", "--no-default-features", "--features", "layers"], "crates": ["metrics_util"]},
    "prom-nodefault": {"args": ["-p", "metrics-exporter-prometheus", "--lib", "--no-default-features"], "crates": ["metrics_exporter_prometheus"]},
    "prom-uds": {"args": ["-p", "metrics-exporter-prometheus", "--lib", "--features", "uds-listener"], "crates": ["metrics_exporter_prometheus"]},
}


class ExtractError(Exception):
    pass


def _nightly():
    rustc = subprocess.check_output(["rustup", "which", "--toolchain", "nightly", "rustc"], text=True).strip()
    sysroot = str(Path(rustc).parents[1])
    return rustc, sysroot


def _iter_files(root: Path, skip_dirs=("target", ".git")):
    for dirpath, dirnames, filenames in os.walk(root):
        rel = os.path.relpath(dirpath, root)
        if rel == ".":
            dirnames[:] = [d for d in dirnames if d not in skip_dirs]
        dirnames.sort()
        for f in sorted(filenames):
            yield Path(dirpath) / f


def tree_digest(config="default") -> str:
    h = hashlib.sha256()
    h.update(config.encode())
    for root, tag in ((REPO, b"repo"), (DRV_DIR / "src", b"drv"), (WITNESS, b"wit")):
        if not root.exists():
            continue
        for p in _iter_files(root):
            if tag == b"repo" and p.name == "Cargo.lock" and p.parent == REPO:
                continue
            try:
                data = p.read_bytes()
            except OSError:
                continue
            h.update(tag)
            h.update(str(p.relative_to(root)).encode())
            h.update(b"\0")
            h.update(hashlib.sha256(data).digest())
    return h.hexdigest()[:24]


class Lock:
    def __init__(self, path):
        self.path = path

    def __enter__(self):
        self.path.parent.mkdir(parents=True, exist_ok=True)
        self.f = open(self.path, "w")
        fcntl.flock(self.f, fcntl.LOCK_EX)
        return self

    def __exit__(self, *a):
        fcntl.flock(self.f, fcntl.LOCK_UN)
        self.f.close()


def build_driver(log=sys.stderr):
    env = dict(os.environ)
    env["CARGO_NET_OFFLINE"] = "true"
    env.pop("RUSTC", None)
    env.pop("RUSTC_WORKSPACE_WRAPPER", None)
    env.pop("RUSTFLAGS", None)
    r = subprocess.run(["cargo", "build", "--release", "--offline"], cwd=DRV_DIR, env=env, capture_output=True, text=True)
    if r.returncode != 0 or not DRV.exists():
        log.write(r.stdout + r.stderr)
        raise ExtractError("cannot build the vdrv driver")


def _drv_fresh():
    if not DRV.exists():
        return False
    m = DRV.stat().st_mtime
    for p in list((DRV_DIR / "src").glob("*.rs")) + [DRV_DIR / "Cargo.toml"]:
        if p.stat().st_mtime > m:
            return False
    return True


def _cargo_env(rustc, sysroot, out_dir, target_dir):
    env = dict(os.environ)
    env.update(
        {
            "CARGO_NET_OFFLINE": "true",
            "LD_LIBRARY_PATH": sysroot + "/lib" + (":" + env["LD_LIBRARY_PATH"] if env.get("LD_LIBRARY_PATH") else ""),
            "RUSTC": rustc,
            "RUSTC_WORKSPACE_WRAPPER": str(DRV),
            "RUSTFLAGS": "-Awarnings -Zmir-opt-level=0",
            "VDRV_OUT": str(out_dir),
            "CARGO_TARGET_DIR": str(target_dir),
            "CARGO_INCREMENTAL": "0",
        }
    )
    env.pop("RUSTUP_TOOLCHAIN", None)
    return env


def _clean_member_fingerprints(target_dir: Path):
    for prof in ("debug",):
        fp = target_dir / prof / ".fingerprint"
        if fp.exists():
            for d in fp.iterdir():
                name = d.name.rsplit("-", 1)[0]
                if name.startswith("metrics"):
                    shutil.rmtree(d, ignore_errors=True)
        deps = target_dir / prof / "deps"
        if deps.exists():
            for f in deps.iterdir():
                n = f.name
                if n.startswith("libmetrics") or n.startswith("metrics"):
                    try:
                        f.unlink()
                    except OSError:
                        pass


def extract(config="default", nocache=False, log=sys.stderr) -> Path:
    """Returns the directory holding the fact files for /repo's current tree under `config`."""
    t0 = time.time()
    if not _drv_fresh():
        with Lock(WORK / "lock"):
            if not _drv_fresh():
                build_driver(log)
    digest = tree_digest(config)
    out = WORK / "facts" / digest
    if (out / "DONE").exists() and not nocache:
        return out
    with Lock(WORK / "lock"):
        if (out / "DONE").exists() and not nocache:
            return out
        cfg = CONFIGS[config]
        rustc, sysroot = _nightly()
        scratch = SCRATCH_ROOT
        if scratch.exists():
            shutil.rmtree(scratch)
        src = scratch / "src"
        src.mkdir(parents=True)
        tmp_out = scratch / "facts"
        tmp_out.mkdir()
        try:
            subprocess.check_call(["rsync", "-a", "--exclude", "/target", "--exclude", ".git", str(REPO) + "/", str(src) + "/"])
            target_dir = WORK / "target"
            target_dir.mkdir(parents=True, exist_ok=True)
            _clean_member_fingerprints(target_dir)
            env = _cargo_env(rustc, sysroot, tmp_out, target_dir)
            cmd = ["cargo", "+1.74.0", "check", "--offline", "--message-format=json"] + cfg["args"]
            r = subprocess.run(cmd, cwd=src, env=env, capture_output=True, text=True)
            artifacts = {}
            diags = []
            for line in r.stdout.splitlines():
                try:
                    m = json.loads(line)
                except ValueError:
                    continue
                if m.get("reason") == "compiler-artifact":
                    name = m["target"]["name"].replace("-", "_")
                    if name in MEMBERS_LIB:
                        for f in m.get("filenames", []):
                            if f.endswith(".rmeta"):
                                artifacts[name] = f
                elif m.get("reason") == "compiler-message":
                    msg = m.get("message", {})
                    if msg.get("level") == "error":
                        diags.append(msg.get("rendered", ""))
            if r.returncode != 0:
                log.write("".join(diags)[-6000:] + "\n" + r.stderr[-4000:])
                raise ExtractError(f"/repo does not type-check under config {config} (cargo exit {r.returncode})")
            # fail closed: every expected crate must have produced exactly one fact file
            kind = cfg.get("kind", "lib")
            got = {}
            for f in tmp_out.glob("*.json"):
                crate = f.name.split(".")[0]
                k = f.name.split(".")[1]
                if k == kind:
                    got.setdefault(crate, []).append(f)
            for c in cfg["crates"]:
                if c not in got:
                    raise ExtractError(f"driver produced no fact file for crate {c} (config {config}); wrapper skipped?")
            tmp_final = out.with_suffix(".tmp")
            if tmp_final.exists():
                shutil.rmtree(tmp_final)
            tmp_final.mkdir(parents=True)
            for c in cfg["crates"]:
                shutil.copy(got[c][0], tmp_final / f"{c}.json")
            meta = {
                "config": config,
                "digest": digest,
                "rustc": subprocess.check_output([rustc, "-V"], text=True).strip(),
                "cargo_cmd": " ".join(cmd),
                "artifacts": artifacts,
                "extract_wall_s": None,
            }
            # witnesses only for the default configuration
            if config == "default":
                from witness_run import run_witnesses

                meta["witness"] = run_witnesses(rustc, sysroot, artifacts, target_dir, scratch, tmp_final, log)
            meta["extract_wall_s"] = round(time.time() - t0, 2)
            (tmp_final / "meta.json").write_text(json.dumps(meta, indent=1))
            (tmp_final / "DONE").write_text("ok")
            if out.exists():
                shutil.rmtree(out)
            tmp_final.rename(out)
        finally:
            shutil.rmtree(scratch, ignore_errors=True)
        _gc_facts(keep=int(os.environ.get("VERIF_FACTS_KEEP", "12")))
    return out


def _gc_facts(keep=12):
    d = WORK / "facts"
    if not d.exists():
        return
    ents = sorted([p for p in d.iterdir() if p.is_dir()], key=lambda p: p.stat().st_mtime, reverse=True)
    now = time.time()
    for p in ents[keep:]:
        # never under a reader's feet: checks running in parallel (corpus runs) may still be loading an entry that was
        # extracted a moment ago
        if now - p.stat().st_mtime > 900:
            shutil.rmtree(p, ignore_errors=True)
