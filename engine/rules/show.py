#!/usr/bin/env python3
"""Debug pretty-printer for fact files: show.py <facts-dir> <crate> <path-substring> [mir|hir|both]"""
import json, sys, glob

def P(p):
    s = f"_{p['l']}"
    for e in p.get('pr') or []:
        if e == '*': s = f"(*{s})"
        elif isinstance(e, str): s += f".<{e}>"
        elif 'f' in e: s += f".{e['f']}"
        elif 'as' in e: s += f" as {e['as']}"
        elif 'idx' in e: s += f"[_{e['idx']}]"
        elif 'cidx' in e: s += f"[{e['cidx']}]"
        else: s += f"{e}"
    return s

def C(c):
    for k in ('fn','closure','static','str','char','bool','int','float','variant','named','agg','fnptr'):
        if k in c:
            if k == 'fn': return f"fn {c['fn']}"
            return f"const {k}:{c[k]!r}" + (f" ({c['named']})" if 'named' in c and k!='named' else '')
    return f"const <{c.get('ty')}> {c.get('dbg','')}"

def O(o):
    if 'copy' in o: return P(o['copy'])
    if 'move' in o: return 'move ' + P(o['move'])
    if 'const' in o: return C(o['const'])
    return str(o)

def RV(r):
    k = r['k']
    if k == 'use': return O(r['a'])
    if k == 'ref': return ('&mut ' if r['mut'] else '&') + P(r['p'])
    if k == 'rawptr': return ('&raw mut ' if r['mut'] else '&raw const ') + P(r['p'])
    if k == 'cast': return f"{O(r['a'])} as {r['to']} ({r['cast']})"
    if k == 'bin': return f"{r['op']}({O(r['a'])}, {O(r['b'])})"
    if k == 'un': return f"{r['op']}({O(r['a'])})"
    if k == 'discr': return f"discriminant({P(r['p'])})"
    if k == 'agg':
        head = r.get('adt', r.get('closure', r['agg']))
        if 'variant' in r: head += '::' + r['variant']
        return f"{head}({', '.join(O(x) for x in r['ops'])})"
    if k == 'tlsref': return f"tls {r['static']}"
    return str(r)

def show_mir(m, out=sys.stdout):
    for i, l in enumerate(m['locals']):
        out.write(f"    let _{i}: {l['ty']}" + (f"  // {l['name']}" if l.get('name') else '') + "\n")
    for i, b in enumerate(m['blocks']):
        out.write(f"  bb{i}{' (cleanup)' if b.get('cleanup') else ''}:\n")
        for s in b['s']:
            e = ' [exp %s]' % s['exp'] if s.get('exp') else ''
            if s['k'] == 'assign': out.write(f"    {P(s['p'])} = {RV(s['rv'])}   // L{s['ln']}{e}\n")
            elif s['k'] == 'setdiscr': out.write(f"    discriminant({P(s['p'])}) = {s['variant']}\n")
        t = b.get('t')
        if not t: continue
        k = t['k']; e = ' [exp %s]' % t['exp'] if t.get('exp') else ''
        if k == 'call':
            cal = t.get('callee') or O(t.get('callee_op'))
            res = t.get('resolved')
            out.write(f"    {P(t['dest'])} = call {cal}({', '.join(O(a) for a in t['args'])})" + (f" => {res}" if res and res != cal else '') + f" -> bb{t.get('target')} unwind {t.get('unwind')}  // L{t['ln']}{e}\n")
        elif k == 'switch':
            arms = ', '.join(f"{a.get('variant', a.get('char', a['v']))!r}:bb{a['bb']}" for a in t['arms'])
            out.write(f"    switch {O(t['discr'])} [{arms}, otherwise:bb{t['otherwise']}]  // L{t['ln']}{e}\n")
        elif k == 'drop': out.write(f"    drop({P(t['p'])}: {t['pty']}) -> bb{t['target']} unwind {t['unwind']}\n")
        elif k == 'goto': out.write(f"    goto bb{t['target']}\n")
        elif k == 'assert': out.write(f"    assert({O(t['cond'])} == {t['expected']}, {t['msg']}) -> bb{t['target']}\n")
        else: out.write(f"    {k}\n")

def show_hir(h, ind=0, out=sys.stdout):
    pad = '  ' * ind
    if h is None: return
    if isinstance(h, list):
        for x in h: show_hir(x, ind, out)
        return
    if not isinstance(h, dict):
        out.write(f"{pad}{h}\n"); return
    k = h.get('k', '?')
    attrs = []
    for a in ('name','def','resolved','op','res','path','seg','str','int','char','bool','float','f','src','label','ty'):
        if a in h and not isinstance(h[a], (dict, list)): attrs.append(f"{a}={h[a]!r}")
    if h.get('exp'): attrs.append(f"exp={h['exp']}")
    out.write(f"{pad}{k} L{h.get('ln','')} {' '.join(attrs)}\n")
    for key, val in h.items():
        if isinstance(val, dict):
            out.write(f"{pad} .{key}:\n"); show_hir(val, ind+2, out)
        elif isinstance(val, list) and val and isinstance(val[0], dict):
            out.write(f"{pad} .{key}[]:\n")
            for x in val: show_hir(x, ind+2, out)

if __name__ == '__main__':
    d, crate, sub = sys.argv[1:4]
    mode = sys.argv[4] if len(sys.argv) > 4 else 'both'
    for f in glob.glob(f"{d}/{crate}.json") + glob.glob(f"{d}/{crate}.*.json"):
        j = json.load(open(f))
        for fn in j['fns']:
            if sub in fn['path']:
                print('=' * 100); print(fn['path'], fn['dk'], fn.get('file'), fn.get('ln'), {k: v for k, v in fn.items() if k in ('impl_self','impl_trait','root','pub','unsafe','sig')})
                if mode in ('mir','both'): show_mir(fn['mir'])
                if mode in ('hir','both') and 'hir' in fn: show_hir(fn['hir'], 1)
