"""Checker self-validation (thorough tier): the property's rules must FIRE on every seeded breaking change of that
property (seeded/<Pxx>-m*/patch.diff) and stay SILENT on every behaviour-preserving refactoring (benign/<Pxx>-r*/patch.diff).
Each variant is applied to a scratch copy of /repo's current tree (never to /repo) and analysed by a child run of
./check with VERIF_REPO pointing at the copy.  A miss / false alarm is reported as a checker regression."""
import json
import os
import re
import shutil
import subprocess
from pathlib import Path

VERIF = Path(__file__).resolve().parents[2]
REPO = Path(os.environ.get("VERIF_REPO", "/repo"))


def _apply(scratch: Path, patch: Path):
    if scratch.exists():
        shutil.rmtree(scratch)
    subprocess.check_call(["rsync", "-a", "--exclude", "/target", "--exclude", ".git", str(REPO) + "/", str(scratch) + "/"])
    r = subprocess.run(["git", "apply", "--unsafe-paths", "--directory", str(scratch), str(patch)], capture_output=True, text=True, cwd="/")
    if r.returncode != 0:
        r = subprocess.run(["patch", "-p1", "-s", "-d", str(scratch), "-i", str(patch)], capture_output=True, text=True)
    return r.returncode == 0


def run(prop, chk):
    if os.environ.get("VERIF_SELFVAL_CHILD") == "1":
        return
    scratch = Path("/var/tmp") / f"verif-selfval-{os.getuid()}-{prop}"
    evd = Path("/var/tmp") / f"verif-selfval-evidence-{os.getuid()}-{prop}"
    env = dict(os.environ, VERIF_REPO=str(scratch), VERIF_EVIDENCE_DIR=str(evd), VERIF_SELFVAL_CHILD="1", VERIF_TIER="quick")
    chk.rule("SELFVAL", "checker self-validation over program variants: rules fire on every seeded breaking change of this property and stay silent on every behaviour-preserving refactoring (a failure here is a checker regression, not a violation of the property)")
    try:
        for kind, sub, want_fire in (("seeded", "seeded", True), ("benign", "benign", False)):
            base = VERIF / sub
            if not base.exists():
                continue
            for d in sorted(base.iterdir()):
                if not d.is_dir() or not d.name.startswith(prop + "-") or not (d / "patch.diff").exists():
                    continue
                if not _apply(scratch, d / "patch.diff"):
                    # the variant was written against another tree state (e.g. before a fix); it cannot be evaluated
                    chk.notes.append(f"selfval: {sub}/{d.name} does not apply to the current tree; skipped")
                    continue
                r = subprocess.run([str(VERIF / "check"), prop, "--tier", "quick"], capture_output=True, text=True, env=env)
                keys = [k for k in re.findall(r"^\s+(?:violation|unrecognised-construct): (.*)$", r.stdout, re.M)]
                fired = r.returncode == 1
                if r.returncode not in (0, 1):
                    chk.unrecognised("SELFVAL", f"{sub}/{d.name}", f"child check failed to run (exit {r.returncode}): {r.stdout[-300:]}{r.stderr[-300:]}")
                    continue
                if want_fire:
                    real = [k for k in keys if "<floor>" not in k]
                    chk.ob("SELFVAL", f"{sub}/{d.name}", fired and bool(real), f"breaking change detected by {sorted({k.split(' @ ')[0] for k in real})}" if fired and real else "checker regression: a seeded breaking change of this property is no longer detected", str(d.relative_to(VERIF)))
                else:
                    chk.ob("SELFVAL", f"{sub}/{d.name}", not fired, "behaviour-preserving refactoring: no alarm" if not fired else f"checker regression (false alarm) on a behaviour-preserving refactoring: {keys[:3]}", str(d.relative_to(VERIF)))
    finally:
        shutil.rmtree(scratch, ignore_errors=True)
        shutil.rmtree(evd, ignore_errors=True)
