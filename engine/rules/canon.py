"""Canonical private names.

The rules name a number of *private* items (helper functions, private types, private fields).  Renaming such an item,
moving it to another module, turning a method into a free function or reordering/renaming private fields changes no
behaviour.  So that such edits are invisible, every crate's facts are first mapped back onto the names of the pinned
tree: `reference.json` (generated once from the pinned tree by tools/gen_reference.py and committed) records, for every
non-exported function, a fingerprint (what it calls, which literals it mentions, its arity and result type) and, for
every ADT, its field list.  When a referenced item is *missing* from the current tree and exactly one unknown item of
the current tree matches its fingerprint, the current item is given the reference name (path replacement in the
facts).  Items that still exist under their reference name are never touched, so a change that keeps names — every
seeded breaking change does — is analysed exactly as written."""
import json
import re
from pathlib import Path

REF = Path(__file__).resolve().parents[1] / "reference.json"
_ref_cache = None


def reference():
    global _ref_cache
    if _ref_cache is None:
        _ref_cache = json.loads(REF.read_text()) if REF.exists() else {}
    return _ref_cache


def _strip_generics(p):
    out, depth = [], 0
    for ch in p or "":
        if ch == "<":
            depth += 1
        elif ch == ">":
            depth -= 1
        elif depth == 0:
            out.append(ch)
    return "".join(out).replace("::::", "::")


def _short(name):
    return "::".join(_strip_generics(name).split("::")[-2:])


def fn_fingerprint(f, closures_of):
    """callee names (last two segments), string/byte literals, arity, result type of a function and its closures"""
    calls, lits = {}, set()
    bodies = [f] + closures_of.get(f["path"], [])
    nb = 0
    for g in bodies:
        m = g.get("mir") or {}
        nb += len(m.get("blocks", []))
        for blk in m.get("blocks", []):
            t = blk.get("t") or {}
            if t.get("k") == "call":
                n = t.get("callee") or t.get("resolved")
                if n:
                    k = _short(n)
                    calls[k] = calls.get(k, 0) + 1
            for st in blk.get("s", []):
                if st.get("k") == "assign":
                    rv = st["rv"]
                    for o in [rv.get("a"), rv.get("b")] + list(rv.get("ops", [])):
                        c = o.get("const") if isinstance(o, dict) else None
                        if c and isinstance(c.get("str"), str):
                            lits.add(c["str"][:40])
    sig = f.get("sig", "")
    ret = _strip_generics(sig.split("->")[-1]).strip().split("::")[-1] if "->" in sig else "()"
    argc = (f.get("mir") or {}).get("argc", 0)
    return {"calls": calls, "lits": sorted(lits)[:20], "argc": argc, "ret": ret, "blocks": nb, "name": f.get("name", "")}


def build_reference(j):
    """reference entry for one crate's facts"""
    closures_of = {}
    for f in j["fns"]:
        if f["dk"] == "Closure" and f.get("parent"):
            root = f.get("root") or f["parent"]
            closures_of.setdefault(root, []).append(f)
            if f["parent"] != root:
                closures_of.setdefault(f["parent"], []).append(f)
    fns = {}
    for f in j["fns"]:
        if f["dk"] in ("Fn", "AssocFn") and not f.get("exported") and not f.get("impl_trait") and f.get("mir") and "::tests::" not in f["path"] and not f.get("derived"):
            fp = fn_fingerprint(f, closures_of)
            fp.update({"dk": f["dk"], "impl_self": f.get("impl_self"), "impl_path": f.get("impl_path")})
            fns[f["path"]] = fp
    adts = {}
    for a in j["adts"]:
        if "::tests::" in a["path"]:
            continue
        adts[a["path"]] = {"kind": a["kind"], "exported": a.get("exported"), "variants": [{"name": v["name"], "fields": [[fl["name"], _strip_generics(fl["ty"])] for fl in v.get("fields", [])]} for v in a.get("variants", [])]}
    statics = {f["path"]: {"dk": f["dk"], "sty": f.get("sty")} for f in j["fns"] if f["dk"] in ("Static", "Const") and "::{" not in f["path"] and "::tests::" not in f["path"]}
    return {"fns": fns, "adts": adts, "statics": statics}


def _sim(a, b):
    ca, cb = a["calls"], b["calls"]
    keys = set(ca) | set(cb)
    inter = sum(min(ca.get(k, 0), cb.get(k, 0)) for k in keys)
    union = sum(max(ca.get(k, 0), cb.get(k, 0)) for k in keys)
    jac = inter / union if union else (1.0 if a["blocks"] <= 3 and b["blocks"] <= 3 else 0.0)
    la, lb = set(a["lits"]), set(b["lits"])
    lit = len(la & lb) / len(la | lb) if (la | lb) else 1.0
    s = 0.6 * jac + 0.15 * lit
    if a["argc"] == b["argc"]:
        s += 0.1
    if a["ret"] == b["ret"]:
        s += 0.1
    if a["name"] == b["name"]:
        s += 0.25
    return s


def _adt_sig(a):
    return (a["kind"], tuple(tuple(sorted(t for _, t in v["fields"])) for v in a["variants"]), tuple(v["name"] for v in a["variants"]) if a["kind"] == "enum" else ())


def canonical_mapping(j, ref):
    """-> (path replacements [(current, canonical)], field renames {adt: {current_field: canonical_field}}, log)"""
    log = []
    cur = build_reference(j)
    repl = []
    # ---- ADTs: a referenced type that is missing, matched by name (moved) or by shape (renamed)
    missing_adts = [p for p in ref.get("adts", {}) if p not in cur["adts"]]
    unknown_adts = [p for p in cur["adts"] if p not in ref.get("adts", {})]
    for mp in missing_adts:
        ra = ref["adts"][mp]
        if ra.get("exported") and False:
            continue
        last = mp.split("::")[-1]
        same_name = [p for p in unknown_adts if p.split("::")[-1] == last and cur["adts"][p]["kind"] == ra["kind"]]
        same_shape = [p for p in unknown_adts if _adt_sig(cur["adts"][p]) == _adt_sig(ra) and any(v["fields"] for v in ra["variants"])]
        pick = None
        if len(same_name) == 1:
            pick = same_name[0]
        elif not same_name and len(same_shape) == 1:
            # one new type of this shape — and it must be the counterpart of this missing type only: a new type that could
            # equally stand for several missing ones (three sibling structs merged into one generic struct) stands for none
            rivals = [q for q in missing_adts if q != mp and _adt_sig(ref["adts"][q]) == _adt_sig(ra) and not [p for p in unknown_adts if p.split("::")[-1] == q.split("::")[-1]]]
            if not rivals:
                pick = same_shape[0]
        if pick:
            repl.append((pick, mp))
            unknown_adts.remove(pick)
            log.append(f"type {pick} is the reference type {mp}")
    adt_alias = {c: r for c, r in repl}
    # ---- fields: same type (possibly under its canonical path), different field names
    field_map = {}
    for cp, ca in cur["adts"].items():
        rp = adt_alias.get(cp, cp)
        ra = ref.get("adts", {}).get(rp)
        if not ra or ra["kind"] == "enum" or not ra["variants"] or not ca["variants"]:
            continue
        rf, cf = ra["variants"][0]["fields"], ca["variants"][0]["fields"]
        if [n for n, _ in rf] == [n for n, _ in cf] or len(rf) != len(cf):
            continue
        if sorted(n for n, _ in rf) == sorted(n for n, _ in cf):
            continue  # only reordered
        def norm(t):
            for c, r in repl:
                t = t.replace(c, r)
            return t
        m = {}
        r_by_ty, c_by_ty = {}, {}
        for n, t in rf:
            r_by_ty.setdefault(t, []).append(n)
        for n, t in cf:
            c_by_ty.setdefault(norm(t), []).append(n)
        ok = set(r_by_ty) == set(c_by_ty) and all(len(r_by_ty[t]) == len(c_by_ty[t]) for t in r_by_ty)
        if not ok:
            continue
        for t in r_by_ty:
            rn, cn = r_by_ty[t], c_by_ty[t]
            keep = [n for n in cn if n in rn]
            rn2 = [n for n in rn if n not in keep]
            cn2 = [n for n in cn if n not in keep]
            if len(cn2) == 1:
                m[cn2[0]] = rn2[0]
            elif len(cn2) > 1:
                # several same-typed fields renamed: keep declaration order among them
                r_order = [n for n, tt in rf if tt == t and n in rn2]
                c_order = [n for n, tt in cf if norm(tt) == t and n in cn2]
                if [i for i, (n, _) in enumerate(rf) if n in r_order] == [i for i, (n, _) in enumerate(cf) if n in c_order]:
                    for a_, b_ in zip(c_order, r_order):
                        m[a_] = b_
        if m:
            field_map[rp] = m
            log.append(f"fields of {rp}: {m}")
    # ---- functions
    def canon_path(p):
        for c, r in repl:
            p = p.replace(c, r)
        return p
    cur_fns = {canon_path(p): (p, fp) for p, fp in cur["fns"].items()}
    missing = [p for p in ref.get("fns", {}) if p not in cur_fns]
    unknown = {p: v for p, v in cur_fns.items() if p not in ref.get("fns", {})}
    pairs = []
    for mp in missing:
        rfp = ref["fns"][mp]
        scored = sorted(((_sim(rfp, fp), p) for p, (_orig, fp) in unknown.items()), reverse=True)
        if scored and scored[0][0] >= 0.62 and (len(scored) == 1 or scored[0][0] - scored[1][0] >= 0.08):
            pairs.append((scored[0][0], mp, scored[0][1]))
    used = set()
    fn_alias = {}
    for sc, mp, p in sorted(pairs, reverse=True):
        if p in used or mp in fn_alias.values():
            continue
        used.add(p)
        fn_alias[unknown[p][0]] = mp
        log.append(f"function {unknown[p][0]} is the reference function {mp} (similarity {sc:.2f})")
    # ---- statics/consts moved to another module (same name, unique)
    cur_st = cur["statics"]
    for mp, rs in ref.get("statics", {}).items():
        if canon_path(mp) in {canon_path(p) for p in cur_st}:
            continue
        last = mp.split("::")[-1]
        c = [p for p in cur_st if p.split("::")[-1] == last and p not in ref.get("statics", {}) and cur_st[p]["dk"] == rs["dk"]]
        if len(c) == 1:
            fn_alias[c[0]] = mp
            log.append(f"static/const {c[0]} is the reference item {mp}")
    return repl, fn_alias, field_map, log


def canonicalise_text(text, crate_name):
    """facts JSON text -> (facts JSON object, log)"""
    ref = reference().get(crate_name)
    j = json.loads(text)
    if not ref:
        return j, []
    repl, fn_alias, field_map, log = canonical_mapping(j, ref)
    if not (repl or fn_alias or field_map):
        return j, []
    if repl or fn_alias:
        # longest first; replace the path only where it ends at a path boundary
        items = sorted(list(repl) + list(fn_alias.items()), key=lambda x: -len(x[0]))
        for cur_p, can_p in items:
            pat = re.compile(re.escape(json.dumps(cur_p)[1:-1]) + r'(?![A-Za-z0-9_])')
            text = pat.sub(lambda m_: json.dumps(can_p)[1:-1], text)
        j = json.loads(text)
        # a function that was a method in the reference (or the reverse) takes the reference's item kind
        rf = ref.get("fns", {})
        for f in j["fns"]:
            r = rf.get(f["path"])
            if r and f["path"] in fn_alias.values():
                f["dk"] = r["dk"]
                f["name"] = f["path"].split("::")[-1]
                if r.get("impl_self"):
                    f["impl_self"] = r["impl_self"]
                    f["impl_path"] = r.get("impl_path")
                else:
                    f.pop("impl_self", None)
        for f in j["fns"]:
            if f["path"] in fn_alias.values():
                f["name"] = f["path"].split("::")[-1]
    if field_map:
        def walk(x):
            if isinstance(x, dict):
                of = x.get("of")
                if "f" in x and isinstance(of, str):
                    m = field_map.get(_strip_generics(of))
                    if m and x["f"] in m:
                        x["f"] = m[x["f"]]
                adt = x.get("adt")
                if isinstance(adt, str) and isinstance(x.get("fields"), list):
                    m = field_map.get(_strip_generics(adt))
                    if m:
                        x["fields"] = [m.get(n, n) for n in x["fields"]]
                for v in x.values():
                    if isinstance(v, (dict, list)):
                        walk(v)
            elif isinstance(x, list):
                for v in x:
                    walk(v)
        walk(j["fns"])
        for a in j["adts"]:
            m = field_map.get(a["path"])
            if m:
                for v in a.get("variants", []):
                    for fl in v.get("fields", []):
                        fl["name"] = m.get(fl["name"], fl["name"])
    return j, log
