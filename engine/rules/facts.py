"""Fact model + generic analyses (CFG dominance/reachability, provenance, HIR tree queries)."""
import json
from functools import lru_cache
from pathlib import Path


# --------------------------------------------------------------------------------------------
# loading
# --------------------------------------------------------------------------------------------
class Crate:
    def __init__(self, path: Path):
        self.file = path
        stem = Path(path).stem
        if stem.startswith("x_"):
            self.j, self.canon_log = json.loads(Path(path).read_text()), []
        else:
            import canon

            self.j, self.canon_log = canon.canonicalise_text(Path(path).read_text(), stem)
        self.name = self.j["crate"]
        # items of #[cfg(test)] modules (present under the test-profile configuration) are not part of the library
        self.fns = [Fn(self, f) for f in self.j["fns"] if not is_test_path(f["path"])]
        self.j["impls"] = [i for i in self.j["impls"] if not is_test_path(i.get("path", "")) and not is_test_path(i.get("self_ty", ""))]
        self.j["adts"] = [a for a in self.j["adts"] if not is_test_path(a["path"])]
        self.by_path = {}
        for f in self.fns:
            self.by_path.setdefault(f.path, f)
        # closures -> parents
        for f in self.fns:
            if f.dk == "Closure":
                par = self.by_path.get(f.j.get("parent"))
                if par is not None:
                    par.children.append(f)
                    f.parent = par
        self.adts = {a["path"]: a for a in self.j["adts"]}
        self.impls = self.j["impls"]
        self.macros = {m["name"]: m for m in self.j["macros"]}
        self.traits = {t["path"]: t for t in self.j["traits"]}
        self.mods = {m["path"]: m for m in self.j.get("mods", [])}

    # ---- inlining policy: helpers NOT named in `keep` are spliced into their callers, and disappear as functions
    def inline_except(self, keep):
        if getattr(self, "raw_fns", None) is None:
            self.raw_fns = self.fns
            self.raw_by_path = self.by_path
        self._keep = tuple(keep)
        self._mir_cache = {}
        called, as_value = set(), set()
        for f in self.raw_fns:
            m = f.j.get("mir")
            if not m:
                continue
            for blk in m["blocks"]:
                t = blk.get("t") or {}
                if t.get("k") == "call":
                    if t.get("rkind") in (None, "item"):
                        called.add(t.get("resolved") or t.get("callee"))
                    ops = t.get("args", [])
                else:
                    ops = []
                for st in blk["s"]:
                    if st["k"] == "assign":
                        rv = st["rv"]
                        ops = ops + [rv[k] for k in ("a", "b") if isinstance(rv.get(k), dict)] + list(rv.get("ops", []))
                for o in ops:
                    c = o.get("const") if isinstance(o, dict) else None
                    if c and c.get("fn"):
                        as_value.add(c["fn"])
        self.removed = {f.path for f in self.raw_fns if self._should_inline(f) and f.path in called and f.path not in as_value}
        fns = []
        for f in self.raw_fns:
            if f.parent is not None:
                continue  # closures are reached through their (inlined) parents
            if f.path in self.removed:
                continue
            fns.append(InlinedFn(f))
        out = []
        for f in fns:
            out.extend(f.region())
        self.fns = out
        self.by_path = {}
        for f in out:
            self.by_path.setdefault(f.path, f)

    def _private_single_impl_trait(self, trait_path):
        """A trait of this crate that is not reachable from outside and has exactly one impl: a private helper in disguise."""
        tr = next((t for t in self.j.get("traits", []) if t.get("path") == trait_path), None)
        if tr is None or tr.get("exported") is not False:
            return False
        n = sum(1 for i in self.j.get("impls", []) if strip_generics(i.get("trait") or "") == trait_path)
        return n == 1

    def _should_inline(self, callee):
        if callee.dk not in ("Fn", "AssocFn") or callee.j.get("exported"):
            return False  # the exported API is a semantic anchor
        if callee.j.get("impl_trait") and not self._private_single_impl_trait(strip_generics(callee.j.get("impl_trait"))):
            return False  # trait impl methods are semantic anchors (unless the trait is a private one-impl helper trait)
        if not callee.j.get("mir"):
            return False
        n = callee.name
        for k in self._keep:
            if callable(k):
                if k(callee):
                    return False
            elif n == k or callee.path.endswith("::" + k) or path_is(callee.path, k):
                return False
        return True

    def role(self, pred):
        """Functions of the original program (before splicing) that satisfy a role predicate."""
        fns = getattr(self, "raw_fns", None) or self.fns
        return [self.by_path.get(f.path, f) for f in fns if pred(f)]

    def fn(self, path):
        f = self.by_path.get(path)
        if f is None and getattr(self, "raw_fns", None) is not None and path in self.raw_by_path:
            return InlinedFn(self.raw_by_path[path])
        if f is None and "::{" not in path and "<" not in path:
            # the item may have been moved to another module: a free function / static / const is identified by
            # its name when that name is unique in the crate
            name = path.split("::")[-1]
            pool = list(self.fns) + [g for g in (getattr(self, "raw_fns", None) or []) if g.path not in self.by_path]
            cands = [g for g in pool if g.name == name and g.dk in ("Fn", "Static", "Const") and g.parent is None]
            uniq = {g.path: g for g in cands}
            if len(uniq) == 1:
                g = next(iter(uniq.values()))
                return g if g.path in self.by_path or getattr(self, "raw_fns", None) is None else InlinedFn(g)
        return f

    def find_fns(self, pred):
        return [f for f in self.fns if pred(f)]

    def method(self, self_ty_sub, name, trait=None):
        """impl method by (substring of) self type, method name and (suffix of) trait path."""
        out = self._method(self_ty_sub, name, trait)
        if not out and "::" in self_ty_sub and "<" not in self_ty_sub:
            # the type may have been moved to another module: fall back to its name when no other type of the
            # crate shares it
            last = self_ty_sub.split("::")[-1]
            if sum(1 for a in self.adts if a.split("::")[-1] == last) == 1:
                out = self._method(last, name, trait)
        return out

    def _method(self, self_ty_sub, name, trait=None):
        out = []
        for f in self.fns:
            if f.name != name or f.dk != "AssocFn":
                continue
            st = f.j.get("impl_self")
            if st is None or not ty_matches(st, self_ty_sub):
                continue
            tr = f.j.get("impl_trait")
            if trait is None:
                if tr is not None:
                    continue
            elif tr is None or not (tr == trait or tr.endswith("::" + trait)):
                continue
            out.append(f)
        return out

    def impls_of(self, trait_suffix):
        return [i for i in self.impls if i.get("trait") and (i["trait"] == trait_suffix or i["trait"].endswith("::" + trait_suffix))]

    def stats(self):
        return {"crate": self.name, "bodies": self.j["n_bodies"], "call_sites": self.j["n_calls"], "fns": len(self.fns)}


def is_test_path(p: str) -> bool:
    return any(seg in p for seg in ("::tests::", "::test::", "::tests>", "::test_util::", "::label_tests::")) or p.endswith("::tests") or p.endswith("::test_util")


def ty_matches(ty: str, want: str) -> bool:
    """`want` may be an exact type string or a bare last-segment name (generic args ignored)."""
    if ty == want or ty.endswith("::" + want):
        return True
    base = ty.split("<")[0]
    return base == want or base.endswith("::" + want)


def short(path: str) -> str:
    return path


class Fn:
    def __init__(self, crate, j):
        self.crate = crate
        self.j = j
        self.path = j["path"]
        self.dk = j["dk"]
        self.name = j.get("name", "")
        self.children = []
        self.parent = None
        self._body = None

    @property
    def file(self):
        return self.j.get("file", "")

    @property
    def line(self):
        return self.j.get("ln", 0)

    def loc(self):
        return f"{self.file}:{self.line}"

    @property
    def body(self):
        if self._body is None:
            self._body = Body(self, self.j["mir"])
        return self._body

    @property
    def hir(self):
        """Typed HIR tree of the body, with the crate's own literal constants folded in: `const HEALTH: &str = "/health";
        match p { HEALTH => .. }` reads as the literal it names (patterns and expressions alike)."""
        h = self.j.get("hir")
        if h is None or self.__dict__.get("_hir_folded"):
            return h
        self.__dict__["_hir_folded"] = True
        raw = getattr(self.crate, "raw_by_path", None) or self.crate.by_path

        def lit_of_const(path, depth=0):
            f = raw.get(path)
            if f is None or not str(getattr(f, "dk", "")).startswith("Const") or depth > 3:
                return None
            b = f.j.get("hir")
            while isinstance(b, dict) and b.get("k") in ("Block",) and not b.get("stmts") and isinstance(b.get("expr"), dict):
                b = b["expr"]
            if isinstance(b, dict) and b.get("k") == "Lit":
                return b
            if isinstance(b, dict) and b.get("k") == "Path" and b.get("res") == "def" and str(b.get("dk", "")).startswith("Const"):
                return lit_of_const(b.get("path"), depth + 1)
            return None

        def fold(n):
            if isinstance(n, dict):
                if n.get("k") == "Path" and n.get("res") == "def" and str(n.get("dk", "")).startswith("Const") and n.get("path") != self.path:
                    lit = lit_of_const(n.get("path"))
                    if lit is not None:
                        keep = {k: v for k, v in n.items() if k in ("ln", "exp", "adj", "aty")}
                        n.clear()
                        n.update(lit)
                        n.update(keep)
                        n["const_item"] = True
                        return
                for v in n.values():
                    fold(v)
            elif isinstance(n, list):
                for v in n:
                    fold(v)

        fold(h)
        return h

    def promoted_bodies(self):
        """Promoted constant bodies of this function and of every helper spliced into it."""
        out = list(self.j.get("promoted") or [])
        raw = getattr(self.crate, "raw_by_path", None)
        for p in getattr(self, "inlined", ()):
            f = raw.get(p) if raw else None
            if f is not None:
                out.extend(f.j.get("promoted") or [])
        return out

    def region(self):
        """This function plus (transitively) the closures it creates."""
        out = [self]
        for c in self.children:
            out.extend(c.region())
        return out

    def region_calls(self):
        for f in self.region():
            for cs in f.body.calls():
                yield cs

    def __repr__(self):
        return f"<Fn {self.path}>"


# --------------------------------------------------------------------------------------------
# MIR
# --------------------------------------------------------------------------------------------
class CallSite:
    def __init__(self, body, bb, t):
        self.body = body
        self.fn = body.fn
        self.bb = bb
        self.t = t

    @property
    def callee(self):
        return self.t.get("callee")

    @property
    def resolved(self):
        return self.t.get("resolved") or self.t.get("callee")

    @property
    def names(self):
        return {x for x in (self.t.get("callee"), self.t.get("resolved")) if x}

    @property
    def args(self):
        return self.t["args"]

    @property
    def line(self):
        return self.t.get("ln", 0)

    @property
    def exp(self):
        return self.t.get("exp")

    def foreign(self):
        return is_foreign_exp(self.t.get("exp"))

    def is_(self, *suffixes):
        return any(path_is(n, s) for n in self.names for s in suffixes)

    def loc(self):
        return f"{self.fn.file}:{self.line}"

    def __repr__(self):
        return f"<call {self.resolved} in {self.fn.path} bb{self.bb}>"


LOCAL_CRATES = ("metrics", "metrics_util", "metrics_exporter_prometheus", "metrics_exporter_dogstatsd", "metrics_exporter_tcp", "metrics_tracing_context")


def is_foreign_exp(exp):
    """True for nodes produced by a macro defined outside the workspace (tracing, format_args, ...)."""
    if not exp:
        return False
    if exp.startswith("desugar:"):
        return False
    if exp.startswith("macro:"):
        krate = exp[6:].split("::")[0]
        return krate not in LOCAL_CRATES
    return True


def strip_generics(p: str) -> str:
    if p.startswith("<"):
        # qualified form <Self as Trait>::rest  -- keep the qualifier, strip generics inside it
        depth = 0
        for i, ch in enumerate(p):
            if ch == "<":
                depth += 1
            elif ch == ">":
                depth -= 1
                if depth == 0:
                    inner = p[1:i]
                    parts = inner.split(" as ", 1)
                    inner = " as ".join(_strip_generics_plain(x) for x in parts)
                    return "<" + inner + ">" + _strip_generics_plain(p[i + 1 :])
        return p
    return _strip_generics_plain(p)


def _strip_generics_plain(p: str) -> str:
    out, depth = [], 0
    for ch in p:
        if ch == "<":
            depth += 1
        elif ch == ">":
            depth -= 1
        elif depth == 0:
            out.append(ch)
    return "".join(out).replace("::::", "::")


def path_is(path: str, want: str) -> bool:
    """Match a def path against `want` ignoring generic arguments.  `want` may be a full path or a
    suffix starting at a segment boundary (e.g. 'AtomicU64::fetch_add')."""
    if path is None:
        return False
    if path == want:
        return True
    a = strip_generics(path)
    b = strip_generics(want)
    return a == b or a.endswith("::" + b)


class Body:
    def __init__(self, fn, m):
        self.fn = fn
        self.m = m
        self.blocks = m["blocks"]
        self.locals = m["locals"]
        self.argc = m["argc"]
        self.n = len(self.blocks)
        self._succ = {}
        self._defs = None

    # ---- CFG
    def term(self, bb):
        return self.blocks[bb].get("t") or {"k": "none"}

    def succ(self, bb, unwind=False):
        key = (bb, unwind)
        if key in self._succ:
            return self._succ[key]
        t = self.term(bb)
        k = t["k"]
        out = []
        if k == "goto":
            out = [t["target"]]
        elif k == "switch":
            out = [a["bb"] for a in t["arms"]] + [t["otherwise"]]
        elif k in ("drop", "assert"):
            out = [t["target"]]
        elif k == "call":
            if t.get("target") is not None:
                out = [t["target"]]
        elif k == "yield":
            out = [t["target"]]
        if unwind and isinstance(t.get("unwind"), int):
            out = out + [t["unwind"]]
        self._succ[key] = out
        return out

    def preds(self, unwind=False):
        p = {i: [] for i in range(self.n)}
        for i in range(self.n):
            for s in self.succ(i, unwind):
                p[s].append(i)
        return p

    def reachable(self, start, cut=(), unwind=False):
        """Blocks reachable from block `start` (inclusive) without passing *through* a block in cut
        (cut blocks themselves are not entered)."""
        cut = set(cut)
        seen = set()
        st = [start]
        while st:
            b = st.pop()
            if b in seen or b in cut:
                continue
            seen.add(b)
            st.extend(self.succ(b, unwind))
        return seen

    def reachable_after(self, bb, cut=(), unwind=False):
        """Blocks reachable from the *successors* of bb."""
        out = set()
        for s in self.succ(bb, unwind):
            out |= self.reachable(s, cut, unwind)
        return out

    @lru_cache(maxsize=None)
    def dominators(self, unwind=False):
        n = self.n
        preds = self.preds(unwind)
        reach = self.reachable(0, (), unwind)
        dom = {b: (set(reach) if b != 0 else {0}) for b in reach}
        changed = True
        order = sorted(reach)
        while changed:
            changed = False
            for b in order:
                if b == 0:
                    continue
                ps = [p for p in preds[b] if p in reach]
                new = set(reach)
                for p in ps:
                    new &= dom[p]
                new.add(b)
                if new != dom[b]:
                    dom[b] = new
                    changed = True
        return dom

    def dominates(self, a, b, unwind=False):
        d = self.dominators(unwind)
        return b in d and a in d[b]

    def reachable_without_edge(self, start, edge, unwind=False):
        a, s_ = edge
        seen = set()
        st = [start]
        while st:
            b = st.pop()
            if b in seen:
                continue
            seen.add(b)
            for n in self.succ(b, unwind):
                if b == a and n == s_:
                    continue
                st.append(n)
        return seen

    def edge_dominates(self, edge, b, unwind=False):
        """Every path from entry to block b takes CFG edge (a -> s)."""
        if b not in self.reachable(0, (), unwind):
            return False
        # if the switch has several arms to the same target the edge is not unique -> be conservative
        a, s_ = edge
        if self.succ(a, unwind).count(s_) != 1:
            return False
        return b not in self.reachable_without_edge(0, edge, unwind)

    def edges_dominate(self, edges, b, unwind=False):
        """Every path from entry to b takes at least one of the given edges."""
        edges = set(edges)
        seen = set()
        st = [0]
        while st:
            x = st.pop()
            if x in seen:
                continue
            seen.add(x)
            for n in self.succ(x, unwind):
                if (x, n) in edges:
                    continue
                st.append(n)
        return b in self.reachable(0, (), unwind) and b not in seen

    def switch_edges(self, bb):
        """[(label, target)] for a switch terminator; label is variant name / char / int, or 'otherwise'."""
        t = self.term(bb)
        if t["k"] != "switch":
            return []
        out = []
        for a in t["arms"]:
            out.append((a.get("variant", a.get("char", a["v"])), a["bb"]))
        out.append(("otherwise", t["otherwise"]))
        return out

    def call_blocks(self, *suffixes):
        return [c.bb for c in self.find_calls(*suffixes)]

    def return_blocks(self):
        return [i for i in range(self.n) if self.term(i)["k"] == "return"]

    def live_blocks(self):
        """Blocks reachable from the entry (normal and unwind edges): dead blocks — e.g. the arms of a match on a
        constant that the program view pruned — are not part of the function."""
        if getattr(self, "_live", None) is None:
            self._live = self.reachable(0, (), True)
        return self._live

    def calls(self):
        live = self.live_blocks()
        for i, b in enumerate(self.blocks):
            if i not in live:
                continue
            t = b.get("t")
            if t and t["k"] in ("call", "tailcall"):
                yield CallSite(self, i, t)

    def find_calls(self, *suffixes, foreign=False):
        return [c for c in self.calls() if c.is_(*suffixes) and (foreign or not c.foreign())]

    def stmts(self):
        live = self.live_blocks()
        for i, b in enumerate(self.blocks):
            if i not in live:
                continue
            for k, s in enumerate(b["s"]):
                yield i, k, s

    # ---- definitions / provenance (flow-insensitive over MIR temporaries)
    def defs(self):
        """local -> list of ('assign', bb, idx, stmt) | ('call', bb, term)"""
        if self._defs is None:
            d = {}
            for i, k, s in self.stmts():
                if s["k"] == "assign" and not s["p"].get("pr"):
                    d.setdefault(s["p"]["l"], []).append(("assign", i, k, s))
            for i, b in enumerate(self.blocks):
                t = b.get("t")
                if t and t["k"] == "call" and not t["dest"].get("pr"):
                    d.setdefault(t["dest"]["l"], []).append(("call", i, None, t))
            self._defs = d
        return self._defs

    def local_name(self, l):
        return self.locals[l].get("name")

    def local_ty(self, l):
        return self.locals[l]["ty"]

    def origins(self, op, depth=0, seen=None):
        """Backward provenance of an operand/place.  Returns a set of tuples:
        ('arg', i, projstr) ('const', json) ('call', callee, bb) ('static', path) ('agg', desc)
        ('local', l, projstr) for locals with no definition (e.g. closure env) and ('unknown',)."""
        if seen is None:
            seen = set()
        out = set()
        if "const" in op:
            c = op["const"]
            if "static" in c:
                out.add(("static", c["static"]))
            else:
                out.add(("const", json.dumps(c, sort_keys=True)))
            return out
        p = op.get("copy") or op.get("move") or op.get("place") or op
        return self.place_origins(p, depth, seen)

    def place_origins(self, p, depth=0, seen=None):
        if seen is None:
            seen = set()
        l = p["l"]
        proj = proj_str(p.get("pr"))
        key = (l, proj)
        out = set()
        if key in seen or depth > 40:
            return out
        seen.add(key)
        if 1 <= l <= self.argc:
            out.add(("arg", l - 1, proj))
            # arguments may also be reassigned; continue to look at defs
        ds = self.defs().get(l, [])
        if not ds and not (1 <= l <= self.argc):
            out.add(("local", l, proj))
        for d in ds:
            if d[0] == "call":
                t = d[3]
                out.add(("call", t.get("resolved") or t.get("callee") or "?", d[1], proj))
                continue
            rv = d[3]["rv"]
            k = rv["k"]
            if k == "use":
                for o in self.origins(rv["a"], depth + 1, seen):
                    out.add(append_proj(o, proj))
            elif k in ("ref", "rawptr"):
                for o in self.place_origins(rv["p"], depth + 1, seen):
                    out.add(append_proj(o, ("&" + proj) if proj else "&"))
            elif k == "cast":
                for o in self.origins(rv["a"], depth + 1, seen):
                    out.add(append_proj(o, proj))
            elif k == "tlsref":
                out.add(("static", rv["static"]))
            elif k == "agg":
                out.add(("agg", rv.get("adt") or rv.get("closure") or rv.get("agg"), rv.get("variant"), d[1], proj))
            elif k == "discr":
                for o in self.place_origins(rv["p"], depth + 1, seen):
                    out.add(append_proj(o, "discr"))
            elif k in ("bin", "un"):
                out.add(("op", rv["op"], d[1], d[2]))
            else:
                out.add(("unknown", k))
        return out


def proj_str(pr):
    if not pr:
        return ""
    out = []
    for e in pr:
        if e == "*":
            out.append("*")
        elif isinstance(e, str):
            out.append(e)
        elif "f" in e:
            out.append("." + e["f"])
        elif "as" in e:
            out.append("@" + e["as"])
        elif "idx" in e:
            out.append("[]")
        elif "cidx" in e:
            out.append(f"[{e['cidx']}]")
        else:
            out.append("?")
    return "".join(out)


def append_proj(o, proj):
    if not proj:
        return o
    if o[0] in ("arg", "local"):
        return (o[0], o[1], o[2] + proj)
    return o


def op_place(op):
    return op.get("copy") or op.get("move")


def op_const(op):
    return op.get("const")


# --------------------------------------------------------------------------------------------
# HIR tree queries
# --------------------------------------------------------------------------------------------
def walk(node, into_closures=True):
    """Pre-order walk over every dict node with a 'k' key."""
    if isinstance(node, dict):
        if "k" in node:
            yield node
            if node["k"] == "Closure" and not into_closures:
                return
        for key, v in node.items():
            if isinstance(v, (dict, list)):
                yield from walk(v, into_closures)
    elif isinstance(node, list):
        for x in node:
            yield from walk(x, into_closures)


def walk_deep(crate, node, depth=3, _stack=()):
    """walk() that also descends into the HIR bodies of the crate's non-exported, non-trait helper functions called
    from the subtree (the HIR counterpart of the MIR splicing: helper extraction does not hide what a region does)."""
    raw = getattr(crate, "raw_by_path", None) or crate.by_path
    for n in walk(node):
        yield n
        if depth > 0 and n.get("k") in ("Call", "MethodCall"):
            for nm in call_names(n):
                f = raw.get(nm)
                if f is None or nm in _stack or f.dk not in ("Fn", "AssocFn") or f.j.get("exported") or f.j.get("impl_trait") or not f.j.get("hir"):
                    continue
                yield from walk_deep(crate, f.j["hir"], depth - 1, _stack + (nm,))
                break


def find(node, k=None, pred=None, **attrs):
    out = []
    for n in walk(node):
        if k is not None and n.get("k") != k:
            continue
        if any(n.get(a) != v for a, v in attrs.items()):
            continue
        if pred is not None and not pred(n):
            continue
        out.append(n)
    return out


def peel(n):
    """Strip wrappers that do not change the value: single-expression blocks, borrows, Use, Type."""
    while isinstance(n, dict):
        k = n.get("k")
        if k == "Block" and not n.get("stmts") and n.get("expr"):
            n = n["expr"]
        elif k in ("AddrOf", "Use", "Type", "Semi") and "e" in n:
            n = n["e"]
        elif k == "Unary" and n.get("op") == "Deref":
            n = n["a"]
        else:
            break
    return n


def call_name(n):
    """Resolved callee path of a Call/MethodCall node (None otherwise)."""
    if not isinstance(n, dict):
        return None
    if n.get("k") == "MethodCall":
        return n.get("resolved") or n.get("def")
    if n.get("k") == "Call":
        if n.get("resolved"):
            return n["resolved"]
        c = n.get("callee")
        if c:
            return c.get("path") or (("local:" + c["name"]) if c.get("res") == "local" else None)
    return None


def call_names(n):
    out = set()
    if n.get("k") == "MethodCall":
        for a in ("resolved", "def"):
            if n.get(a):
                out.add(n[a])
    elif n.get("k") == "Call":
        if n.get("resolved"):
            out.add(n["resolved"])
        c = n.get("callee")
        if c and c.get("path"):
            out.add(c["path"])
    return out


def is_call_to(n, *suffixes):
    return any(path_is(x, s) for x in call_names(n) for s in suffixes)


def calls_in(node, *suffixes, foreign=False):
    out = []
    for n in walk(node):
        if n.get("k") in ("Call", "MethodCall") and (not suffixes or is_call_to(n, *suffixes)):
            if not foreign and is_foreign_exp(n.get("exp")):
                continue
            out.append(n)
    return out


def call_args(n):
    """Receiver (if any) followed by arguments."""
    if n.get("k") == "MethodCall":
        return [n["recv"]] + list(n["args"])
    return list(n.get("args", []))


def is_local(n, name=None):
    n = peel(n)
    return isinstance(n, dict) and n.get("k") == "Path" and n.get("res") == "local" and (name is None or n.get("name") == name)


def local_name(n):
    n = peel(n)
    if isinstance(n, dict) and n.get("k") == "Path" and n.get("res") == "local":
        return n.get("name")
    return None


def is_self_field(n, field=None):
    """`self.<field>` possibly behind borrows."""
    n = peel(n)
    if isinstance(n, dict) and n.get("k") == "Field" and (field is None or n.get("f") == field):
        return is_local(n["e"], "self")
    return False


def field_chain(n):
    """For a.b.c returns ('a', ['b','c']) where a is a local name or def path; None otherwise."""
    n = peel(n)
    fields = []
    while isinstance(n, dict) and n.get("k") == "Field":
        fields.append(n["f"])
        n = peel(n["e"])
    if isinstance(n, dict) and n.get("k") == "Path":
        base = n.get("name") if n.get("res") == "local" else n.get("path")
        return base, list(reversed(fields))
    return None


def path_of(n):
    n = peel(n)
    if isinstance(n, dict) and n.get("k") == "Path":
        return n.get("path") or (("local:" + n["name"]) if n.get("res") == "local" else None)
    return None


def lit_of(n):
    n = peel(n)
    if isinstance(n, dict) and n.get("k") == "Lit":
        for a in ("str", "int", "char", "bool", "float"):
            if a in n:
                return n[a]
    return None


def contains(node, pred):
    return any(pred(n) for n in walk(node))


def nonforeign(nodes):
    return [n for n in nodes if not is_foreign_exp(n.get("exp"))]


# --------------------------------------------------------------------------------------------
# Symbolic value of a MIR operand (flow-insensitive over single-assignment temporaries)
# --------------------------------------------------------------------------------------------
def const_val(c):
    if "bytes" in c:
        return ("bytes", tuple(c["bytes"]))
    for k in ("fn", "closure", "static", "str", "char", "bool", "variant", "int", "float"):
        if k in c:
            if k == "int" and "variant" in c and c["variant"]:
                return ("variant", c["variant"])
            if "named" in c:
                return (k, c[k], c["named"])
            return (k, c[k])
    if "promoted" in c:
        return ("promoted", c["promoted"])
    if "named" in c:
        return ("named", c["named"])
    if c.get("zst"):
        return ("zst", c.get("ty"))
    return ("opaque", c.get("ty"))


class Sym:
    """Builds symbolic expressions for operands of one body; closure captures are resolved through
    the parent body (`capture` nodes carry the parent's expression)."""

    def __init__(self, fn):
        self.fn = fn
        self.body = fn.body
        self._memo = {}
        self._parent_caps = None

    def operand(self, op, depth=0, visiting=frozenset()):
        if "const" in op:
            cv = const_val(op["const"])
            if cv[0] == "promoted":
                r = self._promoted(cv[1], op["const"].get("promoted_of"))
                if r is not None:
                    return r
            if cv[0] == "named":
                # a named constant of this crate whose body is a literal reads as that literal
                # (`const TAGS_PREFIX: &[u8] = b"|#";`)
                raw = getattr(self.fn.crate, "raw_by_path", None) or self.fn.crate.by_path
                cf = raw.get(cv[1])
                h = cf.j.get("hir") if cf is not None and str(getattr(cf, "dk", "")).startswith("Const") else None
                while isinstance(h, dict) and h.get("k") == "Block" and not h.get("stmts") and isinstance(h.get("expr"), dict):
                    h = h["expr"]
                if isinstance(h, dict) and h.get("k") == "Lit":
                    for k_ in ("bytes", "str", "char", "bool", "int", "float"):
                        if k_ in h:
                            return ("const", k_, tuple(h[k_]) if k_ == "bytes" else h[k_])
            return ("const",) + cv
        p = op.get("copy") or op.get("move")
        if p is None:
            return ("unknown", "operand")
        return self.place(p, depth, visiting)

    def place(self, p, depth=0, visiting=frozenset()):
        s = self.local(p["l"], depth, visiting)
        for e in p.get("pr") or []:
            if e == "*":
                s = deref(s)
            elif isinstance(e, str):
                pass
            elif "f" in e:
                s = self._field(s, e["f"], e.get("i"))
            elif "as" in e:
                s = ("downcast", s, e["as"])
            elif "idx" in e:
                s = ("index", s, self.local(e["idx"], depth + 1, visiting))
            elif "cidx" in e:
                s = ("index", s, ("const", "int", e["cidx"]))
            else:
                s = ("proj", s)
        return s

    def _field(self, s, name, idx):
        # closure environment capture
        base = s
        while isinstance(base, tuple) and base and base[0] in ("deref", "ref"):
            base = base[1]
        if base == ("env",):
            caps = self._captures()
            if caps is not None and idx is not None and idx < len(caps):
                return ("capture", idx, caps[idx])
            return ("capture", idx, ("unknown", "capture"))
        if s[0] == "phi":
            alts = tuple(self._field(x, name, idx) for x in s[1])
            uniq = []
            for a in alts:
                if a not in uniq:
                    uniq.append(a)
            return uniq[0] if len(uniq) == 1 else ("phi", tuple(uniq))
        inner = strip_sym(s)
        if isinstance(inner, tuple) and inner and inner[0] == "agg" and inner[1] in ("tuple", "closure") and s[0] != "agg":
            # field of a tuple / closure environment reached through references or a capture
            def _through_capture(x):
                while isinstance(x, tuple) and x and x[0] in ("ref", "deref", "capture", "cast"):
                    if x[0] == "capture":
                        return True
                    x = x[2] if x[0] == "capture" else x[1]
                return False

            via = _through_capture(s)
            r = self._field(inner, name, idx)
            return ("capture", -1, r) if via and not (isinstance(r, tuple) and r and r[0] == "capture") else r
        if s[0] == "agg" and s[3] is not None:
            # field of a locally built aggregate
            fields = s[4]
            if fields and name in fields:
                i = fields.index(name)
                if i < len(s[3]):
                    return s[3][i]
            if s[1] in ("tuple", "closure") and idx is not None and idx < len(s[3]):
                return s[3][idx]
        return ("field", s, name)

    def _promoted(self, idx, owner=None):
        """Symbolic value returned by promoted body #idx of this function (or of the function it was inlined from)."""
        key = ("promoted", idx, owner)
        if key in self._memo:
            return self._memo[key]
        of = self.fn
        if owner and owner != self.fn.path:
            raw = getattr(self.fn.crate, "raw_by_path", None) or self.fn.crate.by_path
            of = raw.get(owner) or self.fn
        proms = of.j.get("promoted") or []
        if idx >= len(proms):
            return None
        pf = _PromotedFn(of, proms[idx], idx)
        r = Sym(pf).local(0)
        self._memo[key] = r
        return r

    def _captures(self):
        if self._parent_caps is not None:
            return self._parent_caps or None
        self._parent_caps = []
        par = self.fn.parent
        if par is None:
            return None
        ps = Sym(par)
        for i, k, st in par.body.stmts():
            if st["k"] == "assign" and st["rv"]["k"] == "agg" and st["rv"].get("closure") == self.fn.path:
                self._parent_caps = [ps.operand(o) for o in st["rv"]["ops"]]
                break
        return self._parent_caps or None

    def local(self, l, depth=0, visiting=frozenset()):
        if l in self._memo:
            return self._memo[l]
        if l in visiting or depth > 60:
            return ("cycle", l)
        body = self.body
        is_arg = 1 <= l <= body.argc
        ds = body.defs().get(l, [])
        vis = visiting | {l}
        vals = []
        if is_arg:
            if self.fn.dk == "Closure" and l == 1:
                vals.append(("env",))
            else:
                vals.append(("arg", l - 1, body.local_name(l)))
        for d in ds:
            if d[0] == "call":
                t = d[3]
                name = t.get("resolved") or t.get("callee") or "?"
                if "callee" not in t:
                    name = ("indirect", self.operand(t["callee_op"], depth + 1, vis)) if "callee_op" in t else "?"
                cv = ("call", name, tuple(self.operand(a, depth + 1, vis) for a in t["args"]), t.get("callee"))
                vals.append(self._beta(cv, depth))
            else:
                vals.append(self.rvalue(d[3]["rv"], depth + 1, vis))
        if not vals:
            r = ("undef", l, body.local_name(l))
        elif len(vals) == 1:
            r = vals[0]
        else:
            # drop-flag style duplicates collapse
            uniq = []
            for v in vals:
                if v not in uniq:
                    uniq.append(v)
            r = uniq[0] if len(uniq) == 1 else ("phi", tuple(uniq))
        if not contains_cycle(r):
            self._memo[l] = r
        return r

    def _beta(self, cv, depth=0):
        """`op(x)` where op is a closure literal known in this crate: the closure's result with x substituted."""
        if depth > 40 or not isinstance(cv[3], str) or not cv[3].endswith(("Fn::call", "FnMut::call_mut", "FnOnce::call_once")) or len(cv[2]) != 2:
            return cv
        f = strip_sym(cv[2][0])
        if isinstance(f, tuple) and f[:2] == ("const", "fn"):
            tup = strip_sym(cv[2][1])
            if tup[0] == "agg" and tup[1] == "tuple":
                return ("call", f[2], tuple(tup[3]), f[2])
        if not (isinstance(f, tuple) and f and f[0] == "agg" and f[1] == "closure"):
            return cv
        cf = self.fn.crate.by_path.get(f[5])
        if cf is None or cf.j.get("mir") is None:
            return cv
        tup = strip_sym(cv[2][1])
        if not (tup[0] == "agg" and tup[1] == "tuple"):
            return cv
        try:
            res = Sym(cf).local(0)
        except RecursionError:
            return cv
        if contains_cycle(res):
            return cv
        actual = tup[3]
        caps = f[3]

        def sub(x):
            if not isinstance(x, tuple) or not x:
                return x
            if x[0] == "arg" and 1 <= x[1] <= len(actual):
                return actual[x[1] - 1]
            if x[0] == "capture":
                # already expressed in the creating function's terms: not the closure's own parameters
                if isinstance(x[1], int) and x[1] < len(caps) and x[2] == ("unknown", "capture"):
                    return caps[x[1]]
                return x
            if x[0] == "const":
                return x
            return tuple(sub(y) if isinstance(y, tuple) else y for y in x)

        return sub(res)

    def rvalue(self, rv, depth, vis):
        k = rv["k"]
        if k == "use":
            return self.operand(rv["a"], depth, vis)
        if k in ("ref", "rawptr"):
            return ref(self.place(rv["p"], depth, vis))
        if k == "cast":
            inner = self.operand(rv["a"], depth, vis)
            c = rv["cast"]
            if c.startswith("PointerCoercion") or c in ("PtrToPtr", "Transmute", "Subtype"):
                return ("cast", inner, rv["to"], c)
            return ("cast", inner, rv["to"], c)
        if k == "bin":
            return ("bin", rv["op"], self.operand(rv["a"], depth, vis), self.operand(rv["b"], depth, vis))
        if k == "un":
            return ("un", rv["op"], self.operand(rv["a"], depth, vis))
        if k == "discr":
            return ("discr", self.place(rv["p"], depth, vis))
        if k == "agg":
            name = rv.get("adt") or rv.get("closure") or rv.get("agg")
            kind = rv.get("agg")
            return ("agg", kind if kind in ("tuple", "array", "closure") else name, rv.get("variant"), tuple(self.operand(o, depth, vis) for o in rv["ops"]), tuple(rv.get("fields") or ()), name)
        if k == "tlsref":
            return ("const", "static", rv["static"])
        if k == "repeat":
            return ("repeat", self.operand(rv["a"], depth, vis), rv.get("n"))
        return ("unknown", k)


def alternatives(fn, op, at_bb, sy=None, _seen=None):
    """Definition sites a value may come from: [(bb, sym)] or [(bb, sym, extra_gates)] (extra_gates = ((subject, variant),..)
    for alternatives produced by an Option combinator rather than by control flow).  Copies/moves/reborrows/pointer casts of a bare local are
    followed; a local assigned on several paths yields one alternative per assignment, located at the assigning block
    (so the switch edges gating *that* block say under which condition the alternative is chosen).  The shape
    `if c {f(a)} else {f(b)}` and the shape `let x = if c {a} else {b}; f(x)` give the same alternatives."""
    sy = sy or Sym(fn)
    body = fn.body
    _seen = _seen if _seen is not None else set()
    if "const" in op:
        return [(at_bb, sy.operand(op))]
    p = op.get("copy") or op.get("move")
    if p is None:
        return [(at_bb, ("unknown", "operand"))]
    pr = [e for e in (p.get("pr") or []) if e != "*"]
    l = p["l"]
    if pr or l in _seen or (1 <= l <= body.argc):
        return [(at_bb, sy.place(p))]
    ds = body.defs().get(l, [])
    if not ds:
        return [(at_bb, sy.place(p))]
    out = []
    for d in ds:
        bb = d[1]
        if d[0] == "call":
            t = d[3]
            name = t.get("resolved") or t.get("callee") or "?"
            if "callee" not in t:
                out.append((bb, sy.local(l)))
            elif path_is(name, "Option<T>::unwrap_or") and len(t["args"]) == 2:
                # `opt.unwrap_or(d)` == match opt { Some(v) => v, None => d }: two alternatives with virtual gates
                opt = sy.operand(t["args"][0])
                out.append((bb, ("field", ("downcast", opt, "Some"), "0"), ((strip_sym(opt), "Some"),)))
                for bb2, dv, *g in alternatives(fn, t["args"][1], bb, sy, _seen | {l}):
                    out.append((bb2, dv, tuple(g[0] if g else ()) + ((strip_sym(opt), "None"),)))
            else:
                out.append((bb, ("call", name, tuple(sy.operand(a) for a in t["args"]), t.get("callee"))))
            continue
        rv = d[3]["rv"]
        k = rv["k"]
        if k == "use":
            out.extend(alternatives(fn, rv["a"], bb, sy, _seen | {l}))
        elif k in ("ref", "rawptr") and not [e for e in (rv["p"].get("pr") or []) if e != "*"]:
            out.extend(alternatives(fn, {"copy": {"l": rv["p"]["l"]}}, bb, sy, _seen | {l}))
        elif k == "cast" and (rv["cast"].startswith("PointerCoercion") or rv["cast"] in ("PtrToPtr", "Subtype")):
            out.extend(alternatives(fn, rv["a"], bb, sy, _seen | {l}))
        else:
            out.append((bb, sy.rvalue(rv, 0, frozenset())))
    return out


class PredFlow:
    """Forward, path-sensitive propagation of ONE predicate P over a body: for every block, whether P is known to hold
    ('P'), known not to hold ('N'), unknown ('T') when control reaches it, or the block is unreachable ('B').

    The predicate is introduced by the caller through two classifiers:
      classify_switch(subject_sym, variant_or_value) -> 'P' | 'N' | None    for `match subject { Variant => .. }` edges
      classify_bool(sym_of_bool_def)                -> (when_true, when_false) | None   for bool-valued calls/rvalues
    Everything else is generic: bool constants assigned under a known P (e.g. `matches!`), copies, `!x`, switches on
    such bools, merges.  So `match r {Ok(..) => A, _ => B}`, `if r.is_err() {return B}; A`, `if r != Ok(0) {..}`,
    and `let won = helper(); if won {A} else {B}` all give block A the value 'P'."""

    def __init__(self, fn, classify_switch, classify_bool=None, start=0, cut=()):
        """start/cut: propagate from block `start` only (nothing known there) and not through the blocks in `cut` — the
        facts that hold on the ways from one edge of a switch to the next loop iteration, say."""
        self.fn = fn
        self.body = body = fn.body
        self.sy = Sym(fn)
        self.cs = classify_switch
        self.cb = classify_bool or (lambda s: None)
        n = body.n
        self.K = ["B"] * n
        self.env_in = [None] * n
        self.K[start] = "T"
        self.env_in[start] = {}
        cut = set(cut)
        work = [start]
        it = 0
        while work and it < 50000:
            it += 1
            b = work.pop()
            if self.K[b] == "B" or b in cut:
                continue
            for tgt, k2, env2 in self._transfer(b):
                if tgt is None or not isinstance(tgt, int) or tgt >= n or k2 == "B":
                    continue
                changed = False
                nk = self._join(self.K[tgt], k2)
                if nk != self.K[tgt]:
                    self.K[tgt] = nk
                    changed = True
                e = self.env_in[tgt]
                if e is None:
                    self.env_in[tgt] = dict(env2)
                    changed = True
                else:
                    for l in set(e) | set(env2):
                        nv = self._joinv(e.get(l, ("T", "T")), env2.get(l, ("T", "T")))
                        if e.get(l) != nv:
                            e[l] = nv
                            changed = True
                if changed:
                    work.append(tgt)

    @staticmethod
    def _join(a, b):
        if a == "B":
            return b
        if b == "B":
            return a
        return a if a == b else "T"

    def _joinv(self, a, b):
        if a[0] == "V" or b[0] == "V":
            # variant environments: a variant seen on one way only keeps the state it was stored under; if one way knows
            # nothing about the local (("T","T") default), nothing is known after the join
            if a[0] != "V" or b[0] != "V":
                return ("T", "T")
            da, db = dict(a[1]), dict(b[1])
            return ("V", tuple(sorted((v, self._join(da.get(v, "B"), db.get(v, "B"))) for v in set(da) | set(db))))
        return (self._join(a[0], b[0]), self._join(a[1], b[1]))

    @staticmethod
    def _refine(k, w):
        if w in ("P", "N"):
            if k == "T":
                return w
            return k if k == w else "B"
        if w == "B":
            return "B"
        return k

    def _is_bool(self, l):
        return self.body.locals[l]["ty"] == "bool"

    @staticmethod
    def _refine_to(k, stored):
        """State on the edge of a match arm for a variant that was stored under state `stored`: the edge is taken only on
        ways on which that variant was stored, so what was known there holds (meet of the two)."""
        if stored == "B" or k == "B":
            return "B"
        if stored == "T":
            return k
        if k == "T":
            return stored
        return k if k == stored else "B"

    def _transfer(self, b):
        body, sy = self.body, self.sy
        K = self.K[b]
        env = dict(self.env_in[b] or {})
        blk = body.blocks[b]
        for st in blk["s"]:
            if st["k"] != "assign" or st["p"].get("pr"):
                continue
            l = st["p"]["l"]
            if not self._is_bool(l):
                # enum-valued locals: which variant was stored under which state of the predicate ("decide, then act":
                # `let route = if p { A } else { B }; match route { .. }`), so that a later match on the local refines P
                rv = st["rv"]
                key = ("v", l)
                if rv["k"] == "agg" and rv.get("variant") and rv.get("agg") == "adt":
                    env[key] = ("V", ((rv["variant"], K),))
                elif rv["k"] == "use":
                    q = rv["a"].get("move") or rv["a"].get("copy")
                    if q is not None and not q.get("pr") and ("v", q["l"]) in env:
                        env[key] = env[("v", q["l"])]
                    else:
                        env.pop(key, None)
                elif rv["k"] == "discr":
                    q = rv["p"]
                    if not q.get("pr") and ("v", q["l"]) in env:
                        env[("d", l)] = env[("v", q["l"])]
                    else:
                        env.pop(("d", l), None)
                else:
                    env.pop(key, None)
                continue
            env[l] = self._bool_rv(st["rv"], env, K)
        t = body.term(b)
        k = t["k"]
        out = []
        if k == "switch":
            d = t["discr"]
            dp = d.get("copy") or d.get("move")
            per_edge = None
            if dp is not None and not dp.get("pr") and dp["l"] in env and t.get("dty") == "bool":
                wt, wf = env[dp["l"]]
                per_edge = lambda v: wf if v == 0 else wt
                vals = [a["v"] for a in t["arms"]]
                oth = wt if vals == [0] else wf if vals == [1] else "T"
            elif dp is not None and not dp.get("pr") and isinstance(env.get(("d", dp["l"])), tuple) and env[("d", dp["l"])][0] == "V" and t.get("enum"):
                # a match on an enum-valued local whose variants were stored under known states of the predicate
                vmap = dict(env[("d", dp["l"])][1])
                hit = set()
                for a in t["arms"]:
                    v = a.get("variant")
                    hit.add(v)
                    out.append((a["bb"], self._refine_to(K, vmap.get(v, "B")), env))
                rest = [v for v in (t.get("all_variants") or []) if v not in hit]
                ks = [vmap.get(v, "B") for v in rest]
                ko = "B"
                for k_ in ks:
                    ko = self._join(ko, k_)
                out.append((t["otherwise"], self._refine_to(K, ko) if rest else "B", env))
                return out
            else:
                subj = strip_sym(sy.operand(d))
                if subj and subj[0] == "discr":
                    subj = strip_sym(subj[1])
                covered = [a.get("variant", a["v"]) for a in t["arms"]]
                rest = [v for v in (t.get("all_variants") or []) if v not in covered]
                per_edge = None
                labels = {}
                for a in t["arms"]:
                    labels[a["bb"]] = self._cls(subj, a.get("variant", a["v"]))
                if len(rest) == 1:
                    oth = self._cls(subj, rest[0])
                elif rest:
                    cl = {self._cls(subj, r) for r in rest}
                    oth = cl.pop() if len(cl) == 1 else None
                elif not t.get("all_variants"):
                    oth = self._cls(subj, ("not", tuple(a["v"] for a in t["arms"])))
                else:
                    oth = None
                for a in t["arms"]:
                    out.append((a["bb"], self._refine(K, labels[a["bb"]]), env))
                out.append((t["otherwise"], self._refine(K, oth), env))
                return out
            for a in t["arms"]:
                out.append((a["bb"], self._refine(K, per_edge(a["v"])), env))
            out.append((t["otherwise"], self._refine(K, oth), env))
            return out
        if k == "call":
            dest = t["dest"]
            if not dest.get("pr") and self._is_bool(dest["l"]):
                name = t.get("resolved") or t.get("callee") or "?"
                csym = ("call", name, tuple(sy.operand(a) for a in t["args"]), t.get("callee"))
                v = self.cb(csym)
                env2 = dict(env)
                env2[dest["l"]] = v if v else ("T", "T")
                if t.get("target") is not None:
                    out.append((t["target"], K, env2))
            elif t.get("target") is not None:
                out.append((t["target"], K, env))
            if isinstance(t.get("unwind"), int):
                out.append((t["unwind"], K, env))
            return out
        for n in body.succ(b, True):
            out.append((n, K, env))
        return out

    def _cls(self, subj, variant, depth=0):
        """What taking the `variant` edge of a match on `subj` says about P."""
        subj = strip_sym(subj)
        if not isinstance(subj, tuple) or not subj or depth > 6:
            return None
        if subj[0] == "phi":
            out = "B"
            for alt in subj[1]:
                c = self._cls(alt, variant, depth + 1)
                out = self._join(out, c if c is not None else "T")
            return out
        if subj[0] == "agg" and subj[2] is not None and isinstance(variant, str):
            return "T" if subj[2] == variant else "B"  # a literal Some(..)/None/Ok(..)/Err(..)
        if subj[0] == "call" and variant in ("Continue", "Break") and any(isinstance(n, str) and (path_is(n, "Try::branch") or n.endswith("::branch")) for n in (subj[1], subj[3])) and subj[2]:
            # the `?` operator: Continue <=> Some/Ok, Break <=> None/Err of the operand
            for v in (("Some", "Ok") if variant == "Continue" else ("None", "Err")):
                c = self._cls(subj[2][0], v, depth + 1)
                if c is not None:
                    return c
            return None
        if subj[0] == "call" and isinstance(subj[1], str) and variant in ("Some", "None"):
            if path_is(subj[1], "bool::then_some") or path_is(subj[1], "bool::then"):
                w = self.cb(strip_sym(subj[2][0]))
                if w:
                    return w[0] if variant == "Some" else w[1]
            # Option combinators that keep Some-ness: x.map(..), x.filter is not one of them
            if path_is(subj[1], "Option<T>::map") or path_is(subj[1], "Option<T>::as_ref") or path_is(subj[1], "Option<T>::as_mut") or path_is(subj[1], "Result<T, E>::ok"):
                inner_variant = variant if not path_is(subj[1], "Result<T, E>::ok") else {"Some": "Ok", "None": "Err"}[variant]
                return self._cls(subj[2][0], inner_variant, depth + 1)
        return self.cs(subj, variant)

    def _bool_rv(self, rv, env, K):
        k = rv["k"]
        if k == "use":
            a = rv["a"]
            if "const" in a and "bool" in a["const"]:
                return (K, "B") if a["const"]["bool"] else ("B", K)
            p = a.get("copy") or a.get("move")
            if p is not None and not p.get("pr") and p["l"] in env:
                return env[p["l"]]
        elif k == "un" and rv.get("op") == "Not":
            p = rv["a"].get("copy") or rv["a"].get("move")
            if p is not None and not p.get("pr") and p["l"] in env:
                wt, wf = env[p["l"]]
                return (wf, wt)
        v = self.cb(self.sy.rvalue(rv, 0, frozenset()))
        return v if v else ("T", "T")

    def at(self, bb):
        return self.K[bb]

    def bool_value(self, bb, local):
        """(when_true, when_false) of a bool local at the end of block bb (None if nothing is known)."""
        if self.K[bb] == "B":
            return None
        env = dict(self.env_in[bb] or {})
        for st in self.body.blocks[bb]["s"]:
            if st["k"] == "assign" and not st["p"].get("pr") and self._is_bool(st["p"]["l"]):
                env[st["p"]["l"]] = self._bool_rv(st["rv"], env, self.K[bb])
        return env.get(local)

    def returned_bool_agrees(self):
        """Every assignment of the (bool) return place says `true` exactly when P holds: literal true only under P,
        literal false only under not-P, or a bool that is true iff P.  Returns (ok, detail)."""
        b = self.body
        n = 0
        for i, k, st in b.stmts():
            if st["k"] != "assign" or st["p"]["l"] != 0 or st["p"].get("pr") or self.K[i] == "B":
                continue
            n += 1
            v = self._bool_rv(st["rv"], dict(self._env_at(i, k)), self.K[i])
            if v not in (("P", "N"), ("P", "B"), ("B", "N")):
                return False, f"the result assigned in bb{i} is true under {v[0]} / false under {v[1]}"
        return n > 0, f"{n} result assignments"

    def _env_at(self, bb, idx):
        env = dict(self.env_in[bb] or {})
        for st in self.body.blocks[bb]["s"][:idx]:
            if st["k"] == "assign" and not st["p"].get("pr") and self._is_bool(st["p"]["l"]):
                env[st["p"]["l"]] = self._bool_rv(st["rv"], env, self.K[bb])
        return env


class SpecialisedFn(Fn):
    """fn under the assumption that its enum-typed parameter `param` (1-based MIR local) is the variant `variant`: every
    switch on that parameter's discriminant keeps only the arm taken, so the symbolic result is the straight-line value the
    function computes for that variant — however the dispatch is spelled (one match, a helper's match spliced in, ...)."""

    def __init__(self, fn, param, variant):
        self.crate = fn.crate
        self.j = dict(fn.j)
        self.path = fn.path
        self.dk = fn.dk
        self.name = fn.name
        self.children = list(fn.children)
        self.parent = fn.parent
        self.inlined = getattr(fn, "inlined", ())
        b = fn.body
        sy = Sym(fn)
        new_blocks = list(b.blocks)
        self.resolved_switches = 0
        for i in sorted(b.live_blocks()):
            t = b.blocks[i].get("t") or {}
            if t.get("k") != "switch" or not t.get("enum"):
                continue
            try:
                d = strip_sym(sy.operand(t["discr"]))
            except RecursionError:
                continue
            if d and d[0] == "discr":
                d = strip_sym(d[1])
            while isinstance(d, tuple) and d and d[0] in ("ref", "deref"):
                d = strip_sym(d[1])
            if not (isinstance(d, tuple) and d and d[0] == "arg" and d[1] == param - 1):
                continue
            hit = [a["bb"] for a in t["arms"] if a.get("variant") == variant]
            tgt = hit[0] if hit else (t["otherwise"] if variant in (t.get("all_variants") or []) else None)
            if tgt is not None:
                new_blocks[i] = dict(b.blocks[i], t={"k": "goto", "target": tgt, "ln": t.get("ln"), "pruned_switch": True})
                self.resolved_switches += 1
        mir = dict(fn.j["mir"] if "mir" in fn.j else b.m, blocks=new_blocks)
        self.j["mir"] = mir
        self._body = Body(self, mir)


class _PromotedFn:
    """Minimal Fn look-alike for a promoted MIR body."""

    def __init__(self, owner, mir, idx):
        self.crate = owner.crate
        self.j = {"path": f"{owner.path}::promoted[{idx}]", "dk": "Promoted", "mir": mir}
        self.path = self.j["path"]
        self.dk = "Promoted"
        self.name = ""
        self.children = []
        self.parent = None
        self.body = Body(self, mir)
        self.file = owner.file
        self.line = owner.line


def contains_cycle(s):
    if isinstance(s, tuple):
        if s and s[0] == "cycle":
            return True
        return any(contains_cycle(x) for x in s)
    return False


def ref(s):
    if s[0] == "deref":
        return s[1]
    return ("ref", s)


def deref(s):
    if s[0] == "ref":
        return s[1]
    return ("deref", s)


def strip_sym(s):
    """Remove value-preserving wrappers: ref/deref, pointer casts, phi of identical, capture nodes."""
    while isinstance(s, tuple) and s:
        if s[0] in ("ref", "deref"):
            s = s[1]
        elif s[0] == "cast" and (s[3].startswith("PointerCoercion") or s[3] in ("PtrToPtr", "Subtype")):
            s = s[1]
        elif s[0] == "capture":
            s = s[2]
        elif s[0] == "field" and len(s) >= 3 and isinstance(s[2], str) and s[2].isdigit() and isinstance(s[1], tuple) and s[1] and s[1][0] == "downcast":
            # the payload of a variant of a value that is known to be built as enum literals (`match helper() { Some(i) => .. }`
            # with the helper spliced in): the payload of the one literal of that variant
            v = _variant_payload(s)
            if v is None:
                break
            s = v
        else:
            break
    return s


def _variant_payload(s):
    inner = s[1]
    variant = inner[2] if len(inner) > 2 else None
    y = inner[1]
    for _ in range(4):
        if isinstance(y, tuple) and y and y[0] in ("ref", "deref"):
            y = y[1]
    if not (isinstance(y, tuple) and y):
        return None
    alts = list(y[1]) if y[0] == "phi" else [y]
    flat = []
    for a in alts:
        for _ in range(4):
            if isinstance(a, tuple) and a and a[0] in ("ref", "deref"):
                a = a[1]
        flat.append(a)
    if not flat or not all(isinstance(a, tuple) and a and a[0] == "agg" and len(a) > 3 and a[2] for a in flat):
        return None
    mine = [a for a in flat if a[2] == variant]
    idx = int(s[2])
    if len(mine) == 1 and idx < len(mine[0][3]):
        return mine[0][3][idx]
    return None


def sym_walk(s):
    if isinstance(s, tuple):
        yield s
        for x in s:
            if isinstance(x, tuple):
                yield from sym_walk(x)


def sym_calls(s):
    """All ('call', name, args, callee) nodes inside s."""
    return [x for x in sym_walk(s) if x and x[0] == "call"]


def sym_is_call(s, *suffixes):
    s = strip_sym(s)
    if not (isinstance(s, tuple) and s and s[0] == "call"):
        return False
    names = [n for n in (s[1], s[3]) if isinstance(n, str)]
    return any(path_is(n, suf) for n in names for suf in suffixes)


def sym_arg(s):
    """If s is (modulo refs) a function parameter returns (index, name)."""
    s = strip_sym(s)
    if isinstance(s, tuple) and s and s[0] == "arg":
        return s[1], s[2]
    return None


def sym_through(s, *suffixes):
    """Strip refs and calls to the given transformer functions (taking their first argument)."""
    while True:
        s = strip_sym(s)
        if isinstance(s, tuple) and s and s[0] == "call" and sym_is_call(s, *suffixes) and s[2]:
            s = s[2][0]
            continue
        return s


def sym_str(s, depth=0):
    if not isinstance(s, tuple) or not s:
        return repr(s)
    if depth > 8:
        return "…"
    h = s[0]
    if h == "arg":
        return f"param#{s[1]}({s[2]})"
    if h == "const":
        return f"{s[1]}:{s[2]!r}" if len(s) > 2 else "const"
    if h == "call":
        n = s[1] if isinstance(s[1], str) else "indirect"
        return f"{strip_generics(n).split('::')[-1]}({', '.join(sym_str(a, depth + 1) for a in s[2])})"
    if h in ("ref", "deref"):
        return ("&" if h == "ref" else "*") + sym_str(s[1], depth + 1)
    if h == "field":
        return f"{sym_str(s[1], depth + 1)}.{s[2]}"
    if h == "bin":
        return f"{s[1]}({sym_str(s[2], depth + 1)}, {sym_str(s[3], depth + 1)})"
    if h == "un":
        return f"{s[1]}({sym_str(s[2], depth + 1)})"
    if h == "agg":
        return f"{(s[5] or s[1]).split('::')[-1]}{('::' + s[2]) if s[2] else ''}({', '.join(sym_str(a, depth + 1) for a in s[3])})"
    if h == "capture":
        return f"cap{s[1]}[{sym_str(s[2], depth + 1)}]"
    if h == "cast":
        return f"({sym_str(s[1], depth + 1)} as {s[2]})"
    if h == "phi":
        return "phi(" + " | ".join(sym_str(a, depth + 1) for a in s[1]) + ")"
    if h == "downcast":
        return f"{sym_str(s[1], depth + 1)}@{s[2]}"
    if h == "discr":
        return f"discr({sym_str(s[1], depth + 1)})"
    if h == "index":
        return f"{sym_str(s[1], depth + 1)}[{sym_str(s[2], depth + 1)}]"
    return str(s[:2])


# --------------------------------------------------------------------------------------------
# MIR inliner: the rules see the program *after* splicing every non-exported, non-trait helper function that the
# rule set does not name into its callers.  "Extract a private helper", "inline a private helper" and "rename a
# private helper the rules never mention" are therefore invisible to the rules.
# --------------------------------------------------------------------------------------------
def _shift_place(p, loff):
    q = dict(p)
    q["l"] = p["l"] + loff
    pr = p.get("pr")
    if pr:
        npr = []
        for e in pr:
            if isinstance(e, dict) and "idx" in e:
                e = dict(e)
                e["idx"] = e["idx"] + loff
            npr.append(e)
        q["pr"] = npr
    return q


def _shift_op(o, loff):
    if "copy" in o:
        return dict(o, copy=_shift_place(o["copy"], loff))
    if "move" in o:
        return dict(o, move=_shift_place(o["move"], loff))
    return o


def _shift_rv(rv, loff):
    rv = dict(rv)
    for k in ("a", "b"):
        if isinstance(rv.get(k), dict):
            rv[k] = _shift_op(rv[k], loff)
    if isinstance(rv.get("p"), dict):
        rv["p"] = _shift_place(rv["p"], loff)
    if "ops" in rv:
        rv["ops"] = [_shift_op(o, loff) for o in rv["ops"]]
    return rv


def inline_mir(crate, fn, depth=4, max_blocks=3000):
    """Returns (mir, [raw closure Fns of inlined callees], [paths inlined]) for raw function `fn`."""
    m = fn.j["mir"]
    locals_ = list(m["locals"])
    blocks = [b for b in m["blocks"]]
    extra_children = []
    inlined = []
    work = [(i, (fn.path,), 0) for i in range(len(blocks))]
    while work:
        bi, stack, d = work.pop()
        if len(blocks) > max_blocks:
            break
        b = blocks[bi]
        t = b.get("t")
        if not t or t.get("k") != "call" or d >= depth or "callee" not in t:
            continue
        if t.get("rkind") not in (None, "item"):
            continue
        cal = crate.raw_by_path.get(t.get("resolved") or "") or crate.raw_by_path.get(t.get("callee") or "")
        if cal is None or cal.path in stack or not crate._should_inline(cal):
            continue
        cm = cal.j.get("mir")
        if not cm or len(cm["blocks"]) > 600 or cm["argc"] != len(t["args"]):
            continue
        loff = len(locals_)
        landing = len(blocks)
        boff = landing + 1
        locals_.extend(cm["locals"])
        ln = {"ln": t.get("ln"), "exp": t.get("exp")}
        land_stmts = [dict(ln, k="assign", p=t["dest"], rv={"k": "use", "a": {"move": {"l": loff}}}, inl_ret=cal.path)]
        if t.get("target") is not None:
            land_term = dict(ln, k="goto", target=t["target"])
        else:
            land_term = dict(ln, k="unreachable")
        blocks.append({"s": land_stmts, "t": land_term, "cleanup": b.get("cleanup")})
        cu = t.get("unwind")
        closure_names = {}
        for cb in cm["blocks"]:
            ns = []
            for s in cb["s"]:
                s2 = dict(s)
                if s["k"] == "assign":
                    s2["p"] = _shift_place(s["p"], loff)
                    s2["rv"] = _shift_rv(s["rv"], loff)
                    if s2["rv"].get("closure"):
                        # one copy of the callee's closure per splice, so captures resolve through *this* caller
                        nm = f"{s2['rv']['closure']}@{fn.path}#{len(inlined)}"
                        closure_names[s2["rv"]["closure"]] = nm
                        s2["rv"]["closure"] = nm
                elif s["k"] == "setdiscr":
                    s2["p"] = _shift_place(s["p"], loff)
                elif s["k"] in ("live", "dead"):
                    s2["l"] = s["l"] + loff
                ns.append(s2)
            ct = cb.get("t") or {"k": "none"}
            k = ct.get("k")
            if k == "return":
                nt = {"k": "goto", "target": landing, "ln": ct.get("ln"), "inl_return": True}
            elif k == "resume":
                nt = {"k": "goto", "target": cu, "ln": ct.get("ln")} if isinstance(cu, int) else dict(ct)
            else:
                nt = dict(ct)
                for key in ("target", "otherwise", "drop"):
                    if isinstance(nt.get(key), int):
                        nt[key] = nt[key] + boff
                if isinstance(nt.get("unwind"), int):
                    nt["unwind"] = nt["unwind"] + boff
                elif nt.get("unwind") == "continue" and isinstance(cu, int):
                    nt["unwind"] = cu
                if "arms" in nt:
                    nt["arms"] = [dict(a, bb=a["bb"] + boff) for a in nt["arms"]]
                for key in ("discr", "cond", "callee_op"):
                    if isinstance(nt.get(key), dict):
                        nt[key] = _shift_op(nt[key], loff)
                if "args" in nt:
                    nt["args"] = [_shift_op(o, loff) for o in nt["args"]]
                for key in ("dest", "p"):
                    if isinstance(nt.get(key), dict):
                        nt[key] = _shift_place(nt[key], loff)
            blocks.append({"s": ns, "t": nt, "cleanup": cb.get("cleanup") or b.get("cleanup")})
        new_stmts = list(b["s"])
        for i, a in enumerate(t["args"]):
            new_stmts.append(dict(ln, k="assign", p={"l": loff + 1 + i}, rv={"k": "use", "a": a}, inl_arg=cal.path))
        blocks[bi] = {"s": new_stmts, "t": dict(ln, k="goto", target=boff, inl_call=cal.path), "cleanup": b.get("cleanup")}
        inlined.append(cal.path)
        extra_children.extend((ch, closure_names.get(ch.path, ch.path)) for ch in cal.children)
        for j in range(boff, len(blocks)):
            work.append((j, stack + (cal.path,), d + 1))
    mir = {"argc": m["argc"], "locals": locals_, "blocks": blocks}
    return mir, extra_children, inlined


class InlinedFn(Fn):
    """View of a function in the program obtained by splicing helper functions into their callers."""

    def __init__(self, base, parent=None, path=None):
        crate = base.crate
        c = crate._mir_cache
        if base.path not in c:
            c[base.path] = inline_mir(crate, base)
        mir, extra, inlined = c[base.path]
        self.crate = crate
        self.j = dict(base.j)
        self.j["mir"] = mir
        self.path = path or base.path
        self.j["path"] = self.path
        self.dk = base.dk
        self.name = base.name
        self.parent = parent
        self._body = None
        self.base = base
        self.inlined = inlined
        self.children = [InlinedFn(ch, self) for ch in base.children] + [InlinedFn(ch, self, nm) for ch, nm in extra]

    @property
    def body(self):
        if self._body is None:
            self._body = Body(self, self.j["mir"])
            self._devirtualise()
            for _round in range(3):
                if not self._resolve_closure_calls():
                    break
            self._prune_constant_switches()
        return self._body

    def _prune_constant_switches(self):
        """A `match` on a value that is a compile-time constant after splicing (a helper dispatching on the kind it is
        called with) keeps only the arm that is taken."""
        b = self._body
        sy = Sym(self)
        new_blocks = None
        for i, blk in enumerate(b.blocks):
            t = blk.get("t") or {}
            if t.get("k") != "switch" or i not in b.live_blocks():
                continue
            try:
                d = strip_sym(sy.operand(t["discr"]))
            except RecursionError:
                continue
            if d and d[0] == "discr":
                d = strip_sym(d[1])
            tgt = None
            if isinstance(d, tuple) and d and d[0] == "agg" and d[2] is not None and t.get("enum"):
                d = ("const", "variant", d[2])  # a variant built right here (payload irrelevant for the discriminant)
            if isinstance(d, tuple) and d[:2] == ("const", "variant"):
                hit = [a["bb"] for a in t["arms"] if a.get("variant") == d[2]]
                if hit:
                    tgt = hit[0]
                elif t.get("all_variants") and d[2] in t["all_variants"]:
                    tgt = t["otherwise"]
            elif isinstance(d, tuple) and d[:2] == ("const", "bool") and t.get("dty") == "bool":
                v = 1 if d[2] else 0
                hit = [a["bb"] for a in t["arms"] if a["v"] == v]
                tgt = hit[0] if hit else t["otherwise"]
            if tgt is not None:
                if new_blocks is None:
                    new_blocks = list(b.blocks)
                new_blocks[i] = dict(blk, t={"k": "goto", "target": tgt, "ln": t.get("ln"), "pruned_switch": True})
        if new_blocks is not None:
            mir = dict(self.j["mir"], blocks=new_blocks)
            self.j["mir"] = mir
            self._body = Body(self, mir)

    def region(self):
        self.body  # resolving closure calls may remove closures from the region
        if self.parent is None and not getattr(self, "_region_pruned", False):
            self._region_pruned = True
            members = Fn.region(self)
            for m_ in members:
                m_.body
            members = Fn.region(self)
            spliced, used = set(), set()

            def direct(v):
                v = strip_sym(v)
                if not isinstance(v, tuple) or not v:
                    return
                if v[0] == "agg" and v[1] == "closure":
                    yield v[5]
                elif v[0] == "agg" and v[1] == "tuple":
                    for o in v[3]:
                        yield from direct(o)
                elif v[0] == "phi":
                    for o in v[1]:
                        yield from direct(o)

            for m_ in members:
                sy = Sym(m_)
                for blk in m_.body.blocks:
                    t = blk.get("t") or {}
                    if t.get("inl_call"):
                        spliced.add(t["inl_call"])
                    if t.get("k") == "call":
                        for a in t.get("args", []):
                            try:
                                used.update(direct(sy.operand(a)))
                            except RecursionError:
                                pass
            dead = spliced - used

            def prune(f_):
                kept = []
                for c in f_.children:
                    if c.path in dead:
                        # the closures created inside a spliced closure now belong to the body it was spliced into
                        for g_ in c.children:
                            g_.parent = f_
                            kept.append(g_)
                    else:
                        kept.append(c)
                f_.children = kept
                for c in f_.children:
                    prune(c)

            if dead:
                prune(self)
            # a private function handed to a higher-order function as a value (`opt.map(helper)`) runs as part of this
            # function just as the closure `|x| helper(x)` would: it joins the region
            raw = getattr(self.crate, "raw_by_path", None) or {}
            have = {m_.path for m_ in Fn.region(self)}
            depth = getattr(self, "_fnitem_depth", 0)
            if depth < 2:
                for m_ in list(Fn.region(self)):
                    for blk in m_.body.blocks:
                        t = blk.get("t") or {}
                        if t.get("k") != "call":
                            continue
                        for a in t.get("args", []):
                            fp = (a.get("const") or {}).get("fn") if isinstance(a, dict) else None
                            base = raw.get(fp) if fp else None
                            if base is None or fp in have or fp == self.path or not self.crate._should_inline(base):
                                continue
                            ch = InlinedFn(base, m_)
                            ch._fnitem_depth = depth + 1
                            ch.as_value = True
                            m_.children.append(ch)
                            have.add(fp)
        return Fn.region(self)

    def _resolve_closure_calls(self):
        """`f(x)` through Fn/FnMut/FnOnce::call* where `f` is (after splicing) a function item or a closure literal
        created in this very body: function items become direct calls, closure literals are spliced in.  A private
        generic helper taking `impl Fn(..)` arguments is thereby as transparent as one taking values."""
        b = self._body
        cand = [i for i, blk in enumerate(b.blocks) if (blk.get("t") or {}).get("k") == "call" and str(blk["t"].get("callee") or "").endswith(("Fn::call", "FnMut::call_mut", "FnOnce::call_once")) and len(blk["t"].get("args", [])) == 2 and not blk["t"].get("closure_resolved")]
        if not cand:
            return False
        sy = Sym(self)
        crate = self.crate
        blocks = list(b.blocks)
        locals_ = list(b.locals)
        changed = False
        my_closures = {c.path: c for c in self.children}
        for i in cand:
            t = blocks[i]["t"]
            try:
                f = strip_sym(sy.operand(t["args"][0]))
            except RecursionError:
                continue
            # the argument tuple built for the call
            tp = t["args"][1].get("move") or t["args"][1].get("copy")
            ops = None
            if tp is not None and not tp.get("pr"):
                for st in reversed(blocks[i]["s"]):
                    if st["k"] == "assign" and st["p"]["l"] == tp["l"] and not st["p"].get("pr") and st["rv"]["k"] == "agg" and st["rv"].get("agg") == "tuple":
                        ops = st["rv"]["ops"]
                        break
            if ops is None and "const" in t["args"][1]:
                ops = []
            if ops is None:
                continue
            if isinstance(f, tuple) and f[:2] == ("const", "fn"):
                blocks[i] = dict(blocks[i], t=dict(t, callee=f[2], resolved=f[2], rkind="item", args=list(ops), devirt=True, closure_resolved=True))
                t.pop("trait", None) if False else None
                blocks[i]["t"].pop("trait", None)
                blocks[i]["t"].pop("self_ty", None)
                changed = True
                continue
            if not (isinstance(f, tuple) and f and f[0] == "agg" and f[1] == "closure"):
                continue
            cf = my_closures.get(f[5]) or crate.by_path.get(f[5])
            cm = (cf.j.get("mir") if cf is not None else None)
            if not cm or len(cm["blocks"]) > 300 or len(blocks) > 3000:
                continue
            if cm["argc"] != 1 + len(ops):
                continue
            # bind: closure local 1 := the closure (by reference if the body wants a reference), locals 2.. := arguments
            loff = len(locals_)
            landing = len(blocks)
            boff = landing + 1
            locals_.extend(cm["locals"])
            ln = {"ln": t.get("ln"), "exp": t.get("exp")}
            self_op = t["args"][0]
            wants_ref = str(cm["locals"][1]["ty"]).startswith("&")
            sp = self_op.get("move") or self_op.get("copy")
            given_ref = sp is not None and str(locals_[sp["l"]]["ty"]).startswith("&") and not sp.get("pr")
            binds = []
            if wants_ref and not given_ref and sp is not None:
                binds.append(dict(ln, k="assign", p={"l": loff + 1}, rv={"k": "ref", "p": sp, "mut": False}, inl_arg=f[5]))
            else:
                binds.append(dict(ln, k="assign", p={"l": loff + 1}, rv={"k": "use", "a": self_op}, inl_arg=f[5]))
            for k_, o in enumerate(ops):
                binds.append(dict(ln, k="assign", p={"l": loff + 2 + k_}, rv={"k": "use", "a": o}, inl_arg=f[5]))
            land_stmts = [dict(ln, k="assign", p=t["dest"], rv={"k": "use", "a": {"move": {"l": loff}}}, inl_ret=f[5])]
            land_term = dict(ln, k="goto", target=t["target"]) if t.get("target") is not None else dict(ln, k="unreachable")
            blocks.append({"s": land_stmts, "t": land_term, "cleanup": blocks[i].get("cleanup")})
            cu = t.get("unwind")
            for cb in cm["blocks"]:
                ns = []
                for st in cb["s"]:
                    s2 = dict(st)
                    if st["k"] == "assign":
                        s2["p"] = _shift_place(st["p"], loff)
                        s2["rv"] = _shift_rv(st["rv"], loff)
                    elif st["k"] == "setdiscr":
                        s2["p"] = _shift_place(st["p"], loff)
                    elif st["k"] in ("live", "dead"):
                        s2["l"] = st["l"] + loff
                    ns.append(s2)
                ct = cb.get("t") or {"k": "none"}
                k = ct.get("k")
                if k == "return":
                    nt = {"k": "goto", "target": landing, "ln": ct.get("ln"), "inl_return": True}
                elif k == "resume":
                    nt = {"k": "goto", "target": cu, "ln": ct.get("ln")} if isinstance(cu, int) else dict(ct)
                else:
                    nt = dict(ct)
                    for key in ("target", "otherwise", "drop"):
                        if isinstance(nt.get(key), int):
                            nt[key] = nt[key] + boff
                    if isinstance(nt.get("unwind"), int):
                        nt["unwind"] = nt["unwind"] + boff
                    elif nt.get("unwind") == "continue" and isinstance(cu, int):
                        nt["unwind"] = cu
                    if "arms" in nt:
                        nt["arms"] = [dict(a, bb=a["bb"] + boff) for a in nt["arms"]]
                    for key in ("discr", "cond", "callee_op"):
                        if isinstance(nt.get(key), dict):
                            nt[key] = _shift_op(nt[key], loff)
                    if "args" in nt:
                        nt["args"] = [_shift_op(o, loff) for o in nt["args"]]
                    for key in ("dest", "p"):
                        if isinstance(nt.get(key), dict):
                            nt[key] = _shift_place(nt[key], loff)
                blocks.append({"s": ns, "t": nt, "cleanup": cb.get("cleanup") or blocks[i].get("cleanup")})
            blocks[i] = {"s": list(blocks[i]["s"]) + binds, "t": dict(ln, k="goto", target=boff, inl_call=f[5]), "cleanup": blocks[i].get("cleanup")}
            changed = True
        if changed:
            mir = dict(self.j["mir"], blocks=blocks, locals=locals_)
            self.j["mir"] = mir
            self._body = Body(self, mir)
            # closures whose every use was a spliced call are no longer part of the region
            sy2 = Sym(self)
            still_used = set()
            for blk in blocks:
                t = blk.get("t") or {}
                if t.get("k") == "call":
                    for a in t.get("args", []):
                        try:
                            v = strip_sym(sy2.operand(a))
                        except RecursionError:
                            continue
                        for x in sym_walk(v):
                            if isinstance(x, tuple) and x and x[0] == "agg" and x[1] == "closure":
                                still_used.add(x[5])
            spliced = {blk["t"].get("inl_call") for blk in blocks if (blk.get("t") or {}).get("inl_call")}
            kept_ = []
            for c in self.children:
                if c.path in spliced and c.path not in still_used:
                    for g_ in c.children:
                        g_.parent = self
                        kept_.append(g_)
                else:
                    kept_.append(c)
            self.children = kept_
        return changed

    def _devirtualise(self):
        """Calls through a function pointer whose value is a known function item (passed down from the caller of a
        spliced helper, possibly through a closure capture) become direct calls of that function."""
        b = self._body
        todo = [i for i, blk in enumerate(b.blocks) if (blk.get("t") or {}).get("k") == "call" and "callee" not in blk["t"] and "callee_op" in blk["t"]]
        if not todo:
            return
        sy = Sym(self)
        new_blocks = None
        for i in todo:
            t = b.blocks[i]["t"]
            try:
                s_ = strip_sym(sy.operand(t["callee_op"]))
            except RecursionError:
                continue
            if isinstance(s_, tuple) and s_[:2] == ("const", "fn"):
                if new_blocks is None:
                    new_blocks = list(b.blocks)
                new_blocks[i] = dict(b.blocks[i], t=dict(t, callee=s_[2], resolved=s_[2], rkind="item", devirt=True))
        if new_blocks is not None:
            mir = dict(self.j["mir"], blocks=new_blocks)
            tmp = Body(self, mir)
            live = tmp.live_blocks()
            # arms that can no longer be taken are emptied, so that scans over all blocks do not see them
            mir["blocks"] = [blk if i in live else {"s": [], "t": {"k": "unreachable"}, "cleanup": blk.get("cleanup"), "dead": True} for i, blk in enumerate(new_blocks)]
            self.j["mir"] = mir
            self._body = Body(self, mir)
