"""Obligation bookkeeping, known-finding matching, evidence and violation reports."""
import json
import os
import time
from pathlib import Path

VERIF = Path(__file__).resolve().parents[2]
EVID = Path(os.environ["VERIF_EVIDENCE_DIR"]) if os.environ.get("VERIF_EVIDENCE_DIR") else VERIF / "evidence"
KNOWN = VERIF / "known_findings.json"


class Ob:
    __slots__ = ("rule", "where", "ok", "detail", "loc", "kind", "nontrivial", "extra")

    def __init__(self, rule, where, ok, detail, loc, kind, nontrivial, extra):
        self.rule, self.where, self.ok, self.detail, self.loc = rule, where, ok, detail, loc
        self.kind, self.nontrivial, self.extra = kind, nontrivial, extra

    @property
    def key(self):
        return f"{self.rule} @ {self.where}"

    def as_json(self):
        d = {"rule": self.rule, "instance": self.where, "decision": "holds" if self.ok else self.kind, "detail": self.detail, "at": self.loc}
        if self.extra:
            d.update(self.extra)
        return d


class Check:
    """One run of one property's rule set."""

    def __init__(self, prop, tier="quick", title=""):
        self.prop = prop
        self.tier = tier
        self.title = title
        self.obs = []
        self.t0 = time.time()
        self.assumptions = []
        self.residue = []
        self.analysed = {}
        self.rules = {}
        self.floors = {}
        self.trusted = set()
        self.configs = ["default"]
        self.witness = {}
        self.notes = []

    # -- declaring rules (id -> text) so evidence can print the rule applied
    def rule(self, rid, text, floor=None):
        self.rules[rid] = text
        if floor is not None:
            self.floors[rid] = floor

    def ob(self, rule, where, ok, detail="", loc="", nontrivial=True, **extra):
        self.obs.append(Ob(rule, where, bool(ok), detail, loc, "violation", nontrivial, extra))
        return bool(ok)

    def unrecognised(self, rule, where, detail="", loc=""):
        """Fail closed: anchor missing or construct not understood."""
        self.obs.append(Ob(rule, where, False, detail, loc, "unrecognised-construct", True, {}))
        return False

    def trust(self, *names):
        self.trusted.update(names)

    def count(self, rule):
        return sum(1 for o in self.obs if o.rule == rule)

    # -- finishing
    def finish(self, meta=None, replay_only=None):
        known = load_known()
        open_known = {k["key"]: k for k in known if k.get("status") == "open" and k.get("property") == self.prop}
        # floors: fail closed if a rule matched fewer instances than counted by hand
        for rid, floor in self.floors.items():
            n = self.count(rid)
            if n < floor:
                self.unrecognised(rid, f"<floor> expected >= {floor} instances, found {n}", "instance count below the floor confirmed by hand: anchors missing or renamed beyond recognition")
        for rid in self.rules:
            if self.count(rid) == 0 and rid not in self.floors:
                self.unrecognised(rid, "<floor> rule matched no instance", "a rule that matches nothing never passes vacuously")
        violations, known_hits = [], []
        seen = set()
        for o in self.obs:
            if o.ok:
                continue
            if o.key in seen:
                continue
            seen.add(o.key)
            if o.key in open_known:
                known_hits.append(o)
            else:
                violations.append(o)
        wall = round(time.time() - self.t0, 3)
        distinct = {o.key for o in self.obs if o.nontrivial}
        samples = []
        per_rule_seen = {}
        for o in self.obs:
            c = per_rule_seen.get(o.rule, 0)
            if c < 2:
                samples.append(o.as_json())
                per_rule_seen[o.rule] = c + 1
        by_rule = {}
        for o in self.obs:
            r = by_rule.setdefault(o.rule, {"instances": 0, "holds": 0})
            r["instances"] += 1
            r["holds"] += 1 if o.ok else 0
        ev = {
            "property_id": self.prop,
            "tier": self.tier,
            "seed": int(os.environ.get("VERIF_SEED", "0") or 0),
            "level": "other",
            "coverage": {
                "explanation": (
                    f"{self.title} Static structural obligations decided over the type-checked program "
                    "(drop-elaborated MIR CFG with resolved callees + typed HIR tree exported by a rustc_private driver from /repo's "
                    "current working tree; compile-fail/compile-pass witnesses compiled against the same build). Each obligation is one "
                    "rule instance (function, call site, match arm, field) decided on every path of the function region it names. "
                    "Decides the clauses listed under rules; the residue is listed under not_decided."
                ),
                "obligations": len(self.obs),
                "discharged": sum(1 for o in self.obs if o.ok),
                "evaluations": len(self.obs),
                "distinct_nontrivial": len(distinct),
                "rule": "one evaluation = one rule instance found in the current tree; distinct = distinct rule-id@instance keys; "
                "non-trivial = the instance required a path / provenance / table decision (existence-only anchors are flagged trivial)",
                "samples": samples,
                "exhaustive": True,
                "rules": self.rules,
                "per_rule": by_rule,
                "floors": self.floors,
                "analysed": self.analysed,
                "configurations": self.configs,
                "witnesses": self.witness,
                "trusted_base": sorted(self.trusted),
                "not_decided": self.residue,
                "known_findings_matched": [o.key for o in known_hits],
                "violations_reported": [o.as_json() for o in violations],
                "checker_cmd": f"./check {self.prop} --tier {self.tier}",
                "notes": self.notes,
            },
            "assumptions": self.assumptions + [f"trusted external callee: {t}" for t in sorted(self.trusted)][:40],
            "wall_s": wall,
            "violations": len(violations),
        }
        if meta:
            ev["coverage"]["tree_digest"] = meta.get("digest")
            ev["coverage"]["rustc"] = meta.get("rustc")
            ev["coverage"]["extract_wall_s"] = meta.get("extract_wall_s")
        EVID.mkdir(exist_ok=True)
        (EVID / f"{self.prop}.json").write_text(json.dumps(ev, indent=1))
        lines = []
        for o in known_hits:
            lines.append(f"KNOWN-FINDING: property={self.prop} {o.key} :: {open_known[o.key].get('what', o.detail)}")
        rc = 0
        if violations:
            vdir = EVID / "violations"
            vdir.mkdir(exist_ok=True)
            for i, o in enumerate(violations):
                path = vdir / f"{self.prop}-{i}.json"
                path.write_text(json.dumps({"property": self.prop, "key": o.key, **o.as_json()}, indent=1))
                lines.append(f"  {o.kind}: {o.key}\n      at {o.loc}: {o.detail}")
                lines.append(f"VIOLATION property={self.prop} replay={path}")
            rc = 1
        summary = f"[{self.prop}] {len(self.obs)} obligations, {sum(1 for o in self.obs if o.ok)} hold, {len(known_hits)} known finding(s), {len(violations)} violation(s), {wall}s"
        return rc, lines, summary


def load_known():
    if not KNOWN.exists():
        return []
    return json.loads(KNOWN.read_text()).get("findings", [])
