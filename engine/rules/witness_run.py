"""Compile the type-level witnesses (compile-fail / compile-pass twins) and the expansion witnesses.

Every witness is compiled by invoking nightly rustc directly against the rmeta files produced by the
same cargo-check run that produced the facts, i.e. against /repo's *current* sources.
Header directives (comment lines at the top of the file):
    //@ prop: C01            property served
    //@ expect: E0597        error code that MUST be reported (compile-fail), or `pass`
    //@ extern: metrics metrics_util
    //@ twin: other_name     the compiling twin (for compile-fail witnesses)
    //@ kind: tf | x         tf = type-level witness, x = expansion witness (analysed by vdrv)
"""
import json
import os
import subprocess
from concurrent.futures import ThreadPoolExecutor
from pathlib import Path

VERIF = Path(__file__).resolve().parents[2]
WITNESS = VERIF / "witness"
DRV = VERIF / "engine" / "vdrv" / "target" / "release" / "vdrv"


def parse_header(path: Path):
    h = {"prop": None, "expect": "pass", "extern": ["metrics"], "twin": None, "kind": "tf", "note": ""}
    for line in path.read_text().splitlines():
        if not line.startswith("//@"):
            if line.strip() == "" or line.startswith("//"):
                continue
            break
        k, _, v = line[3:].strip().partition(":")
        k = k.strip()
        v = v.strip()
        if k == "extern":
            h["extern"] = v.split()
        else:
            h[k] = v
    return h


def _compile(rustc, sysroot, artifacts, target_dir, outdir, path: Path, hdr, driver=False, facts_out=None):
    name = path.stem
    cmd = [str(DRV) if driver else rustc]
    cmd += [
        "--edition=2021",
        "--crate-type=lib",
        "--crate-name",
        name,
        "--emit=metadata",
        "--error-format=json",
        "-Awarnings",
        "-Zmir-opt-level=0",
        "-o",
        str(outdir / f"lib{name}.rmeta"),
        "-L",
        f"dependency={target_dir}/debug/deps",
    ]
    for e in hdr["extern"]:
        if e not in artifacts:
            return {"name": name, "error": f"no rmeta for extern crate {e}"}
        cmd += ["--extern", f"{e}={artifacts[e]}"]
    cmd.append(str(path))
    env = dict(os.environ)
    env["LD_LIBRARY_PATH"] = sysroot + "/lib"
    if driver:
        env["VDRV_OUT"] = str(facts_out)
    else:
        env.pop("VDRV_OUT", None)
    r = subprocess.run(cmd, env=env, capture_output=True, text=True)
    codes, msgs = [], []
    for line in r.stderr.splitlines():
        try:
            m = json.loads(line)
        except ValueError:
            continue
        if m.get("level") == "error":
            c = (m.get("code") or {}).get("code")
            if c:
                codes.append(c)
            msgs.append((m.get("message") or "")[:300])
    return {"name": name, "exit": r.returncode, "codes": codes, "messages": msgs[:6]}


def run_witnesses(rustc, sysroot, artifacts, target_dir, scratch: Path, facts_dir: Path, log):
    outdir = scratch / "w"
    outdir.mkdir(exist_ok=True)
    xout = scratch / "xfacts"
    xout.mkdir(exist_ok=True)
    jobs = []
    for p in sorted(WITNESS.glob("**/*.rs")):
        hdr = parse_header(p)
        jobs.append((p, hdr))
    results = {}

    def one(job):
        p, hdr = job
        is_x = hdr["kind"] == "x"
        r = _compile(rustc, sysroot, artifacts, target_dir, outdir, p, hdr, driver=is_x, facts_out=xout)
        r.update({"prop": hdr["prop"], "expect": hdr["expect"], "twin": hdr["twin"], "kind": hdr["kind"], "file": str(p.relative_to(VERIF)), "note": hdr.get("note", "")})
        return r

    with ThreadPoolExecutor(max_workers=12) as ex:
        for r in ex.map(one, jobs):
            results[r["name"]] = r
    # collect expansion facts
    for f in xout.glob("*.json"):
        crate = f.name.split(".")[0]
        (facts_dir / f"x_{crate}.json").write_bytes(f.read_bytes())
    return results
