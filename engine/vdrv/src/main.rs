//! vdrv — rustc_private fact exporter for the /verif static-analysis engine.
//!
//! Used as RUSTC_WORKSPACE_WRAPPER: argv[1] is the real rustc path (dropped). For every workspace
//! crate it writes ONE json file (single write) into $VDRV_OUT containing, per body, the
//! drop-elaborated MIR CFG and the typed HIR tree, plus item-level facts. No rule logic lives here.
#![feature(rustc_private)]
#![allow(clippy::all)]

extern crate rustc_abi;
extern crate rustc_ast;
extern crate rustc_driver;
extern crate rustc_hir;
extern crate rustc_index;
extern crate rustc_interface;
extern crate rustc_middle;
extern crate rustc_span;

mod hirx;
mod json;
mod mirx;

use json::J;
use rustc_driver::Compilation;
use rustc_hir as hir;
use rustc_hir::def::DefKind;
use rustc_hir::def_id::{DefId, LOCAL_CRATE};
use rustc_middle::ty::{self, GenericArgsRef, Ty, TyCtxt};
use rustc_span::Span;
use rustc_middle::ty::print::PrintTraitRefExt;

pub struct Cx<'tcx> {
    pub tcx: TyCtxt<'tcx>,
}

impl<'tcx> Cx<'tcx> {
    pub fn path(&self, did: DefId) -> String {
        self.tcx.def_path_str(did)
    }
    pub fn ty_str(&self, t: Ty<'tcx>) -> String {
        format!("{}", t)
    }
    /// (line of the span's start in its own file, expansion descriptor)
    pub fn span_info(&self, sp: Span) -> (usize, Option<String>) {
        let sm = self.tcx.sess.source_map();
        let exp = if sp.from_expansion() {
            let ed = sp.ctxt().outer_expn_data();
            Some(match ed.kind {
                rustc_span::ExpnKind::Macro(_, name) => {
                    let krate = ed
                        .macro_def_id
                        .map(|d| self.tcx.crate_name(d.krate).to_string())
                        .unwrap_or_default();
                    format!("macro:{}::{}", krate, name)
                }
                rustc_span::ExpnKind::Desugaring(d) => format!("desugar:{:?}", d),
                rustc_span::ExpnKind::AstPass(p) => format!("ast:{:?}", p),
                rustc_span::ExpnKind::Root => "root".to_string(),
            })
        } else {
            None
        };
        // report the outermost call site so that lines refer to the user's file
        let cs = sp.source_callsite();
        let line = if cs.is_dummy() { 0 } else { sm.lookup_char_pos(cs.lo()).line };
        (line, exp)
    }
    /// Names of all macros on the expansion backtrace of `sp`, innermost first ("panic_2015<debug_assert"), when there
    /// is more than one: lets rules tell a `debug_assert!` (compiled out without debug assertions) from a plain `assert!`.
    pub fn span_chain(&self, sp: Span) -> Option<String> {
        if !sp.from_expansion() {
            return None;
        }
        let names: Vec<String> = sp
            .macro_backtrace()
            .filter_map(|ed| match ed.kind {
                rustc_span::ExpnKind::Macro(_, name) => Some(name.to_string()),
                _ => None,
            })
            .collect();
        if names.len() > 1 {
            Some(names.join("<"))
        } else {
            None
        }
    }
    pub fn file_of(&self, sp: Span) -> String {
        let sm = self.tcx.sess.source_map();
        let cs = sp.source_callsite();
        if cs.is_dummy() {
            return String::new();
        }
        let f = sm.lookup_char_pos(cs.lo()).file;
        format!("{}", f.name.prefer_local_unconditionally())
    }
    pub fn resolve(&self, owner: DefId, did: DefId, args: GenericArgsRef<'tcx>) -> Option<String> {
        if !matches!(self.tcx.def_kind(did), DefKind::Fn | DefKind::AssocFn) {
            return None;
        }
        use rustc_middle::ty::TypeVisitableExt;
        if args.len() != self.tcx.generics_of(did).count() {
            return None;
        }
        if args.has_infer() || args.has_placeholders() || args.has_escaping_bound_vars() {
            return None;
        }
        let te = ty::TypingEnv::post_analysis(self.tcx, owner);
        let args = self.tcx.erase_and_anonymize_regions(args);
        match ty::Instance::try_resolve(self.tcx, te, did, args) {
            Ok(Some(inst)) => Some(self.path(inst.def_id())),
            _ => None,
        }
    }
}

fn docs_of<'tcx>(tcx: TyCtxt<'tcx>, did: DefId) -> J {
    let mut s = String::new();
    if let Some(ldid) = did.as_local() {
        let hid = tcx.local_def_id_to_hir_id(ldid);
        for a in tcx.hir_attrs(hid) {
            if let Some(d) = a.doc_str() {
                s.push_str(d.as_str());
                s.push('\n');
            }
        }
    }
    if s.is_empty() {
        J::Null
    } else {
        J::Str(s)
    }
}

fn has_attr_named<'tcx>(tcx: TyCtxt<'tcx>, did: DefId, name: &str) -> bool {
    if let Some(ldid) = did.as_local() {
        let hid = tcx.local_def_id_to_hir_id(ldid);
        for a in tcx.hir_attrs(hid) {
            let d = format!("{:?}", a);
            if d.contains(name) {
                return true;
            }
        }
    }
    false
}

fn export<'tcx>(tcx: TyCtxt<'tcx>) -> J {
    let cx = Cx { tcx };
    let krate = tcx.crate_name(LOCAL_CRATE).to_string();
    let mut fns = Vec::new();
    let mut n_bodies = 0usize;
    let mut n_calls = 0usize;

    for ldid in tcx.mir_keys(()) {
        let did = ldid.to_def_id();
        let dk = tcx.def_kind(did);
        let is_fnlike = matches!(dk, DefKind::Fn | DefKind::AssocFn | DefKind::Closure);
        let is_const = matches!(dk, DefKind::Static { .. } | DefKind::Const { .. } | DefKind::AssocConst { .. });
        if !is_fnlike && !is_const {
            continue;
        }
        let mut v: Vec<(&'static str, J)> = Vec::new();
        v.push(("path", J::s(cx.path(did))));
        v.push(("dk", J::s(format!("{:?}", dk).split(|c: char| !c.is_alphanumeric()).next().unwrap_or("").to_string())));
        let span = tcx.def_span(did);
        v.push(("file", J::s(cx.file_of(span))));
        let sm = tcx.sess.source_map();
        let full = tcx.hir_span_with_body(tcx.local_def_id_to_hir_id(*ldid));
        if !full.is_dummy() && !full.from_expansion() {
            v.push(("ln", J::Int(sm.lookup_char_pos(full.lo()).line as i128)));
            v.push(("ln_hi", J::Int(sm.lookup_char_pos(full.hi()).line as i128)));
        } else {
            let (l, e) = cx.span_info(span);
            v.push(("ln", J::Int(l as i128)));
            v.push(("exp", J::opt_s(e)));
        }
        // parentage
        let parent = tcx.parent(did);
        match tcx.def_kind(parent) {
            DefKind::Impl { of_trait } => {
                let self_ty = tcx.type_of(parent).instantiate_identity().skip_norm_wip();
                v.push(("impl_self", J::s(cx.ty_str(self_ty))));
                if of_trait {
                    let tr = tcx.impl_trait_ref(parent).instantiate_identity().skip_norm_wip();
                    v.push(("impl_trait", J::s(cx.path(tr.def_id))));
                    v.push(("impl_trait_ref", J::s(format!("{}", tr.print_only_trait_path()))));
                }
                v.push(("impl_path", J::s(cx.path(parent))));
                if has_attr_named(tcx, parent, "AutomaticallyDerived") {
                    v.push(("derived", J::Bool(true)));
                }
            }
            DefKind::Trait => {
                v.push(("trait_of", J::s(cx.path(parent))));
            }
            _ => {}
        }
        if matches!(dk, DefKind::Closure) {
            let root = tcx.typeck_root_def_id(did);
            v.push(("root", J::s(cx.path(root))));
            v.push(("parent", J::s(cx.path(parent))));
        }
        v.push(("name", J::s(tcx.opt_item_name(did).map(|s| s.to_string()).unwrap_or_default())));
        if matches!(dk, DefKind::Fn | DefKind::AssocFn) {
            v.push(("pub", J::Bool(tcx.visibility(did).is_public())));
            v.push(("exported", J::Bool(tcx.effective_visibilities(()).is_reachable(*ldid))));
            let sig = tcx.fn_sig(did).instantiate_identity().skip_norm_wip();
            v.push(("unsafe", J::Bool(sig.safety().is_unsafe())));
            v.push(("sig", J::s(format!("{}", sig))));
            v.push(("docs", docs_of(tcx, did)));
        }
        if let DefKind::Static { .. } = dk {
            v.push(("sty", J::s(cx.ty_str(tcx.type_of(did).instantiate_identity().skip_norm_wip()))));
            v.push(("tls", J::Bool(tcx.is_thread_local_static(did))));
        }
        // MIR
        let is_coroutine = tcx.is_coroutine(did);
        if is_fnlike {
            let body = tcx.optimized_mir(did);
            n_bodies += 1;
            for b in body.basic_blocks.iter() {
                if let Some(t) = &b.terminator {
                    if matches!(t.kind, rustc_middle::mir::TerminatorKind::Call { .. }) {
                        n_calls += 1;
                    }
                }
            }
            if is_coroutine {
                v.push(("coroutine", J::Bool(true)));
            }
            v.push(("mir", mirx::body_to_json(&cx, did, body)));
            let promoted = tcx.promoted_mir(did);
            if !promoted.is_empty() {
                v.push(("promoted", J::Arr(promoted.iter().map(|b| mirx::body_to_json(&cx, did, b)).collect())));
            }
        } else {
            let body = tcx.mir_for_ctfe(did);
            n_bodies += 1;
            v.push(("mir", mirx::body_to_json(&cx, did, body)));
            let promoted = tcx.promoted_mir(did);
            if !promoted.is_empty() {
                v.push(("promoted", J::Arr(promoted.iter().map(|b| mirx::body_to_json(&cx, did, b)).collect())));
            }
        }
        // HIR tree (closures are inlined into their parent's tree)
        if !matches!(dk, DefKind::Closure) {
            if let Some(body_id) = tcx.hir_maybe_body_owned_by(*ldid) {
                let tr = tcx.typeck(*ldid);
                let hx = hirx::HX { cx: &cx, tr };
                let params = J::Arr(body_id.params.iter().map(|p| hx.pat(p.pat)).collect());
                v.push(("hir_params", params));
                v.push(("hir", hx.expr(body_id.value)));
            }
        }
        fns.push(J::Obj(v));
    }

    // Items
    let mut adts = Vec::new();
    let mut impls = Vec::new();
    let mut macros = Vec::new();
    let mut traits = Vec::new();
    let mut mods = Vec::new();
    for id in tcx.hir_free_items() {
        let item = tcx.hir_item(id);
        let did = item.owner_id.to_def_id();
        let (line, exp) = cx.span_info(item.span);
        match &item.kind {
            hir::ItemKind::Struct(..) | hir::ItemKind::Enum(..) | hir::ItemKind::Union(..) => {
                let adt = tcx.adt_def(did);
                let mut variants = Vec::new();
                for (vi, var) in adt.variants().iter_enumerated() {
                    let mut fields = Vec::new();
                    for f in var.fields.iter() {
                        fields.push(J::Obj(vec![
                            ("name", J::s(f.name.to_string())),
                            ("ty", J::s(cx.ty_str(tcx.type_of(f.did).instantiate_identity().skip_norm_wip()))),
                            ("pub", J::Bool(f.vis.is_public())),
                        ]));
                    }
                    let discr = if adt.is_enum() {
                        J::Int(adt.discriminant_for_variant(tcx, vi).val as i128)
                    } else {
                        J::Null
                    };
                    variants.push(J::Obj(vec![
                        ("name", J::s(var.name.to_string())),
                        ("discr", discr),
                        ("fields", J::Arr(fields)),
                        ("docs", docs_of(tcx, var.def_id)),
                    ]));
                }
                adts.push(J::Obj(vec![
                    ("path", J::s(cx.path(did))),
                    ("kind", J::s(if adt.is_enum() { "enum" } else if adt.is_union() { "union" } else { "struct" })),
                    ("file", J::s(cx.file_of(item.span))),
                    ("ln", J::Int(line as i128)),
                    ("exp", J::opt_s(exp)),
                    ("pub", J::Bool(tcx.visibility(did).is_public())),
                    ("exported", J::Bool(tcx.effective_visibilities(()).is_reachable(item.owner_id.def_id))),
                    ("generics", J::Int(tcx.generics_of(did).count() as i128)),
                    ("variants", J::Arr(variants)),
                    ("docs", docs_of(tcx, did)),
                ]));
            }
            hir::ItemKind::Impl(imp) => {
                let self_ty = tcx.type_of(did).instantiate_identity().skip_norm_wip();
                let mut v: Vec<(&'static str, J)> = vec![
                    ("path", J::s(cx.path(did))),
                    ("self_ty", J::s(cx.ty_str(self_ty))),
                    ("file", J::s(cx.file_of(item.span))),
                    ("ln", J::Int(line as i128)),
                    ("exp", J::opt_s(exp)),
                ];
                if let Some(h) = imp.of_trait {
                    let tr = tcx.impl_trait_ref(did).instantiate_identity().skip_norm_wip();
                    v.push(("trait", J::s(cx.path(tr.def_id))));
                    v.push(("trait_ref", J::s(format!("{}", tr.print_only_trait_path()))));
                    v.push(("unsafe", J::Bool(h.safety.is_unsafe())));
                    v.push(("negative", J::Bool(matches!(h.polarity, hir::ImplPolarity::Negative(_)))));
                }
                if has_attr_named(tcx, did, "AutomaticallyDerived") {
                    v.push(("derived", J::Bool(true)));
                }
                let preds = tcx.predicates_of(did).instantiate_identity(tcx);
                v.push((
                    "bounds",
                    J::Arr(preds.predicates.iter().map(|p| J::s(format!("{}", p.skip_norm_wip()))).collect()),
                ));
                v.push((
                    "items",
                    J::Arr(imp.items.iter().map(|i| J::s(cx.path(i.owner_id.to_def_id()))).collect()),
                ));
                impls.push(J::Obj(v));
            }
            hir::ItemKind::Macro(ident, mac, _) => {
                // count top-level rules: sequences `(...) => {...}` separated by `;`
                let mut arms = 0usize;
                let mut fat = 0usize;
                for tt in mac.body.tokens.iter() {
                    if let rustc_ast::tokenstream::TokenTree::Token(tok, _) = tt {
                        if tok.kind == rustc_ast::token::TokenKind::FatArrow {
                            fat += 1;
                        }
                    }
                }
                arms += fat;
                macros.push(J::Obj(vec![
                    ("name", J::s(ident.to_string())),
                    ("path", J::s(cx.path(did))),
                    ("arms", J::Int(arms as i128)),
                    ("ln", J::Int(line as i128)),
                    ("file", J::s(cx.file_of(item.span))),
                    ("body", J::s(rustc_ast_pretty_tokens(&mac.body.tokens))),
                ]));
            }
            hir::ItemKind::Trait { .. } => {
                let mut items = Vec::new();
                for ai in tcx.associated_items(did).in_definition_order() {
                    items.push(J::Obj(vec![
                        ("name", J::s(ai.name().to_string())),
                        ("path", J::s(cx.path(ai.def_id))),
                        ("has_default", J::Bool(ai.defaultness(tcx).has_value())),
                        ("kind", J::s(format!("{:?}", ai.kind).chars().take(12).collect::<String>())),
                    ]));
                }
                traits.push(J::Obj(vec![
                    ("path", J::s(cx.path(did))),
                    ("items", J::Arr(items)),
                    ("file", J::s(cx.file_of(item.span))),
                    ("ln", J::Int(line as i128)),
                    ("exported", J::Bool(tcx.effective_visibilities(()).is_reachable(item.owner_id.def_id))),
                ]));
            }
            hir::ItemKind::Mod(ident, _) => {
                mods.push(J::Obj(vec![
                    ("name", J::s(ident.to_string())),
                    ("path", J::s(cx.path(did))),
                    ("pub", J::Bool(tcx.visibility(did).is_public())),
                ]));
            }
            _ => {}
        }
    }
    eprintln!("VDRV crate={} bodies={} calls={}", krate, n_bodies, n_calls);
    J::Obj(vec![
        ("crate", J::s(krate)),
        ("test", J::Bool(tcx.sess.opts.test)),
        ("crate_types", J::Arr(tcx.crate_types().iter().map(|t| J::s(format!("{:?}", t))).collect())),
        ("rustc", J::s(option_env!("CFG_VERSION").unwrap_or("nightly").to_string())),
        ("n_bodies", J::Int(n_bodies as i128)),
        ("n_calls", J::Int(n_calls as i128)),
        ("fns", J::Arr(fns)),
        ("adts", J::Arr(adts)),
        ("impls", J::Arr(impls)),
        ("macros", J::Arr(macros)),
        ("traits", J::Arr(traits)),
        ("mods", J::Arr(mods)),
    ])
}

fn rustc_ast_pretty_tokens(ts: &rustc_ast::tokenstream::TokenStream) -> String {
    // A compact, whitespace-normalised rendering; used only for hashing/inspection, never matched.
    let mut s = String::new();
    fn go(ts: &rustc_ast::tokenstream::TokenStream, s: &mut String) {
        for tt in ts.iter() {
            match tt {
                rustc_ast::tokenstream::TokenTree::Token(tok, _) => {
                    s.push_str(&format!("{:?} ", tok.kind).chars().take(40).collect::<String>());
                }
                rustc_ast::tokenstream::TokenTree::Delimited(_, _, d, inner) => {
                    s.push_str(&format!("<{:?} ", d));
                    go(inner, s);
                    s.push_str("> ");
                }
            }
        }
    }
    go(ts, &mut s);
    if s.len() > 200000 {
        s.truncate(200000);
    }
    s
}

struct Cb;
impl rustc_driver::Callbacks for Cb {
    fn after_analysis<'tcx>(
        &mut self,
        _c: &rustc_interface::interface::Compiler,
        tcx: TyCtxt<'tcx>,
    ) -> Compilation {
        let out = match std::env::var("VDRV_OUT") {
            Ok(o) => o,
            Err(_) => return Compilation::Continue,
        };
        let krate = tcx.crate_name(LOCAL_CRATE).to_string();
        if krate.starts_with("build_script") {
            return Compilation::Continue;
        }
        if let Ok(only) = std::env::var("VDRV_ONLY") {
            if !only.split(',').any(|c| c == krate) {
                return Compilation::Continue;
            }
        }
        let j = {
            let _g1 = ty::print::NoTrimmedGuard::new();
            let _g2 = ty::print::NoVisibleGuard::new();
            let _g3 = ty::print::CrateNamePrefixGuard::new();
            export(tcx)
        };
        let mut s = String::new();
        j.write(&mut s);
        let kind = if tcx.sess.opts.test { "test" } else { "lib" };
        let tag = std::env::var("VDRV_TAG").unwrap_or_default();
        let id = tcx.stable_crate_id(LOCAL_CRATE).as_u64();
        let path = format!("{}/{}.{}{}.{:016x}.json", out, krate, kind, tag, id);
        let tmp = format!("{}.tmp{}", path, std::process::id());
        std::fs::write(&tmp, s).expect("vdrv: cannot write fact file");
        std::fs::rename(&tmp, &path).expect("vdrv: cannot rename fact file");
        Compilation::Continue
    }
}

fn main() {
    let mut args: Vec<String> = std::env::args().collect();
    // wrapper mode: argv[1] is the real rustc path
    if args.len() > 1 && (args[1].ends_with("rustc") || args[1].contains("/rustc")) {
        args.remove(1);
    }
    rustc_driver::run_compiler(&args, &mut Cb);
}
