//! Typed HIR tree exporter.
use crate::json::J;
use crate::Cx;
use rustc_hir as hir;
use rustc_hir::def::Res;
use rustc_middle::ty::TypeckResults;

pub struct HX<'a, 'tcx> {
    pub cx: &'a Cx<'tcx>,
    pub tr: &'tcx TypeckResults<'tcx>,
}

impl<'a, 'tcx> HX<'a, 'tcx> {
    fn base(&self, k: &str, e: &hir::Expr<'tcx>) -> Vec<(&'static str, J)> {
        let mut v: Vec<(&'static str, J)> = vec![("k", J::s(k))];
        let (line, exp) = self.cx.span_info(e.span);
        v.push(("ln", J::Int(line as i128)));
        v.push(("exp", J::opt_s(exp)));
        if let Some(t) = self.tr.expr_ty_opt(e) {
            v.push(("ty", J::s(self.cx.ty_str(t))));
        }
        let adj = self.tr.expr_adjustments(e);
        if !adj.is_empty() {
            let mut a = Vec::new();
            for x in adj {
                use rustc_middle::ty::adjustment::Adjust;
                let s = match &x.kind {
                    Adjust::NeverToAny => "never".to_string(),
                    Adjust::Deref(d) => format!("deref:{:?}", d).chars().take(40).collect(),
                    Adjust::Borrow(_) => "borrow".to_string(),
                    Adjust::Pointer(p) => format!("ptr:{:?}", p),
                    #[allow(unreachable_patterns)]
                    _ => "other".to_string(),
                };
                a.push(J::s(s));
            }
            v.push(("adj", J::Arr(a)));
            if let Some(t) = self.tr.expr_ty_adjusted_opt(e) {
                v.push(("aty", J::s(self.cx.ty_str(t))));
            }
        }
        v
    }

    fn res(&self, res: Res, v: &mut Vec<(&'static str, J)>) {
        match res {
            Res::Def(kind, did) => {
                v.push(("res", J::s("def")));
                v.push(("dk", J::s(format!("{:?}", kind))));
                v.push(("path", J::s(self.cx.path(did))));
            }
            Res::Local(hid) => {
                v.push(("res", J::s("local")));
                v.push(("name", J::s(self.cx.tcx.hir_name(hid).to_string())));
                v.push(("id", J::Int(hid.local_id.as_u32() as i128)));
            }
            Res::SelfCtor(did) => {
                v.push(("res", J::s("selfctor")));
                v.push(("path", J::s(self.cx.path(did))));
            }
            Res::SelfTyAlias { alias_to, .. } => {
                v.push(("res", J::s("selfty")));
                v.push(("path", J::s(self.cx.path(alias_to))));
            }
            other => {
                v.push(("res", J::s(format!("{:?}", other))));
            }
        }
    }

    fn qpath(&self, qp: &hir::QPath<'tcx>, id: hir::HirId, v: &mut Vec<(&'static str, J)>) {
        let res = self.tr.qpath_res(qp, id);
        self.res(res, v);
        // textual last segment
        let seg = match qp {
            hir::QPath::Resolved(_, p) => p.segments.last().map(|s| s.ident.to_string()),
            hir::QPath::TypeRelative(_, s) => Some(s.ident.to_string()),
        };
        v.push(("seg", J::opt_s(seg)));
    }

    fn lit(&self, lit: &hir::Lit, v: &mut Vec<(&'static str, J)>) {
        use rustc_ast::LitKind;
        match &lit.node {
            LitKind::Str(s, _) => v.push(("str", J::s(s.to_string()))),
            LitKind::ByteStr(b, _) => {
                v.push(("bytes", J::Arr(b.as_byte_str().iter().map(|x| J::Int(*x as i128)).collect())))
            }
            LitKind::Byte(b) => v.push(("int", J::Int(*b as i128))),
            LitKind::Char(c) => v.push(("char", J::s(c.to_string()))),
            LitKind::Int(n, _) => v.push(("int", J::Int(n.get() as i128))),
            LitKind::Float(s, _) => v.push(("float", J::s(s.to_string()))),
            LitKind::Bool(b) => v.push(("bool", J::Bool(*b))),
            _ => v.push(("lit", J::s("other"))),
        }
    }

    pub fn block(&self, b: &hir::Block<'tcx>) -> J {
        let mut stmts = Vec::new();
        for s in b.stmts {
            match &s.kind {
                hir::StmtKind::Let(l) => {
                    let (line, exp) = self.cx.span_info(l.span);
                    stmts.push(J::Obj(vec![
                        ("k", J::s("Let")),
                        ("ln", J::Int(line as i128)),
                        ("exp", J::opt_s(exp)),
                        ("pat", self.pat(l.pat)),
                        ("init", l.init.map(|e| self.expr(e)).unwrap_or(J::Null)),
                        ("els", l.els.map(|b| self.block(b)).unwrap_or(J::Null)),
                        ("src", J::s(format!("{:?}", l.source))),
                    ]));
                }
                hir::StmtKind::Item(_) => {}
                hir::StmtKind::Expr(e) => stmts.push(self.expr(e)),
                hir::StmtKind::Semi(e) => {
                    stmts.push(J::Obj(vec![("k", J::s("Semi")), ("e", self.expr(e))]))
                }
            }
        }
        let (line, exp) = self.cx.span_info(b.span);
        J::Obj(vec![
            ("k", J::s("Block")),
            ("ln", J::Int(line as i128)),
            ("exp", J::opt_s(exp)),
            ("unsafe", if matches!(b.rules, hir::BlockCheckMode::UnsafeBlock(_)) { J::Bool(true) } else { J::Null }),
            ("stmts", J::Arr(stmts)),
            ("expr", b.expr.map(|e| self.expr(e)).unwrap_or(J::Null)),
        ])
    }

    pub fn pat(&self, p: &hir::Pat<'tcx>) -> J {
        let mut v: Vec<(&'static str, J)> = Vec::new();
        match &p.kind {
            hir::PatKind::Wild | hir::PatKind::Missing => v.push(("k", J::s("Wild"))),
            hir::PatKind::Binding(mode, hid, ident, sub) => {
                v.push(("k", J::s("Bind")));
                v.push(("name", J::s(ident.to_string())));
                v.push(("id", J::Int(hid.local_id.as_u32() as i128)));
                v.push(("mode", J::s(format!("{:?}", mode)).clone()));
                if let Some(s) = sub {
                    v.push(("sub", self.pat(s)));
                }
            }
            hir::PatKind::Struct(qp, fields, _) => {
                v.push(("k", J::s("Struct")));
                self.qpath(qp, p.hir_id, &mut v);
                v.push((
                    "fields",
                    J::Arr(
                        fields
                            .iter()
                            .map(|f| J::Obj(vec![("f", J::s(f.ident.to_string())), ("pat", self.pat(f.pat))]))
                            .collect(),
                    ),
                ));
            }
            hir::PatKind::TupleStruct(qp, pats, _) => {
                v.push(("k", J::s("TupleStruct")));
                self.qpath(qp, p.hir_id, &mut v);
                v.push(("pats", J::Arr(pats.iter().map(|x| self.pat(x)).collect())));
            }
            hir::PatKind::Or(pats) => {
                v.push(("k", J::s("Or")));
                v.push(("pats", J::Arr(pats.iter().map(|x| self.pat(x)).collect())));
            }
            hir::PatKind::Never => v.push(("k", J::s("Never"))),
            hir::PatKind::Tuple(pats, _) => {
                v.push(("k", J::s("Tuple")));
                v.push(("pats", J::Arr(pats.iter().map(|x| self.pat(x)).collect())));
            }
            hir::PatKind::Box(x) | hir::PatKind::Deref(x) => {
                v.push(("k", J::s("Deref")));
                v.push(("sub", self.pat(x)));
            }
            hir::PatKind::Ref(x, ..) => {
                v.push(("k", J::s("Ref")));
                v.push(("sub", self.pat(x)));
            }
            hir::PatKind::Expr(pe) => {
                self.pat_expr(pe, &mut v);
            }
            hir::PatKind::Guard(x, g) => {
                v.push(("k", J::s("Guard")));
                v.push(("sub", self.pat(x)));
                v.push(("guard", self.expr(g)));
            }
            hir::PatKind::Range(lo, hi, end) => {
                v.push(("k", J::s("Range")));
                if let Some(lo) = lo {
                    let mut a = Vec::new();
                    self.pat_expr(lo, &mut a);
                    v.push(("lo", J::Obj(a)));
                }
                if let Some(hi) = hi {
                    let mut a = Vec::new();
                    self.pat_expr(hi, &mut a);
                    v.push(("hi", J::Obj(a)));
                }
                v.push(("end", J::s(format!("{:?}", end))));
            }
            hir::PatKind::Slice(a, mid, b) => {
                v.push(("k", J::s("Slice")));
                v.push(("pats", J::Arr(a.iter().map(|x| self.pat(x)).collect())));
                if let Some(m) = mid {
                    v.push(("mid", self.pat(m)));
                }
                v.push(("post", J::Arr(b.iter().map(|x| self.pat(x)).collect())));
            }
            hir::PatKind::Err(_) => v.push(("k", J::s("Err"))),
        }
        J::Obj(v)
    }

    fn pat_expr(&self, pe: &hir::PatExpr<'tcx>, v: &mut Vec<(&'static str, J)>) {
        match &pe.kind {
            hir::PatExprKind::Lit { lit, negated } => {
                v.push(("k", J::s("Lit")));
                self.lit(lit, v);
                if *negated {
                    v.push(("neg", J::Bool(true)));
                }
            }
            hir::PatExprKind::Path(qp) => {
                v.push(("k", J::s("Path")));
                self.qpath(qp, pe.hir_id, v);
            }
        }
    }

    pub fn body(&self, id: hir::BodyId) -> (J, J) {
        let body = self.cx.tcx.hir_body(id);
        let params = J::Arr(body.params.iter().map(|p| self.pat(p.pat)).collect());
        (params, self.expr(body.value))
    }

    pub fn expr(&self, e: &hir::Expr<'tcx>) -> J {
        use hir::ExprKind as K;
        let tcx = self.cx.tcx;
        let mut v;
        match &e.kind {
            K::ConstBlock(cb) => {
                v = self.base("ConstBlock", e);
                let (_, b) = self.body(cb.body);
                v.push(("body", b));
            }
            K::Array(xs) => {
                v = self.base("Array", e);
                v.push(("elems", J::Arr(xs.iter().map(|x| self.expr(x)).collect())));
            }
            K::Call(f, args) => {
                v = self.base("Call", e);
                if let K::Path(qp) = &f.kind {
                    let mut fv = Vec::new();
                    self.qpath(qp, f.hir_id, &mut fv);
                    v.push(("callee", J::Obj(fv)));
                    // resolve trait assoc fns to impl where possible
                    if let Res::Def(_, did) = self.tr.qpath_res(qp, f.hir_id) {
                        let args_ = self.tr.node_args(f.hir_id);
                        if let Some(r) = self.cx.resolve(self.tr.hir_owner.def_id.to_def_id(), did, args_) {
                            v.push(("resolved", J::s(r)));
                        }
                        if let Some(tr) = tcx.trait_of_assoc(did) {
                            v.push(("trait", J::s(self.cx.path(tr))));
                        }
                    }
                } else {
                    v.push(("f", self.expr(f)));
                }
                v.push(("args", J::Arr(args.iter().map(|x| self.expr(x)).collect())));
            }
            K::MethodCall(seg, recv, args, _) => {
                v = self.base("MethodCall", e);
                v.push(("name", J::s(seg.ident.to_string())));
                if let Some(did) = self.tr.type_dependent_def_id(e.hir_id) {
                    v.push(("def", J::s(self.cx.path(did))));
                    let args_ = self.tr.node_args(e.hir_id);
                    if let Some(r) = self.cx.resolve(self.tr.hir_owner.def_id.to_def_id(), did, args_) {
                        v.push(("resolved", J::s(r)));
                    }
                    if let Some(tr) = tcx.trait_of_assoc(did) {
                        v.push(("trait", J::s(self.cx.path(tr))));
                    }
                }
                v.push(("recv", self.expr(recv)));
                v.push(("args", J::Arr(args.iter().map(|x| self.expr(x)).collect())));
            }
            K::Use(x, _) => {
                v = self.base("Use", e);
                v.push(("e", self.expr(x)));
            }
            K::Tup(xs) => {
                v = self.base("Tup", e);
                v.push(("elems", J::Arr(xs.iter().map(|x| self.expr(x)).collect())));
            }
            K::Binary(op, a, b) => {
                v = self.base("Binary", e);
                v.push(("op", J::s(format!("{:?}", op.node))));
                if let Some(did) = self.tr.type_dependent_def_id(e.hir_id) {
                    v.push(("def", J::s(self.cx.path(did))));
                }
                v.push(("a", self.expr(a)));
                v.push(("b", self.expr(b)));
            }
            K::Unary(op, a) => {
                v = self.base("Unary", e);
                v.push(("op", J::s(format!("{:?}", op))));
                if let Some(did) = self.tr.type_dependent_def_id(e.hir_id) {
                    v.push(("def", J::s(self.cx.path(did))));
                }
                v.push(("a", self.expr(a)));
            }
            K::Lit(lit) => {
                v = self.base("Lit", e);
                self.lit(lit, &mut v);
            }
            K::Cast(x, _) => {
                v = self.base("Cast", e);
                v.push(("e", self.expr(x)));
            }
            K::Type(x, _) => {
                v = self.base("Type", e);
                v.push(("e", self.expr(x)));
            }
            K::DropTemps(x) => {
                // transparent
                return self.expr(x);
            }
            K::Let(l) => {
                v = self.base("LetExpr", e);
                v.push(("pat", self.pat(l.pat)));
                v.push(("init", self.expr(l.init)));
            }
            K::If(c, t, f) => {
                v = self.base("If", e);
                v.push(("cond", self.expr(c)));
                v.push(("then", self.expr(t)));
                if let Some(f) = f {
                    v.push(("else", self.expr(f)));
                }
            }
            K::Loop(b, label, src, _) => {
                v = self.base("Loop", e);
                v.push(("src", J::s(format!("{:?}", src))));
                if let Some(l) = label {
                    v.push(("label", J::s(l.ident.to_string())));
                }
                v.push(("body", self.block(b)));
            }
            K::Match(scrut, arms, src) => {
                v = self.base("Match", e);
                v.push(("src", J::s(format!("{:?}", src).chars().take(24).collect::<String>())));
                v.push(("scrut", self.expr(scrut)));
                let mut av = Vec::new();
                for a in arms.iter() {
                    let (line, _) = self.cx.span_info(a.span);
                    av.push(J::Obj(vec![
                        ("ln", J::Int(line as i128)),
                        ("pat", self.pat(a.pat)),
                        ("guard", a.guard.map(|g| self.expr(g)).unwrap_or(J::Null)),
                        ("body", self.expr(a.body)),
                    ]));
                }
                v.push(("arms", J::Arr(av)));
            }
            K::Closure(c) => {
                v = self.base("Closure", e);
                v.push(("def", J::s(self.cx.path(c.def_id.to_def_id()))));
                v.push(("ckind", J::s(format!("{:?}", c.kind).chars().take(40).collect::<String>())));
                v.push(("capture", J::s(format!("{:?}", c.capture_clause))));
                let (params, body) = self.body(c.body);
                v.push(("params", params));
                v.push(("body", body));
            }
            K::Block(b, label) => {
                let mut j = self.block(b);
                if let J::Obj(ref mut bv) = j {
                    if let Some(l) = label {
                        bv.push(("label", J::s(l.ident.to_string())));
                    }
                    if let Some(t) = self.tr.expr_ty_opt(e) {
                        bv.push(("ty", J::s(self.cx.ty_str(t))));
                    }
                }
                return j;
            }
            K::Assign(l, r, _) => {
                v = self.base("Assign", e);
                v.push(("lhs", self.expr(l)));
                v.push(("rhs", self.expr(r)));
            }
            K::AssignOp(op, l, r) => {
                v = self.base("AssignOp", e);
                v.push(("op", J::s(format!("{:?}", op.node))));
                if let Some(did) = self.tr.type_dependent_def_id(e.hir_id) {
                    v.push(("def", J::s(self.cx.path(did))));
                }
                v.push(("lhs", self.expr(l)));
                v.push(("rhs", self.expr(r)));
            }
            K::Field(x, ident) => {
                v = self.base("Field", e);
                v.push(("f", J::s(ident.to_string())));
                v.push(("e", self.expr(x)));
            }
            K::Index(a, i, _) => {
                v = self.base("Index", e);
                if let Some(did) = self.tr.type_dependent_def_id(e.hir_id) {
                    v.push(("def", J::s(self.cx.path(did))));
                }
                v.push(("e", self.expr(a)));
                v.push(("i", self.expr(i)));
            }
            K::Path(qp) => {
                v = self.base("Path", e);
                self.qpath(qp, e.hir_id, &mut v);
            }
            K::AddrOf(kind, m, x) => {
                v = self.base("AddrOf", e);
                v.push(("mut", J::Bool(m.is_mut())));
                if matches!(kind, hir::BorrowKind::Raw) {
                    v.push(("raw", J::Bool(true)));
                }
                v.push(("e", self.expr(x)));
            }
            K::Break(dest, x) => {
                v = self.base("Break", e);
                if let Some(l) = dest.label {
                    v.push(("label", J::s(l.ident.to_string())));
                }
                if let Some(x) = x {
                    v.push(("e", self.expr(x)));
                }
            }
            K::Continue(dest) => {
                v = self.base("Continue", e);
                if let Some(l) = dest.label {
                    v.push(("label", J::s(l.ident.to_string())));
                }
            }
            K::Ret(x) => {
                v = self.base("Ret", e);
                if let Some(x) = x {
                    v.push(("e", self.expr(x)));
                }
            }
            K::Become(x) => {
                v = self.base("Become", e);
                v.push(("e", self.expr(x)));
            }
            K::Struct(qp, fields, tail) => {
                v = self.base("Struct", e);
                self.qpath(qp, e.hir_id, &mut v);
                v.push((
                    "fields",
                    J::Arr(
                        fields
                            .iter()
                            .map(|f| J::Obj(vec![("f", J::s(f.ident.to_string())), ("e", self.expr(f.expr))]))
                            .collect(),
                    ),
                ));
                if let hir::StructTailExpr::Base(b) = tail {
                    v.push(("base", self.expr(b)));
                }
            }
            K::Repeat(x, _) => {
                v = self.base("Repeat", e);
                v.push(("e", self.expr(x)));
            }
            K::Yield(x, src) => {
                v = self.base("Yield", e);
                v.push(("src", J::s(format!("{:?}", src).chars().take(16).collect::<String>())));
                v.push(("e", self.expr(x)));
            }
            K::InlineAsm(_) => v = self.base("InlineAsm", e),
            K::OffsetOf(..) => v = self.base("OffsetOf", e),
            K::UnsafeBinderCast(_, x, _) => {
                v = self.base("UnsafeBinderCast", e);
                v.push(("e", self.expr(x)));
            }
            K::Err(_) => v = self.base("Err", e),
        }
        J::Obj(v)
    }
}
